import BddTheory

/-!
L-IMG: the recursion equations that the SMT layer uses as the *definition* of the ghost relational product
`IMG(u, v)` / `FIMG(u, v)` (vlib/vc/contracts_bdd.py, `img_axioms`) hold for the semantic relational product:
"some (every) assignment that agrees with `a` outside the quantified levels makes `x` true and makes `y`, read through
the level map `vm`, true". `a` is the SMT term `A2 = A ∘ umap`.

The level map has to keep the order of the levels along the edges of `y`'s diagram (`VmOk`): this is what the documented
precondition of `image`/`preimage` (renamed variables adjacent to their partners, keys disjoint from values) provides.
-/

set_option linter.unusedSimpArgs false

namespace Bdd

variable {H : Heap} {sem : Asg → ℕ → Bool}

/-- value of the pair under `b`: `x` read directly, `y` read through the level map -/
def pairVal (sem : Asg → ℕ → Bool) (vm : ℕ → ℕ) (b : Asg) (x y : ℤ) : Bool :=
  semr sem b x && semr sem (fun j => b (vm j)) y

/-- existential relational product -/
def ImgEx (sem : Asg → ℕ → Bool) (Q : ℕ → Bool) (vm : ℕ → ℕ) (a : Asg) (x y : ℤ) : Prop :=
  ∃ b, Same Q a b ∧ pairVal sem vm b x y = true

/-- universal relational product -/
def ImgFa (sem : Asg → ℕ → Bool) (Q : ℕ → Bool) (vm : ℕ → ℕ) (a : Asg) (x y : ℤ) : Prop :=
  ∀ b, Same Q a b → pairVal sem vm b x y = true

/-- `P` is a set of nodes closed under children on which `vm` strictly increases along every edge -/
structure VmOk (H : Heap) (vm : ℕ → ℕ) (P : ℕ → Prop) : Prop where
  lo_in : ∀ u, P u → H.dom u → u ≠ 1 → P (H.lo u).natAbs
  hi_in : ∀ u, P u → H.dom u → u ≠ 1 → P (H.hi u).natAbs
  lo_lt : ∀ u, P u → H.dom u → u ≠ 1 → vm (H.lvl u) < vm (H.lvl (H.lo u).natAbs)
  hi_lt : ∀ u, P u → H.dom u → u ≠ 1 → vm (H.lvl u) < vm (H.lvl (H.hi u).natAbs)

/-- cofactors with respect to a level `z` that is not below the top level of the reference -/
def cofAt0 (H : Heap) (hit : Prop) [Decidable hit] (x : ℤ) : ℤ := if hit then cof0 H x else x
def cofAt1 (H : Heap) (hit : Prop) [Decidable hit] (x : ℤ) : ℤ := if hit then cof1 H x else x

/-- a node of `P` read through `vm` does not see level `z` when `z` is below the image of its own level -/
theorem indep_vm_node (wf : WF H) (hs : SEM H sem) {vm : ℕ → ℕ} {P : ℕ → Prop} (ok : VmOk H vm P) :
    ∀ d u, H.dom u → P u → H.nvars - H.lvl u ≤ d → ∀ (b : Asg) (z : ℕ) (v : Bool), z < vm (H.lvl u) →
      sem (fun j => (upd b z v) (vm j)) u = sem (fun j => b (vm j)) u := by
  intro d
  induction d with
  | zero =>
    intro u hu _ hd b z v _
    by_cases h1 : u = 1
    · subst h1; rw [hs.term, hs.term]
    · have := wf.lvl_lt u hu h1; omega
  | succ d ih =>
    intro u hu hP hd b z v hz
    by_cases h1 : u = 1
    · subst h1; rw [hs.term, hs.term]
    · have hl := wf.lvl_lt u hu h1
      have hhi := wf.ord_hi u hu h1
      have hlo := wf.ord_lo u hu h1
      rw [hs.node _ u hu h1, hs.node _ u hu h1]
      have e0 : (upd b z v) (vm (H.lvl u)) = b (vm (H.lvl u)) := by
        unfold upd
        have : vm (H.lvl u) ≠ z := by omega
        simp [this]
      have e1 : sem (fun j => (upd b z v) (vm j)) (H.hi u).natAbs = sem (fun j => b (vm j)) (H.hi u).natAbs :=
        ih _ (wf.hi_dom u hu h1) (ok.hi_in u hP hu h1) (by omega) b z v
          (lt_trans hz (ok.hi_lt u hP hu h1))
      have e2 : sem (fun j => (upd b z v) (vm j)) (H.lo u).natAbs = sem (fun j => b (vm j)) (H.lo u).natAbs :=
        ih _ (wf.lo_dom u hu h1) (ok.lo_in u hP hu h1) (by omega) b z v
          (lt_trans hz (ok.lo_lt u hP hu h1))
      simp only [e0]
      unfold semr
      rw [e1, e2]

theorem indep_vm (wf : WF H) (hs : SEM H sem) {vm : ℕ → ℕ} {P : ℕ → Prop} (ok : VmOk H vm P)
    (y : ℤ) (hy : IsRef H y) (hP : P y.natAbs) (b : Asg) (z : ℕ) (v : Bool) (hz : z < vm (lv H y)) :
    semr sem (fun j => (upd b z v) (vm j)) y = semr sem (fun j => b (vm j)) y := by
  have := indep_vm_node wf hs ok (H.nvars - H.lvl y.natAbs) y.natAbs hy.2 hP le_rfl b z v hz
  unfold semr
  rw [this]

/-- hypotheses about one pair `(x, y)` and the level `z = min (lv x) (vm (lv y))` -/
structure PairAt (H : Heap) (vm : ℕ → ℕ) (P : ℕ → Prop) (x y : ℤ) (z : ℕ) : Prop where
  hx  : IsRef H x
  hy  : IsRef H y
  hP  : P y.natAbs
  zx  : z ≤ lv H x
  zy  : z ≤ vm (lv H y)
  ntx : lv H x = z → x.natAbs ≠ 1
  nty : vm (lv H y) = z → y.natAbs ≠ 1

/-- Shannon expansion of `x` at level `z` (a level not below its top level) -/
theorem shannon_at (wf : WF H) (hs : SEM H sem) (x : ℤ) (hx : IsRef H x) (z : ℕ)
    (hnt : lv H x = z → x.natAbs ≠ 1) (b : Asg) :
    semr sem b x = if b z then semr sem b (cofAt1 H (lv H x = z) x) else semr sem b (cofAt0 H (lv H x = z) x) := by
  unfold cofAt0 cofAt1
  by_cases h : lv H x = z
  · simp only [h, if_true]
    have := shannon wf hs x hx (hnt h) b
    rw [h] at this
    simpa using this
  · simp only [h, if_false]
    split_ifs <;> rfl

/-- Shannon expansion of `y` read through `vm`, at the level `z` of the image space -/
theorem shannon_vm (wf : WF H) (hs : SEM H sem) (vm : ℕ → ℕ) (y : ℤ) (hy : IsRef H y) (z : ℕ)
    (hnt : vm (lv H y) = z → y.natAbs ≠ 1) (b : Asg) :
    semr sem (fun j => b (vm j)) y =
      if b z then semr sem (fun j => b (vm j)) (cofAt1 H (vm (lv H y) = z) y)
      else semr sem (fun j => b (vm j)) (cofAt0 H (vm (lv H y) = z) y) := by
  unfold cofAt0 cofAt1
  by_cases h : vm (lv H y) = z
  · simp only [h, if_true]
    have := shannon wf hs y hy (hnt h) (fun j => b (vm j))
    simp only [h] at this
    simpa using this
  · simp only [h, if_false]
    split_ifs <;> rfl

/-- the pair value at `b` is the pair value of the cofactors selected by `b z` -/
theorem pairVal_split (wf : WF H) (hs : SEM H sem) {vm : ℕ → ℕ} {P : ℕ → Prop} {x y : ℤ} {z : ℕ}
    (pa : PairAt H vm P x y z) (b : Asg) :
    pairVal sem vm b x y =
      if b z then pairVal sem vm b (cofAt1 H (lv H x = z) x) (cofAt1 H (vm (lv H y) = z) y)
      else pairVal sem vm b (cofAt0 H (lv H x = z) x) (cofAt0 H (vm (lv H y) = z) y) := by
  unfold pairVal
  rw [shannon_at wf hs x pa.hx z pa.ntx b, shannon_vm wf hs vm y pa.hy z pa.nty b]
  split_ifs <;> rfl

/-- the selected cofactors do not see level `z` -/
theorem pairVal_indep (wf : WF H) (hs : SEM H sem) {vm : ℕ → ℕ} {P : ℕ → Prop} (ok : VmOk H vm P) {x y : ℤ} {z : ℕ}
    (pa : PairAt H vm P x y z) (b : Asg) (v : Bool) :
    (pairVal sem vm (upd b z v) (cofAt0 H (lv H x = z) x) (cofAt0 H (vm (lv H y) = z) y)
        = pairVal sem vm b (cofAt0 H (lv H x = z) x) (cofAt0 H (vm (lv H y) = z) y)) ∧
    (pairVal sem vm (upd b z v) (cofAt1 H (lv H x = z) x) (cofAt1 H (vm (lv H y) = z) y)
        = pairVal sem vm b (cofAt1 H (lv H x = z) x) (cofAt1 H (vm (lv H y) = z) y)) := by
  -- facts about the x side
  have hx0 : IsRef H (cofAt0 H (lv H x = z) x) ∧ z < lv H (cofAt0 H (lv H x = z) x) := by
    unfold cofAt0
    by_cases h : lv H x = z
    · simp only [h, if_true]
      obtain ⟨r, l⟩ := cof0_ref wf x pa.hx (pa.ntx h)
      exact ⟨r, by omega⟩
    · simp only [h, if_false]
      exact ⟨pa.hx, lt_of_le_of_ne pa.zx (fun e => h e.symm)⟩
  have hx1 : IsRef H (cofAt1 H (lv H x = z) x) ∧ z < lv H (cofAt1 H (lv H x = z) x) := by
    unfold cofAt1
    by_cases h : lv H x = z
    · simp only [h, if_true]
      obtain ⟨r, l⟩ := cof1_ref wf x pa.hx (pa.ntx h)
      exact ⟨r, by omega⟩
    · simp only [h, if_false]
      exact ⟨pa.hx, lt_of_le_of_ne pa.zx (fun e => h e.symm)⟩
  -- facts about the y side
  have hy0 : IsRef H (cofAt0 H (vm (lv H y) = z) y) ∧ P (cofAt0 H (vm (lv H y) = z) y).natAbs ∧
      z < vm (lv H (cofAt0 H (vm (lv H y) = z) y)) := by
    unfold cofAt0
    by_cases h : vm (lv H y) = z
    · simp only [h, if_true]
      have hnt := pa.nty h
      obtain ⟨r, _⟩ := cof0_ref wf y pa.hy hnt
      have hin := ok.lo_in y.natAbs pa.hP pa.hy.2 hnt
      have hlt := ok.lo_lt y.natAbs pa.hP pa.hy.2 hnt
      refine ⟨r, ?_, ?_⟩
      · unfold cof0; split_ifs
        · exact hin
        · rw [Int.natAbs_neg]; exact hin
      · unfold lv cof0; unfold lv at h; split_ifs
        · omega
        · rw [Int.natAbs_neg]; omega
    · simp only [h, if_false]
      exact ⟨pa.hy, pa.hP, lt_of_le_of_ne pa.zy (fun e => h e.symm)⟩
  have hy1 : IsRef H (cofAt1 H (vm (lv H y) = z) y) ∧ P (cofAt1 H (vm (lv H y) = z) y).natAbs ∧
      z < vm (lv H (cofAt1 H (vm (lv H y) = z) y)) := by
    unfold cofAt1
    by_cases h : vm (lv H y) = z
    · simp only [h, if_true]
      have hnt := pa.nty h
      obtain ⟨r, _⟩ := cof1_ref wf y pa.hy hnt
      have hin := ok.hi_in y.natAbs pa.hP pa.hy.2 hnt
      have hlt := ok.hi_lt y.natAbs pa.hP pa.hy.2 hnt
      refine ⟨r, ?_, ?_⟩
      · unfold cof1; split_ifs
        · exact hin
        · rw [Int.natAbs_neg]; exact hin
      · unfold lv cof1; unfold lv at h; split_ifs
        · omega
        · rw [Int.natAbs_neg]; omega
    · simp only [h, if_false]
      exact ⟨pa.hy, pa.hP, lt_of_le_of_ne pa.zy (fun e => h e.symm)⟩
  constructor
  · unfold pairVal
    rw [indep_above wf hs _ hx0.1 z hx0.2 b v, indep_vm wf hs ok _ hy0.1 hy0.2.1 b z v hy0.2.2]
  · unfold pairVal
    rw [indep_above wf hs _ hx1.1 z hx1.2 b v, indep_vm wf hs ok _ hy1.1 hy1.2.1 b z v hy1.2.2]

theorem upd_self_val (b : Asg) (z : ℕ) (v : Bool) : (upd b z v) z = v := by
  unfold upd; simp

/-- L-IMG, existential form: the recursion equation `IMG-rec` of the SMT layer -/
theorem img_rec_ex (wf : WF H) (hs : SEM H sem) {Q : ℕ → Bool} {vm : ℕ → ℕ} {P : ℕ → Prop} (ok : VmOk H vm P)
    {x y : ℤ} {z : ℕ} (pa : PairAt H vm P x y z) (a : Asg) :
    ImgEx sem Q vm a x y ↔
      if Q z = true then
        (ImgEx sem Q vm a (cofAt0 H (lv H x = z) x) (cofAt0 H (vm (lv H y) = z) y) ∨
         ImgEx sem Q vm a (cofAt1 H (lv H x = z) x) (cofAt1 H (vm (lv H y) = z) y))
      else if a z = true then ImgEx sem Q vm a (cofAt1 H (lv H x = z) x) (cofAt1 H (vm (lv H y) = z) y)
      else ImgEx sem Q vm a (cofAt0 H (lv H x = z) x) (cofAt0 H (vm (lv H y) = z) y) := by
  by_cases hq : Q z = true
  · simp only [hq, if_true]
    constructor
    · rintro ⟨b, hb, hv⟩
      rw [pairVal_split wf hs pa b] at hv
      by_cases hbz : b z = true
      · simp only [hbz, if_true] at hv; exact Or.inr ⟨b, hb, hv⟩
      · simp only [hbz, if_false] at hv; exact Or.inl ⟨b, hb, hv⟩
    · rintro (⟨b, hb, hv⟩ | ⟨b, hb, hv⟩)
      · refine ⟨upd b z false, same_upd hb z hq false, ?_⟩
        rw [pairVal_split wf hs pa (upd b z false), upd_self_val]
        simp only [Bool.false_eq_true, if_false]
        rw [(pairVal_indep wf hs ok pa b false).1]; exact hv
      · refine ⟨upd b z true, same_upd hb z hq true, ?_⟩
        rw [pairVal_split wf hs pa (upd b z true), upd_self_val]
        simp only [if_true]
        rw [(pairVal_indep wf hs ok pa b true).2]; exact hv
  · simp only [hq, if_false]
    have hqf : Q z = false := by cases h : Q z <;> simp_all
    by_cases haz : a z = true
    · simp only [haz, if_true]
      constructor
      · rintro ⟨b, hb, hv⟩
        have hbz : b z = true := by rw [hb z hqf]; exact haz
        rw [pairVal_split wf hs pa b] at hv
        simp only [hbz, if_true] at hv
        exact ⟨b, hb, hv⟩
      · rintro ⟨b, hb, hv⟩
        have hbz : b z = true := by rw [hb z hqf]; exact haz
        refine ⟨b, hb, ?_⟩
        rw [pairVal_split wf hs pa b]
        simp only [hbz, if_true]; exact hv
    · simp only [haz, if_false]
      constructor
      · rintro ⟨b, hb, hv⟩
        have hbz : ¬ (b z = true) := by rw [hb z hqf]; exact haz
        rw [pairVal_split wf hs pa b] at hv
        simp only [hbz, if_false] at hv
        exact ⟨b, hb, hv⟩
      · rintro ⟨b, hb, hv⟩
        have hbz : ¬ (b z = true) := by rw [hb z hqf]; exact haz
        refine ⟨b, hb, ?_⟩
        rw [pairVal_split wf hs pa b]
        simp only [hbz, if_false]; exact hv

/-- L-IMG, universal form: the recursion equation `FIMG-rec` of the SMT layer -/
theorem img_rec_fa (wf : WF H) (hs : SEM H sem) {Q : ℕ → Bool} {vm : ℕ → ℕ} {P : ℕ → Prop} (ok : VmOk H vm P)
    {x y : ℤ} {z : ℕ} (pa : PairAt H vm P x y z) (a : Asg) :
    ImgFa sem Q vm a x y ↔
      if Q z = true then
        (ImgFa sem Q vm a (cofAt0 H (lv H x = z) x) (cofAt0 H (vm (lv H y) = z) y) ∧
         ImgFa sem Q vm a (cofAt1 H (lv H x = z) x) (cofAt1 H (vm (lv H y) = z) y))
      else if a z = true then ImgFa sem Q vm a (cofAt1 H (lv H x = z) x) (cofAt1 H (vm (lv H y) = z) y)
      else ImgFa sem Q vm a (cofAt0 H (lv H x = z) x) (cofAt0 H (vm (lv H y) = z) y) := by
  by_cases hq : Q z = true
  · simp only [hq, if_true]
    constructor
    · intro hall
      constructor
      · intro b hb
        have := hall (upd b z false) (same_upd hb z hq false)
        rw [pairVal_split wf hs pa (upd b z false), upd_self_val] at this
        simp only [Bool.false_eq_true, if_false] at this
        rw [(pairVal_indep wf hs ok pa b false).1] at this; exact this
      · intro b hb
        have := hall (upd b z true) (same_upd hb z hq true)
        rw [pairVal_split wf hs pa (upd b z true), upd_self_val] at this
        simp only [if_true] at this
        rw [(pairVal_indep wf hs ok pa b true).2] at this; exact this
    · rintro ⟨h0, h1⟩ b hb
      rw [pairVal_split wf hs pa b]
      by_cases hbz : b z = true
      · simp only [hbz, if_true]; exact h1 b hb
      · simp only [hbz, if_false]; exact h0 b hb
  · simp only [hq, if_false]
    have hqf : Q z = false := by cases h : Q z <;> simp_all
    by_cases haz : a z = true
    · simp only [haz, if_true]
      constructor
      · intro hall b hb
        have hbz : b z = true := by rw [hb z hqf]; exact haz
        have := hall b hb
        rw [pairVal_split wf hs pa b] at this
        simp only [hbz, if_true] at this; exact this
      · intro hall b hb
        have hbz : b z = true := by rw [hb z hqf]; exact haz
        rw [pairVal_split wf hs pa b]
        simp only [hbz, if_true]; exact hall b hb
    · simp only [haz, if_false]
      constructor
      · intro hall b hb
        have hbz : ¬ (b z = true) := by rw [hb z hqf]; exact haz
        have := hall b hb
        rw [pairVal_split wf hs pa b] at this
        simp only [hbz, if_false] at this; exact this
      · intro hall b hb
        have hbz : ¬ (b z = true) := by rw [hb z hqf]; exact haz
        rw [pairVal_split wf hs pa b]
        simp only [hbz, if_false]; exact hall b hb

/-- base cases `IMG-base` / `IMG-one` of the SMT layer -/
theorem img_base (hs : SEM H sem) (Q : ℕ → Bool) (vm : ℕ → ℕ) (a : Asg) (y : ℤ) :
    ¬ ImgEx sem Q vm a (-1) y ∧ ¬ ImgEx sem Q vm a y (-1) ∧ ¬ ImgFa sem Q vm a (-1) y ∧ ¬ ImgFa sem Q vm a y (-1) ∧
    ImgEx sem Q vm a 1 1 ∧ ImgFa sem Q vm a 1 1 := by
  have hm : ∀ b : Asg, semr sem b (-1) = false := by
    intro b; unfold semr; simp [hs.term]
  have hp : ∀ b : Asg, semr sem b 1 = true := by
    intro b; unfold semr; simp [hs.term]
  have same_refl : Same Q a a := fun _ _ => rfl
  refine ⟨?_, ?_, ?_, ?_, ?_, ?_⟩
  · rintro ⟨b, _, hv⟩; unfold pairVal at hv; rw [hm] at hv; simp at hv
  · rintro ⟨b, _, hv⟩; unfold pairVal at hv; rw [hm] at hv; simp at hv
  · intro h; have := h a same_refl; unfold pairVal at this; rw [hm] at this; simp at this
  · intro h; have := h a same_refl; unfold pairVal at this; rw [hm] at this; simp at this
  · exact ⟨a, same_refl, by unfold pairVal; rw [hp, hp]; rfl⟩
  · intro b _; unfold pairVal; rw [hp, hp]; rfl

end Bdd
