import Mathlib.Tactic

/-!
Scratch: abstract model of a reduced ordered BDD with complemented edges
(node table of `dd.bdd.BDD`) and the canonicity lemma L-CANON.
-/

namespace Bdd

/-- Node table. Ids are naturals, `1` is the terminal; references are nonzero
integers, negative = complemented edge. Levels are naturals; the terminal sits
at level `nvars`. -/
structure Heap where
  dom   : ℕ → Prop
  lvl   : ℕ → ℕ
  lo    : ℕ → ℤ
  hi    : ℕ → ℤ
  nvars : ℕ

/-- W1–W4 of DESIGN.md section 2.2 (shape, reduced, ordered, unique). -/
structure WF (H : Heap) : Prop where
  term_dom : H.dom 1
  term_lvl : H.lvl 1 = H.nvars
  pos      : ∀ u, H.dom u → 1 ≤ u
  lvl_lt   : ∀ u, H.dom u → u ≠ 1 → H.lvl u < H.nvars
  hi_pos   : ∀ u, H.dom u → u ≠ 1 → 0 < H.hi u
  hi_dom   : ∀ u, H.dom u → u ≠ 1 → H.dom (H.hi u).natAbs
  lo_ne    : ∀ u, H.dom u → u ≠ 1 → H.lo u ≠ 0
  lo_dom   : ∀ u, H.dom u → u ≠ 1 → H.dom (H.lo u).natAbs
  reduced  : ∀ u, H.dom u → u ≠ 1 → H.lo u ≠ H.hi u
  ord_lo   : ∀ u, H.dom u → u ≠ 1 → H.lvl u < H.lvl (H.lo u).natAbs
  ord_hi   : ∀ u, H.dom u → u ≠ 1 → H.lvl u < H.lvl (H.hi u).natAbs
  uniq     : ∀ u v, H.dom u → H.dom v → u ≠ 1 → v ≠ 1 →
               H.lvl u = H.lvl v → H.lo u = H.lo v → H.hi u = H.hi v → u = v

abbrev Asg := ℕ → Bool

/-- value of a signed reference given the per-node ghost map -/
def semr (sem : Asg → ℕ → Bool) (a : Asg) (x : ℤ) : Bool :=
  if 0 < x then sem a x.natAbs else !(sem a x.natAbs)

/-- W9: the ghost map satisfies the Shannon equations -/
structure SEM (H : Heap) (sem : Asg → ℕ → Bool) : Prop where
  term : ∀ a, sem a 1 = true
  node : ∀ a u, H.dom u → u ≠ 1 →
    sem a u = if a (H.lvl u) then semr sem a (H.hi u) else semr sem a (H.lo u)

def IsRef (H : Heap) (x : ℤ) : Prop := x ≠ 0 ∧ H.dom x.natAbs

def lv (H : Heap) (x : ℤ) : ℕ := H.lvl x.natAbs

variable {H : Heap} {sem : Asg → ℕ → Bool}

theorem semr_neg (a : Asg) (x : ℤ) (hx : x ≠ 0) :
    semr sem a (-x) = !(semr sem a x) := by
  unfold semr
  rcases lt_or_gt_of_ne hx with h | h
  · have h1 : 0 < -x := by omega
    have h2 : ¬ (0 < x) := by omega
    rw [if_pos h1, if_neg h2, Int.natAbs_neg, Bool.not_not]
  · have h1 : ¬ (0 < -x) := by omega
    rw [if_neg h1, if_pos h, Int.natAbs_neg]

/-- AGREE: a node does not depend on the variables above it. -/
theorem agree_node (wf : WF H) (hs : SEM H sem) :
    ∀ d u, H.dom u → H.nvars - H.lvl u ≤ d →
      ∀ a b : Asg, (∀ l, H.lvl u ≤ l → a l = b l) → sem a u = sem b u := by
  intro d
  induction d with
  | zero =>
    intro u hu hd a b _
    by_cases h1 : u = 1
    · subst h1; rw [hs.term, hs.term]
    · have := wf.lvl_lt u hu h1; omega
  | succ d ih =>
    intro u hu hd a b hab
    by_cases h1 : u = 1
    · subst h1; rw [hs.term, hs.term]
    · have hl := wf.lvl_lt u hu h1
      rw [hs.node a u hu h1, hs.node b u hu h1, hab (H.lvl u) le_rfl]
      have hhi := wf.ord_hi u hu h1
      have hlo := wf.ord_lo u hu h1
      have e1 : sem a (H.hi u).natAbs = sem b (H.hi u).natAbs :=
        ih _ (wf.hi_dom u hu h1) (by omega) a b (fun l hl' => hab l (by omega))
      have e2 : sem a (H.lo u).natAbs = sem b (H.lo u).natAbs :=
        ih _ (wf.lo_dom u hu h1) (by omega) a b (fun l hl' => hab l (by omega))
      unfold semr
      rw [e1, e2]

theorem agree_ref (wf : WF H) (hs : SEM H sem) (x : ℤ) (hx : IsRef H x)
    (a b : Asg) (hab : ∀ l, lv H x ≤ l → a l = b l) :
    semr sem a x = semr sem b x := by
  have := agree_node wf hs (H.nvars - H.lvl x.natAbs) x.natAbs hx.2 le_rfl a b hab
  unfold semr
  rw [this]

/-- signed cofactors of a reference to a non-terminal node -/
def cof0 (H : Heap) (x : ℤ) : ℤ := if 0 < x then H.lo x.natAbs else -(H.lo x.natAbs)
def cof1 (H : Heap) (x : ℤ) : ℤ := if 0 < x then H.hi x.natAbs else -(H.hi x.natAbs)

theorem shannon (wf : WF H) (hs : SEM H sem) (x : ℤ) (hx : IsRef H x)
    (hnt : x.natAbs ≠ 1) (a : Asg) :
    semr sem a x =
      if a (lv H x) then semr sem a (cof1 H x) else semr sem a (cof0 H x) := by
  have hn := hs.node a x.natAbs hx.2 hnt
  have hlo := wf.lo_ne x.natAbs hx.2 hnt
  have hhi : H.hi x.natAbs ≠ 0 := by have := wf.hi_pos x.natAbs hx.2 hnt; omega
  unfold cof0 cof1 lv
  by_cases hp : 0 < x
  · simp only [hp, if_true]
    conv_lhs => unfold semr
    simp only [hp, if_true]
    exact hn
  · simp only [hp, if_false]
    conv_lhs => unfold semr
    simp only [hp, if_false]
    rw [hn, semr_neg a _ hhi, semr_neg a _ hlo]
    by_cases ha : a (H.lvl x.natAbs) <;> simp [ha]

theorem cof0_ref (wf : WF H) (x : ℤ) (hx : IsRef H x) (hnt : x.natAbs ≠ 1) :
    IsRef H (cof0 H x) ∧ lv H x < lv H (cof0 H x) := by
  have h1 := wf.lo_ne x.natAbs hx.2 hnt
  have h2 := wf.lo_dom x.natAbs hx.2 hnt
  have h3 := wf.ord_lo x.natAbs hx.2 hnt
  unfold cof0 lv IsRef
  by_cases hp : 0 < x
  · simp only [hp, if_true]; exact ⟨⟨h1, h2⟩, h3⟩
  · simp only [hp, if_false, Int.natAbs_neg]
    exact ⟨⟨by omega, h2⟩, h3⟩

theorem cof1_ref (wf : WF H) (x : ℤ) (hx : IsRef H x) (hnt : x.natAbs ≠ 1) :
    IsRef H (cof1 H x) ∧ lv H x < lv H (cof1 H x) := by
  have h1 := wf.hi_pos x.natAbs hx.2 hnt
  have h2 := wf.hi_dom x.natAbs hx.2 hnt
  have h3 := wf.ord_hi x.natAbs hx.2 hnt
  unfold cof1 lv IsRef
  by_cases hp : 0 < x
  · simp only [hp, if_true]; exact ⟨⟨by omega, h2⟩, h3⟩
  · simp only [hp, if_false, Int.natAbs_neg]
    exact ⟨⟨by omega, h2⟩, h3⟩

/-- the two signed cofactors of a reference are different references -/
theorem cof_ne (wf : WF H) (x : ℤ) (hx : IsRef H x) (hnt : x.natAbs ≠ 1) :
    cof0 H x ≠ cof1 H x := by
  have h := wf.reduced x.natAbs hx.2 hnt
  unfold cof0 cof1
  by_cases hp : 0 < x
  · simp only [hp, if_true]; exact h
  · simp only [hp, if_false]; intro e; exact h (by omega)

/-- a reference whose node is at level `nvars` is a reference to the terminal -/
theorem terminal_of_lv (wf : WF H) (x : ℤ) (hx : IsRef H x) (h : H.nvars ≤ lv H x) :
    x.natAbs = 1 := by
  by_contra hne
  have := wf.lvl_lt x.natAbs hx.2 hne
  unfold lv at h
  omega

def upd (a : Asg) (k : ℕ) (v : Bool) : Asg := fun l => if l = k then v else a l

/-- L-CANON, by downward induction on the smallest level involved. -/
theorem canon_aux (wf : WF H) (hs : SEM H sem) :
    ∀ d (x y : ℤ), IsRef H x → IsRef H y →
      H.nvars - lv H x ≤ d → H.nvars - lv H y ≤ d →
      (∀ a, semr sem a x = semr sem a y) → x = y := by
  intro d
  induction d with
  | zero =>
    intro x y hx hy hdx hdy heq
    have tx := terminal_of_lv wf x hx (by omega)
    have ty := terminal_of_lv wf y hy (by omega)
    have e := heq (fun _ => true)
    unfold semr at e
    rw [tx, ty, hs.term] at e
    have hx0 := hx.1
    have hy0 := hy.1
    by_cases px : 0 < x <;> by_cases py : 0 < y <;> simp [px, py] at e <;> omega
  | succ d ih =>
    intro x y hx hy hdx hdy heq
    -- a reference at a deeper level does not depend on level `k`
    have indep : ∀ (z : ℤ), IsRef H z → ∀ k, k < lv H z → ∀ a v,
        semr sem (upd a k v) z = semr sem a z := by
      intro z hz k hk a v
      apply agree_ref wf hs z hz
      intro l hl
      unfold upd
      have : l ≠ k := by omega
      simp [this]
    -- a non-terminal reference at level k depends on level k
    have dep : ∀ (z : ℤ), IsRef H z → z.natAbs ≠ 1 → H.nvars - lv H z ≤ d + 1 →
        ∃ a, semr sem (upd a (lv H z) false) z ≠ semr sem (upd a (lv H z) true) z := by
      intro z hz hnt hdz
      obtain ⟨r0, l0⟩ := cof0_ref wf z hz hnt
      obtain ⟨r1, l1⟩ := cof1_ref wf z hz hnt
      have hne := cof_ne wf z hz hnt
      have : ¬ (∀ a, semr sem a (cof0 H z) = semr sem a (cof1 H z)) := by
        intro hall
        exact hne (ih _ _ r0 r1 (by omega) (by omega) hall)
      push Not at this
      obtain ⟨a, ha⟩ := this
      refine ⟨a, ?_⟩
      rw [shannon wf hs z hz hnt, shannon wf hs z hz hnt]
      simp only [upd, if_true]
      simp only [Bool.false_eq_true, if_false]
      rw [indep _ r0 _ l0, indep _ r1 _ l1]
      exact ha
    by_cases tx : x.natAbs = 1
    · by_cases ty : y.natAbs = 1
      · -- both terminal
        have e := heq (fun _ => true)
        unfold semr at e
        rw [tx, ty, hs.term] at e
        have hx0 := hx.1
        have hy0 := hy.1
        by_cases px : 0 < x <;> by_cases py : 0 < y <;> simp [px, py] at e <;> omega
      · -- x terminal, y not: y depends on its level, x does not
        exfalso
        obtain ⟨a, ha⟩ := dep y hy ty hdy
        apply ha
        have hlx : lv H y < lv H x := by
          have := wf.lvl_lt y.natAbs hy.2 ty
          unfold lv; rw [tx, wf.term_lvl]; exact this
        rw [← heq, ← heq, indep x hx _ hlx, indep x hx _ hlx]
    · by_cases ty : y.natAbs = 1
      · exfalso
        obtain ⟨a, ha⟩ := dep x hx tx hdx
        apply ha
        have hly : lv H x < lv H y := by
          have := wf.lvl_lt x.natAbs hx.2 tx
          unfold lv; rw [ty, wf.term_lvl]; exact this
        rw [heq, heq, indep y hy _ hly, indep y hy _ hly]
      · -- both non-terminal
        rcases lt_trichotomy (lv H x) (lv H y) with hlt | heqv | hgt
        · exfalso
          obtain ⟨a, ha⟩ := dep x hx tx hdx
          apply ha
          rw [heq, heq, indep y hy _ hlt, indep y hy _ hlt]
        · -- same level: cofactors agree, so the nodes coincide
          obtain ⟨rx0, lx0⟩ := cof0_ref wf x hx tx
          obtain ⟨rx1, lx1⟩ := cof1_ref wf x hx tx
          obtain ⟨ry0, ly0⟩ := cof0_ref wf y hy ty
          obtain ⟨ry1, ly1⟩ := cof1_ref wf y hy ty
          have c0 : cof0 H x = cof0 H y := by
            apply ih _ _ rx0 ry0 (by omega) (by omega)
            intro a
            have e := heq (upd a (lv H x) false)
            rw [shannon wf hs x hx tx, shannon wf hs y hy ty, ← heqv] at e
            simp only [upd, if_true, Bool.false_eq_true, if_false] at e
            rw [indep _ rx0 _ lx0, indep _ ry0 _ (by omega)] at e
            exact e
          have c1 : cof1 H x = cof1 H y := by
            apply ih _ _ rx1 ry1 (by omega) (by omega)
            intro a
            have e := heq (upd a (lv H x) true)
            rw [shannon wf hs x hx tx, shannon wf hs y hy ty, ← heqv] at e
            simp only [upd, if_true] at e
            rw [indep _ rx1 _ lx1, indep _ ry1 _ (by omega)] at e
            exact e
          -- high edges are positive, so the signs of x and y agree
          have hpx := wf.hi_pos x.natAbs hx.2 tx
          have hpy := wf.hi_pos y.natAbs hy.2 ty
          have hx0 := hx.1
          have hy0 := hy.1
          unfold cof0 at c0
          unfold cof1 at c1
          by_cases px : 0 < x <;> by_cases py : 0 < y <;>
            simp only [px, py, if_true, if_false] at c0 c1
          · have := wf.uniq _ _ hx.2 hy.2 tx ty heqv c0 c1
            omega
          · omega
          · omega
          · have := wf.uniq _ _ hx.2 hy.2 tx ty heqv (by omega) (by omega)
            omega
        · exfalso
          obtain ⟨a, ha⟩ := dep y hy ty hdy
          apply ha
          rw [← heq, ← heq, indep x hx _ hgt, indep x hx _ hgt]

/-- **L-CANON**: in a well-formed node table two references that denote the same
Boolean function are the same reference. -/
theorem canon (wf : WF H) (hs : SEM H sem) (x y : ℤ) (hx : IsRef H x) (hy : IsRef H y)
    (heq : ∀ a, semr sem a x = semr sem a y) : x = y :=
  canon_aux wf hs (max (H.nvars - lv H x) (H.nvars - lv H y)) x y hx hy
    (le_max_left _ _) (le_max_right _ _) heq


/-! ### L-UNIQ: the ghost map is evaluation by walking the diagram -/

/-- Walk from a reference under an assignment, flipping at complemented edges
(this is the algorithm of the independent oracle of the bounded layer). -/
def walk (H : Heap) (a : Asg) : ℕ → ℤ → Bool
  | 0, x => decide (0 < x)
  | n+1, x =>
    if x.natAbs = 1 then decide (0 < x)
    else
      let r := walk H a n (if a (H.lvl x.natAbs) then H.hi x.natAbs else H.lo x.natAbs)
      if 0 < x then r else !r

theorem walk_spec (wf : WF H) (hs : SEM H sem) (a : Asg) :
    ∀ n (x : ℤ), IsRef H x → H.nvars - lv H x ≤ n → walk H a n x = semr sem a x := by
  intro n
  induction n with
  | zero =>
    intro x hx hd
    have tx := terminal_of_lv wf x hx (by omega)
    unfold walk semr
    rw [tx, hs.term]
    by_cases px : 0 < x <;> simp [px]
  | succ n ih =>
    intro x hx hd
    by_cases tx : x.natAbs = 1
    · unfold walk semr
      rw [if_pos tx, tx, hs.term]
      by_cases px : 0 < x <;> simp [px]
    · have hlo : IsRef H (H.lo x.natAbs) := ⟨wf.lo_ne _ hx.2 tx, wf.lo_dom _ hx.2 tx⟩
      have hhi : IsRef H (H.hi x.natAbs) :=
        ⟨by have := wf.hi_pos _ hx.2 tx; omega, wf.hi_dom _ hx.2 tx⟩
      have olo := wf.ord_lo _ hx.2 tx
      have ohi := wf.ord_hi _ hx.2 tx
      have e : walk H a (n+1) x =
          (if 0 < x then walk H a n (if a (H.lvl x.natAbs) then H.hi x.natAbs else H.lo x.natAbs)
            else !(walk H a n (if a (H.lvl x.natAbs) then H.hi x.natAbs else H.lo x.natAbs))) := by
        conv_lhs => unfold walk
        rw [if_neg tx]
      rw [e]
      have node := hs.node a x.natAbs hx.2 tx
      unfold lv at hd
      by_cases ha : a (H.lvl x.natAbs)
      · rw [if_pos ha] at node ⊢
        rw [ih _ hhi (by unfold lv; omega)]
        unfold semr at node ⊢
        by_cases px : 0 < x <;> simp only [px, if_true, if_false] <;> rw [node]
      · rw [if_neg ha] at node ⊢
        rw [ih _ hlo (by unfold lv; omega)]
        unfold semr at node ⊢
        by_cases px : 0 < x <;> simp only [px, if_true, if_false] <;> rw [node]

/-- **L-UNIQ**: any two ghost maps satisfying W9 agree on every reference. -/
theorem sem_unique (wf : WF H) {s1 s2 : Asg → ℕ → Bool} (h1 : SEM H s1) (h2 : SEM H s2)
    (a : Asg) (x : ℤ) (hx : IsRef H x) : semr s1 a x = semr s2 a x := by
  rw [← walk_spec wf h1 a _ x hx le_rfl, ← walk_spec wf h2 a _ x hx le_rfl]


/-! ### L-QUANT: the ghost maps `qex`/`qfa` are the existential / universal closures -/

/-- `b` may differ from `a` only on quantified levels -/
def Same (Q : ℕ → Bool) (a b : Asg) : Prop := ∀ l, Q l = false → b l = a l

def QEx (qex qfa : Asg → ℕ → Bool) (a : Asg) (x : ℤ) : Bool :=
  if 0 < x then qex a x.natAbs else !(qfa a x.natAbs)
def QFa (qex qfa : Asg → ℕ → Bool) (a : Asg) (x : ℤ) : Bool :=
  if 0 < x then qfa a x.natAbs else !(qex a x.natAbs)

/-- defining equations of the family `QE(Q, ·)` of DESIGN.md 2.5 -/
structure QE (H : Heap) (Q : ℕ → Bool) (qex qfa : Asg → ℕ → Bool) : Prop where
  term_ex : ∀ a, qex a 1 = true
  term_fa : ∀ a, qfa a 1 = true
  node_ex : ∀ a u, H.dom u → u ≠ 1 → qex a u =
    if Q (H.lvl u) then (QEx qex qfa a (H.lo u) || QEx qex qfa a (H.hi u))
    else if a (H.lvl u) then QEx qex qfa a (H.hi u) else QEx qex qfa a (H.lo u)
  node_fa : ∀ a u, H.dom u → u ≠ 1 → qfa a u =
    if Q (H.lvl u) then (QFa qex qfa a (H.lo u) && QFa qex qfa a (H.hi u))
    else if a (H.lvl u) then QFa qex qfa a (H.hi u) else QFa qex qfa a (H.lo u)

theorem same_upd {Q : ℕ → Bool} {a b : Asg} (h : Same Q a b) (k : ℕ) (hk : Q k = true) (v : Bool) :
    Same Q a (upd b k v) := by
  intro l hl
  unfold upd
  have : l ≠ k := by intro e; rw [e, hk] at hl; exact Bool.noConfusion hl
  simp [this, h l hl]

theorem quant_node (wf : WF H) (hs : SEM H sem) {Q : ℕ → Bool}
    {qex qfa : Asg → ℕ → Bool} (hq : QE H Q qex qfa) :
    ∀ d u, H.dom u → H.nvars - H.lvl u ≤ d → ∀ a,
      (qex a u = true ↔ ∃ b, Same Q a b ∧ sem b u = true) ∧
      (qfa a u = true ↔ ∀ b, Same Q a b → sem b u = true) := by
  intro d
  induction d with
  | zero =>
    intro u hu hd a
    have h1 : u = 1 := by
      by_contra h1; have := wf.lvl_lt u hu h1; omega
    subst h1
    refine ⟨⟨fun _ => ⟨a, fun _ _ => rfl, hs.term a⟩, fun _ => hq.term_ex a⟩,
            ⟨fun _ b _ => hs.term b, fun _ => hq.term_fa a⟩⟩
  | succ d ih =>
    intro u hu hd a
    by_cases h1 : u = 1
    · subst h1
      refine ⟨⟨fun _ => ⟨a, fun _ _ => rfl, hs.term a⟩, fun _ => hq.term_ex a⟩,
              ⟨fun _ b _ => hs.term b, fun _ => hq.term_fa a⟩⟩
    · -- facts about the children, lifted to signed references
      have olo := wf.ord_lo u hu h1
      have ohi := wf.ord_hi u hu h1
      have rlo : IsRef H (H.lo u) := ⟨wf.lo_ne u hu h1, wf.lo_dom u hu h1⟩
      have rhi : IsRef H (H.hi u) := ⟨by have := wf.hi_pos u hu h1; omega, wf.hi_dom u hu h1⟩
      have child : ∀ (z : ℤ), IsRef H z → H.lvl u < lv H z → ∀ a,
          (QEx qex qfa a z = true ↔ ∃ b, Same Q a b ∧ semr sem b z = true) ∧
          (QFa qex qfa a z = true ↔ ∀ b, Same Q a b → semr sem b z = true) := by
        intro z hz hl a
        have := ih z.natAbs hz.2 (by unfold lv at hl; omega) a
        obtain ⟨e1, e2⟩ := this
        unfold QEx QFa semr
        by_cases pz : 0 < z
        · simp only [pz, if_true]; exact ⟨e1, e2⟩
        · simp only [pz, if_false]
          constructor
          · rw [Bool.not_eq_true', ← Bool.not_eq_true, e2]
            push Not
            constructor
            · rintro ⟨b, hb, hb'⟩; exact ⟨b, hb, by simpa using hb'⟩
            · rintro ⟨b, hb, hb'⟩; exact ⟨b, hb, by simpa using hb'⟩
          · rw [Bool.not_eq_true', ← Bool.not_eq_true, e1]
            push Not
            constructor
            · intro h b hb; simpa using h b hb
            · intro h b hb; simpa using h b hb
      have indep : ∀ (z : ℤ), IsRef H z → H.lvl u < lv H z → ∀ b v,
          semr sem (upd b (H.lvl u) v) z = semr sem b z := by
        intro z hz hl b v
        apply agree_ref wf hs z hz
        intro l hl'
        unfold upd
        have : l ≠ H.lvl u := by omega
        simp [this]
      have nodeb : ∀ b, sem b u =
          if b (H.lvl u) then semr sem b (H.hi u) else semr sem b (H.lo u) :=
        fun b => hs.node b u hu h1
      obtain ⟨clo_ex, clo_fa⟩ := child _ rlo olo a
      obtain ⟨chi_ex, chi_fa⟩ := child _ rhi ohi a
      by_cases hQ : Q (H.lvl u) = true
      · -- quantified level
        constructor
        · rw [hq.node_ex a u hu h1, if_pos hQ, Bool.or_eq_true, clo_ex, chi_ex]
          constructor
          · rintro (⟨b, hb, hv⟩ | ⟨b, hb, hv⟩)
            · refine ⟨upd b (H.lvl u) false, same_upd hb _ hQ _, ?_⟩
              rw [nodeb]; simp only [upd, if_true, Bool.false_eq_true, if_false]
              rw [indep _ rlo olo]; exact hv
            · refine ⟨upd b (H.lvl u) true, same_upd hb _ hQ _, ?_⟩
              rw [nodeb]; simp only [upd, if_true]
              rw [indep _ rhi ohi]; exact hv
          · rintro ⟨b, hb, hv⟩
            rw [nodeb] at hv
            by_cases hbi : b (H.lvl u) = true
            · rw [if_pos hbi] at hv; exact Or.inr ⟨b, hb, hv⟩
            · rw [if_neg hbi] at hv; exact Or.inl ⟨b, hb, hv⟩
        · rw [hq.node_fa a u hu h1, if_pos hQ, Bool.and_eq_true, clo_fa, chi_fa]
          constructor
          · rintro ⟨hl, hh⟩ b hb
            rw [nodeb]
            by_cases hbi : b (H.lvl u) = true
            · rw [if_pos hbi]; exact hh b hb
            · rw [if_neg hbi]; exact hl b hb
          · intro h
            constructor
            · intro b hb
              have := h (upd b (H.lvl u) false) (same_upd hb _ hQ _)
              rw [nodeb] at this
              simp only [upd, if_true, Bool.false_eq_true, if_false] at this
              rw [indep _ rlo olo] at this; exact this
            · intro b hb
              have := h (upd b (H.lvl u) true) (same_upd hb _ hQ _)
              rw [nodeb] at this
              simp only [upd, if_true] at this
              rw [indep _ rhi ohi] at this; exact this
      · -- free level: every admissible b agrees with a there
        have hQf : Q (H.lvl u) = false := by simpa using hQ
        constructor
        · rw [hq.node_ex a u hu h1, if_neg hQ]
          by_cases hai : a (H.lvl u) = true
          · rw [if_pos hai, chi_ex]
            constructor
            · rintro ⟨b, hb, hv⟩
              refine ⟨b, hb, ?_⟩; rw [nodeb, hb _ hQf, if_pos hai]; exact hv
            · rintro ⟨b, hb, hv⟩
              rw [nodeb, hb _ hQf, if_pos hai] at hv; exact ⟨b, hb, hv⟩
          · rw [if_neg hai, clo_ex]
            constructor
            · rintro ⟨b, hb, hv⟩
              refine ⟨b, hb, ?_⟩; rw [nodeb, hb _ hQf, if_neg hai]; exact hv
            · rintro ⟨b, hb, hv⟩
              rw [nodeb, hb _ hQf, if_neg hai] at hv; exact ⟨b, hb, hv⟩
        · rw [hq.node_fa a u hu h1, if_neg hQ]
          by_cases hai : a (H.lvl u) = true
          · rw [if_pos hai, chi_fa]
            constructor
            · intro h b hb; rw [nodeb, hb _ hQf, if_pos hai]; exact h b hb
            · intro h b hb; have := h b hb; rw [nodeb, hb _ hQf, if_pos hai] at this; exact this
          · rw [if_neg hai, clo_fa]
            constructor
            · intro h b hb; rw [nodeb, hb _ hQf, if_neg hai]; exact h b hb
            · intro h b hb; have := h b hb; rw [nodeb, hb _ hQf, if_neg hai] at this; exact this

/-- **L-QUANT** for signed references. -/
theorem quant_ref (wf : WF H) (hs : SEM H sem) {Q : ℕ → Bool}
    {qex qfa : Asg → ℕ → Bool} (hq : QE H Q qex qfa) (x : ℤ) (hx : IsRef H x) (a : Asg) :
    (QEx qex qfa a x = true ↔ ∃ b, Same Q a b ∧ semr sem b x = true) ∧
    (QFa qex qfa a x = true ↔ ∀ b, Same Q a b → semr sem b x = true) := by
  obtain ⟨e1, e2⟩ := quant_node wf hs hq _ x.natAbs hx.2 le_rfl a
  unfold QEx QFa semr
  by_cases pz : 0 < x
  · simp only [pz, if_true]; exact ⟨e1, e2⟩
  · simp only [pz, if_false]
    constructor
    · rw [Bool.not_eq_true', ← Bool.not_eq_true, e2]
      push Not
      constructor
      · rintro ⟨b, hb, hb'⟩; exact ⟨b, hb, by simpa using hb'⟩
      · rintro ⟨b, hb, hb'⟩; exact ⟨b, hb, by simpa using hb'⟩
    · rw [Bool.not_eq_true', ← Bool.not_eq_true, e1]
      push Not
      constructor
      · intro h b hb; simpa using h b hb
      · intro h b hb; simpa using h b hb


/-! ### L-ESS: a variable labels a reachable node iff the function depends on it -/

theorem upd_comm (a : Asg) (i j : ℕ) (h : i ≠ j) (v w : Bool) :
    upd (upd a i v) j w = upd (upd a j w) i v := by
  funext l
  simp only [upd]
  split_ifs <;> first | rfl | omega

theorem indep_above (wf : WF H) (hs : SEM H sem) (z : ℤ) (hz : IsRef H z) (k : ℕ)
    (hk : k < lv H z) (a : Asg) (v : Bool) : semr sem (upd a k v) z = semr sem a z := by
  apply agree_ref wf hs z hz
  intro l hl
  unfold upd
  have : l ≠ k := by omega
  simp [this]

/-- a non-terminal reference depends on the variable at its own level -/
theorem depends_own (wf : WF H) (hs : SEM H sem) (z : ℤ) (hz : IsRef H z) (hnt : z.natAbs ≠ 1) :
    ∃ a, semr sem (upd a (lv H z) false) z ≠ semr sem (upd a (lv H z) true) z := by
  obtain ⟨r0, l0⟩ := cof0_ref wf z hz hnt
  obtain ⟨r1, l1⟩ := cof1_ref wf z hz hnt
  have hne := cof_ne wf z hz hnt
  have : ¬ (∀ a, semr sem a (cof0 H z) = semr sem a (cof1 H z)) :=
    fun hall => hne (canon wf hs _ _ r0 r1 hall)
  push Not at this
  obtain ⟨a, ha⟩ := this
  refine ⟨a, ?_⟩
  rw [shannon wf hs z hz hnt, shannon wf hs z hz hnt]
  simp only [upd, if_true]
  simp only [Bool.false_eq_true, if_false]
  rw [indep_above wf hs _ r0 _ l0, indep_above wf hs _ r1 _ l1]
  exact ha

/-- family `HASLVL(L)` of DESIGN.md 2.5 -/
structure HASLVL (H : Heap) (L : ℕ) (hl : ℕ → Bool) : Prop where
  term : hl 1 = false
  node : ∀ u, H.dom u → u ≠ 1 →
    hl u = (decide (H.lvl u = L) || hl (H.lo u).natAbs || hl (H.hi u).natAbs)

def DependsOn (sem : Asg → ℕ → Bool) (L : ℕ) (u : ℕ) : Prop :=
  ∃ a, sem (upd a L false) u ≠ sem (upd a L true) u

theorem semr_dep_iff (z : ℤ) (a b : Asg) :
    semr sem a z ≠ semr sem b z ↔ sem a z.natAbs ≠ sem b z.natAbs := by
  unfold semr
  by_cases pz : 0 < z <;> simp [pz]

theorem ess (wf : WF H) (hs : SEM H sem) {L : ℕ} {hl : ℕ → Bool} (hh : HASLVL H L hl) :
    ∀ d u, H.dom u → H.nvars - H.lvl u ≤ d → (hl u = true ↔ DependsOn sem L u) := by
  intro d
  induction d with
  | zero =>
    intro u hu hd
    have h1 : u = 1 := by
      by_contra h1; have := wf.lvl_lt u hu h1; omega
    subst h1
    rw [hh.term]
    constructor
    · intro h; exact Bool.noConfusion h
    · rintro ⟨a, ha⟩; rw [hs.term, hs.term] at ha; exact absurd rfl ha
  | succ d ih =>
    intro u hu hd
    by_cases h1 : u = 1
    · subst h1
      rw [hh.term]
      constructor
      · intro h; exact Bool.noConfusion h
      · rintro ⟨a, ha⟩; rw [hs.term, hs.term] at ha; exact absurd rfl ha
    · have olo := wf.ord_lo u hu h1
      have ohi := wf.ord_hi u hu h1
      have rlo : IsRef H (H.lo u) := ⟨wf.lo_ne u hu h1, wf.lo_dom u hu h1⟩
      have rhi : IsRef H (H.hi u) := ⟨by have := wf.hi_pos u hu h1; omega, wf.hi_dom u hu h1⟩
      have ilo := ih _ rlo.2 (by omega)
      have ihi := ih _ rhi.2 (by omega)
      have upos : IsRef H (u : ℤ) := ⟨by have := wf.pos u hu; omega, by simpa using hu⟩
      rcases lt_trichotomy (H.lvl u) L with hlt | heq | hgt
      · -- the variable is below this node: look at the children
        have hne : H.lvl u ≠ L := by omega
        rw [hh.node u hu h1]
        simp only [hne, decide_false, Bool.false_or, Bool.or_eq_true]
        rw [ilo, ihi]
        have nodeb : ∀ b, sem b u =
            if b (H.lvl u) then semr sem b (H.hi u) else semr sem b (H.lo u) :=
          fun b => hs.node b u hu h1
        constructor
        · rintro (⟨a, ha⟩ | ⟨a, ha⟩)
          · refine ⟨upd a (H.lvl u) false, ?_⟩
            rw [upd_comm _ _ _ hne, upd_comm _ _ _ hne, nodeb, nodeb]
            simp only [upd, if_true, Bool.false_eq_true, if_false]
            have e1 := indep_above wf hs _ rlo _ olo (upd a L false) false
            have e2 := indep_above wf hs _ rlo _ olo (upd a L true) false
            rw [e1, e2]
            exact (semr_dep_iff _ _ _).mpr ha
          · refine ⟨upd a (H.lvl u) true, ?_⟩
            rw [upd_comm _ _ _ hne, upd_comm _ _ _ hne, nodeb, nodeb]
            simp only [upd, if_true]
            have e1 := indep_above wf hs _ rhi _ ohi (upd a L false) true
            have e2 := indep_above wf hs _ rhi _ ohi (upd a L true) true
            rw [e1, e2]
            exact (semr_dep_iff _ _ _).mpr ha
        · rintro ⟨a, ha⟩
          rw [nodeb, nodeb] at ha
          have e : ∀ v, upd a L v (H.lvl u) = a (H.lvl u) := by
            intro v; unfold upd; simp [hne]
          rw [e, e] at ha
          by_cases hai : a (H.lvl u) = true
          · rw [if_pos hai, if_pos hai] at ha
            exact Or.inr ⟨a, (semr_dep_iff _ _ _).mp ha⟩
          · rw [if_neg hai, if_neg hai] at ha
            exact Or.inl ⟨a, (semr_dep_iff _ _ _).mp ha⟩
      · -- the node is labelled with the variable
        have hl_true : hl u = true := by
          rw [hh.node u hu h1]; simp [heq]
        rw [hl_true]
        constructor
        · intro _
          obtain ⟨a, ha⟩ := depends_own wf hs (u : ℤ) upos (by simpa using h1)
          have e : lv H (u : ℤ) = L := by unfold lv; simpa using heq
          rw [e] at ha
          exact ⟨a, by simpa using (semr_dep_iff _ _ _).mp ha⟩
        · intro _; rfl
      · -- the variable is above this node
        have hl_false : ∀ d' v, H.dom v → H.nvars - H.lvl v ≤ d' → L < H.lvl v → hl v = false := by
          intro d'
          induction d' with
          | zero =>
            intro v hv hd' _
            have : v = 1 := by by_contra hv1; have := wf.lvl_lt v hv hv1; omega
            subst this; exact hh.term
          | succ d' ih' =>
            intro v hv hd' hLv
            by_cases hv1 : v = 1
            · subst hv1; exact hh.term
            · have o1 := wf.ord_lo v hv hv1
              have o2 := wf.ord_hi v hv hv1
              have hne : H.lvl v ≠ L := by omega
              rw [hh.node v hv hv1, ih' _ (wf.lo_dom v hv hv1) (by omega) (by omega),
                ih' _ (wf.hi_dom v hv hv1) (by omega) (by omega)]
              simp [hne]
        rw [hl_false _ u hu le_rfl hgt]
        constructor
        · intro h; exact Bool.noConfusion h
        · rintro ⟨a, ha⟩
          exfalso; apply ha
          have e1 := agree_node wf hs _ u hu le_rfl (upd a L false) (upd a L true)
            (by intro l hl'; unfold upd; have : l ≠ L := by omega
                simp [this])
          exact e1


/-! ### L-REACH: what the postcondition of `collect_garbage` means -/

/-- `Reach H h u`: node `u` is reachable from node `h` along stored edges -/
inductive Reach (H : Heap) : ℕ → ℕ → Prop
  | refl (u : ℕ) : Reach H u u
  | lo {h v : ℕ} : Reach H h v → H.dom v → v ≠ 1 → Reach H h (H.lo v).natAbs
  | hi {h v : ℕ} : Reach H h v → H.dom v → v ≠ 1 → Reach H h (H.hi v).natAbs

/-- Safety: if the survivors keep their children, the surviving table is closed
under children (`WF`), and held nodes survive, then every node reachable from a
held node survives ("never deleted while reachable from a referenced node"). -/
theorem gc_safe {H H' : Heap} (wf' : WF H')
    (same : ∀ u, H'.dom u → u ≠ 1 → H'.lo u = H.lo u ∧ H'.hi u = H.hi u)
    (h : ℕ) (hsurv : H'.dom h) :
    ∀ u, Reach H h u → H'.dom u := by
  intro u hr
  induction hr with
  | refl => exact hsurv
  | lo _ _ hv1 ih =>
    have := wf'.lo_dom _ ih hv1
    rw [(same _ ih hv1).1] at this; exact this
  | hi _ _ hv1 ih =>
    have := wf'.hi_dom _ ih hv1
    rw [(same _ ih hv1).2] at this; exact this

/-- Exactness: if after the collection every non-terminal survivor has a positive
count, counts are in-degree plus external references, and a positive in-degree
means a stored parent, then every survivor is reachable from a held node. -/
theorem gc_exact {H' : Heap} (wf' : WF H') (ref ext indeg : ℕ → ℕ)
    (rc : ∀ u, H'.dom u → ref u = indeg u + ext u)
    (live : ∀ u, H'.dom u → u ≠ 1 → 0 < ref u)
    (par : ∀ u, H'.dom u → 0 < indeg u →
      ∃ p, H'.dom p ∧ p ≠ 1 ∧ ((H'.lo p).natAbs = u ∨ (H'.hi p).natAbs = u)) :
    ∀ n u, H'.dom u → u ≠ 1 → H'.lvl u ≤ n →
      ∃ h, H'.dom h ∧ 0 < ext h ∧ Reach H' h u := by
  intro n
  induction n with
  | zero =>
    intro u hu hu1 hl
    by_cases he : 0 < ext u
    · exact ⟨u, hu, he, Reach.refl u⟩
    · have h1 := rc u hu
      have h2 := live u hu hu1
      obtain ⟨p, hp, hp1, hc⟩ := par u hu (by omega)
      exfalso
      rcases hc with hc | hc
      · have := wf'.ord_lo p hp hp1; rw [hc] at this; omega
      · have := wf'.ord_hi p hp hp1; rw [hc] at this; omega
  | succ n ih =>
    intro u hu hu1 hl
    by_cases he : 0 < ext u
    · exact ⟨u, hu, he, Reach.refl u⟩
    · have h1 := rc u hu
      have h2 := live u hu hu1
      obtain ⟨p, hp, hp1, hc⟩ := par u hu (by omega)
      rcases hc with hc | hc
      · have hlt := wf'.ord_lo p hp hp1; rw [hc] at hlt
        obtain ⟨h, hh, hext, hr⟩ := ih p hp hp1 (by omega)
        exact ⟨h, hh, hext, hc ▸ Reach.lo hr hp hp1⟩
      · have hlt := wf'.ord_hi p hp hp1; rw [hc] at hlt
        obtain ⟨h, hh, hext, hr⟩ := ih p hp hp1 (by omega)
        exact ⟨h, hh, hext, hc ▸ Reach.hi hr hp hp1⟩

end Bdd
