"""Common driver: runs the proof layer and the bounded stand-in for one property, applies the
known-findings file, writes evidence/<id>.json and replay files, prints VIOLATION / KNOWN-FINDING lines.

Exit codes: 0 held on everything explored; 1 violation (with a VIOLATION line); 3 checker fault.
"""
import concurrent.futures as cf
import hashlib
import importlib
import json
import os
import re
import sys
import time
import traceback

ROOT = os.path.dirname(os.path.dirname(os.path.abspath(__file__)))
REPO = os.environ.get('VERIF_REPO', '/repo')
os.environ.setdefault('VERIF_REPO', REPO)
NPROC = int(os.environ.get('VERIF_NPROC', '16'))


class Result:
    """Accumulated by a worker over a chunk of cases."""

    def __init__(self):
        self.evals = 0
        self.keys = set()          # distinct non-trivial case keys
        self.fails = []            # dicts: site, detail, fn, case
        self.nfails = 0
        self.crashes = []
        self.samples = []
        self.counters = {}

    def count(self, name, k=1):
        self.counters[name] = self.counters.get(name, 0) + k

    def as_dict(self):
        return dict(evals=self.evals, keys=list(self.keys), fails=self.fails, nfails=self.nfails,
                    crashes=self.crashes, samples=self.samples, counters=self.counters)


def _in_repo(tb):
    """True if the innermost frame of the traceback is repository code (or a library called from it)."""
    frames = traceback.extract_tb(tb)
    repo_dd = os.path.join(REPO, 'dd') + os.sep
    last_ours = None
    for k, fr in enumerate(frames):
        if fr.filename.startswith(ROOT + os.sep):
            last_ours = k
    # frames after our last frame: first of them inside the repository => the failure is the repository's
    after = frames[(last_ours + 1 if last_ours is not None else 0):]
    return bool(after) and after[0].filename.startswith(repo_dd)


def run_cases(modname, fn_name, cases, res=None):
    """Run `fn(case)` for each case; a `Viol` or an exception escaping repository code is a failure."""
    from vlib.rtc.lib import Viol
    mod = importlib.import_module(modname)
    fn = getattr(mod, fn_name)
    res = res or Result()
    for c in cases:
        res.evals += 1
        try:
            key = fn(c, res)
            if key is not None:
                if isinstance(key, (list, set, tuple)) and not isinstance(key, tuple):
                    res.keys.update(key)
                else:
                    res.keys.add(key)
            if len(res.samples) < 2:
                res.samples.append({'fn': fn_name, 'case': c})
        except Viol as e:
            res.nfails += 1
            if sum(1 for f in res.fails if f['site'] == e.site) < 2:
                res.fails.append(dict(site=e.site, detail=str(e.detail)[:2000], fn=fn_name, case=c, mod=modname))
        except Exception as e:  # noqa
            tb = sys.exc_info()[2]
            txt = traceback.format_exc()
            if _in_repo(tb):
                fr = traceback.extract_tb(tb)[-1]
                site = f'exception:{type(e).__name__}@{os.path.basename(fr.filename)}:{fr.name}'
                res.nfails += 1
                if sum(1 for f in res.fails if f['site'] == site) < 2:
                    res.fails.append(dict(site=site, detail=txt[-2000:], fn=fn_name, case=c, mod=modname))
            else:
                res.crashes.append(dict(fn=fn_name, case=c, tb=txt[-3000:]))
                if len(res.crashes) > 3:
                    break
    return res


def _work(args):
    modname, fn_name, cases, env = args
    os.environ.update(env)
    import logging
    import warnings
    logging.disable(logging.CRITICAL)
    warnings.simplefilter('ignore')
    sys.unraisablehook = lambda *a: None
    return run_cases(modname, fn_name, cases).as_dict()


def run_bounded(modname, tier, seed):
    """Run all chunks of a driver module in a process pool. Returns merged dict."""
    mod = importlib.import_module(modname)
    chunks = list(mod.chunks(tier, seed))
    merged = dict(evals=0, keys=set(), fails=[], nfails=0, crashes=[], samples=[], counters={})
    env = {'VERIF_REPO': REPO, 'VERIF_SEED': str(seed), 'VERIF_TIER': tier}
    jobs = [(modname, fn, cases, env) for fn, cases in chunks]
    t0 = time.time()
    with cf.ProcessPoolExecutor(max_workers=NPROC) as ex:
        for r in ex.map(_work, jobs):
            merged['evals'] += r['evals']
            merged['keys'].update(map(_hashable, r['keys']))
            merged['nfails'] += r['nfails']
            for f in r['fails']:
                if sum(1 for g in merged['fails'] if g['site'] == f['site']) < 3:
                    merged['fails'].append(f)
            merged['crashes'].extend(r['crashes'])
            if len(merged['samples']) < 6:
                merged['samples'].extend(r['samples'][:1])
            for k, v in r['counters'].items():
                merged['counters'][k] = merged['counters'].get(k, 0) + v
    merged['wall_s'] = time.time() - t0
    merged['rule'] = getattr(mod, 'RULE', '')
    merged['bounds'] = mod.bounds(tier) if hasattr(mod, 'bounds') else {}
    merged['exhaustive'] = bool(getattr(mod, 'EXHAUSTIVE', {}).get(tier, False))
    # vacuity counters (DESIGN 4.4c): every counter a driver declares as required must be positive
    for name in getattr(mod, 'REQUIRED_COUNTERS', []):
        if merged['counters'].get(name, 0) <= 0:
            merged['crashes'].append(dict(fn='vacuity', case=name,
                                          tb=f'required counter {name!r} never incremented: the contract was never exercised'))
    return merged


def _hashable(k):
    if isinstance(k, list):
        return tuple(_hashable(x) for x in k)
    return k


def load_known():
    p = os.path.join(ROOT, 'known_findings.json')
    if not os.path.exists(p):
        return []
    return [e for e in json.load(open(p))['entries'] if 'site' in e]


def match_known(pid, site, known):
    for e in known:
        if e.get('property') == pid and re.fullmatch(e['site'], site):
            return e
    return None


def slug(s):
    s2 = re.sub(r'[^A-Za-z0-9_.@-]+', '_', s)[:80]
    return s2 + '-' + hashlib.sha1(s.encode()).hexdigest()[:8]


def replay_root():
    ev = os.environ.get('VERIF_EVIDENCE_DIR')
    return os.path.join(ev, 'replays') if ev else os.path.join(ROOT, 'replays')


def write_replay(pid, fail):
    d = os.path.join(replay_root(), pid)
    os.makedirs(d, exist_ok=True)
    p = os.path.join(d, slug(fail['site']) + '.json')
    rec = dict(property=pid, **fail)
    rec['how_to_replay'] = f'bin/replay {os.path.relpath(p, ROOT)}'
    with open(p, 'w') as f:
        json.dump(rec, f, indent=1, default=str)
    return p


def finish(pid, tier, seed, level, coverage, assumptions, fails, crashes, t0, known_used=None):
    """Apply known findings, write evidence, print lines, return exit code.

    `fails`: list of dicts with keys site, detail, (fn, case, mod) or (obligation, solver_output), and
    optional 'no_input' = True when no failing input on real code was found."""
    known = load_known()
    viol_lines = []
    kf_lines = []
    seen_kf = set()
    seen_sites = set()
    for f in fails:
        e = match_known(pid, f['site'], known)
        if e is not None:
            key = e.get('id', e['site'])
            if key not in seen_kf:
                seen_kf.add(key)
                kf_lines.append(f"KNOWN-FINDING: property={pid} {e.get('id', '')} {e['what']}")
            continue
        if f['site'] in seen_sites:
            continue
        seen_sites.add(f['site'])
        p = write_replay(pid, f)
        tail = ' no-failing-input-found' if f.get('no_input') else ''
        viol_lines.append(f"VIOLATION property={pid} replay={p}{tail}")
    coverage = dict(coverage)
    coverage['known_findings_reproduced'] = sorted(seen_kf)
    ev = dict(property_id=pid, tier=tier, seed=seed, level=level, coverage=coverage,
              assumptions=assumptions, wall_s=round(time.time() - t0, 2), violations=len(viol_lines))
    evdir = os.environ.get('VERIF_EVIDENCE_DIR') or os.path.join(ROOT, 'evidence')
    os.makedirs(evdir, exist_ok=True)
    with open(os.path.join(evdir, pid + '.json'), 'w') as f:
        json.dump(ev, f, indent=1, default=str)
    for line in kf_lines:
        print(line)
    if crashes:
        for c in crashes[:5]:
            print(f'CHECKER-FAULT property={pid}: {json.dumps(c, default=str)[:3000]}', file=sys.stderr)
        if not viol_lines:
            return 3
    for line in viol_lines:
        print(line)
    return 1 if viol_lines else 0
