"""Per-property configuration: proof targets (vlib/vc/contracts_all.TARGETS), bounded drivers, claimed level."""

PROOF_TECH = ('contract-based deductive verification: verification conditions generated from the real Python AST of /repo '
              'against sidecar contracts (WF invariant, ghost denotation families), discharged by z3 (cvc5 / z3-CLI fall-backs)')
BOUNDED_TECH = ('run-time contracts on the real code over a stated bound, and the same sidecar contracts evaluated by z3 on real executions '
                '(cross-check, vlib/vc/concrete.py) - bounded stand-ins, never counted as proved')
COMMON_TB = ['Python semantics assumed by the encoding (DESIGN.md section 3; listed in evidence trusted_base)',
             'meaning of the ghost maps (sem = evaluation, canonicity, quantifier closure, essential variables, reachability): '
             'Lean lemmas lean/BddTheory.lean, lean/BddImage.lean (L-UNIQ, L-CANON, L-QUANT, L-ESS, L-REACH, L-IMG); correspondence Lean <-> SMT definitions by inspection']


def P(level, expl, proof=True, bounded=(), tb=(), technique=None, design_ref=''):
    return dict(level=level, explanation=expl, proof=proof, bounded=list(bounded), trusted_base=list(tb) + COMMON_TB,
                assumptions=[], technique=technique or (PROOF_TECH + '; ' + BOUNDED_TECH if proof else BOUNDED_TECH),
                design_ref=design_ref)


PROPS = {
    'C01': P('proof',
             'Every alias accepted by BDD.apply (27 spellings read from dd/_abc.py), BDD.ite/_ite, _top_cofactor and find_or_add are '
             'proved against contracts whose postcondition is the truth function named in the property, for an arbitrary assignment, '
             'an arbitrary WF manager state (= any history of WF-preserving operations) and an arbitrary variable order; obligations are '
             'regenerated from the current source on every run. Proved under "no reordering fires inside the call" (nested or requests '
             'off); behaviour when dynamic reordering fires is C09 (control proved, denotation bounded). The dd.autoref operators '
             '~ & | implies equiv == != <= < and BDD.apply/ite are proved against the same connectives (with the handle ledger), '
             'assert_operator_arity for all 27 symbols. The history quantifier over swap/undeclare/loaders is covered by the bounded '
             'stand-in (all 256^2 pairs x every connective class).',
             bounded=['vlib.rtc.c01'],
             tb=['WF preservation by swap, undeclare_vars and the loaders is assumed (bounded-checked by C02/C07/C12/C14)',
                 'reordering fired inside a top-level call: WF and result validity assumed (reorder() contract)'], design_ref='DESIGN.md 7/C01'),
    'C02': P('other',
             'Second sentence of the property (reduced, ordered, regular high edges, unique table) is the invariant WF; its preservation is '
             'proved for find_or_add, _ite, add_var/_init_terminal/declare, incref/decref, var and collect_garbage (every clause W1-W9 '
             're-established on every path), and established by the constructor BDD() (base case: only the terminal, every ghost family). "Equal references iff equal functions" is WF + lemma L-CANON (Lean). swap, undeclare_vars and the '
             'loaders rewrite tables wholesale and are decided by the bounded stand-in (five construction routes must agree for every function '
             'of <= 3 variables under every order; wf() after every step of histories). Category "other": mixed proof + bounded.',
             bounded=['vlib.rtc.c02'], tb=['swap, undeclare_vars, pickle/JSON loaders: bounded only'],
             design_ref='DESIGN.md 7/C02'),
    'C03': P('proof',
             '_quantify is proved against the ghost family QE(Q, A) (existential/universal closure maps maintained at node creation): '
             'result denotes QEx/QFa of the operand for an arbitrary assignment, quantified set, order and WF state, memo validity '
             'included; the quantifier aliases of apply are proved to delegate with the right roles (variables = support of first operand, '
             'body = second). That QEx/QFa are the OR/AND over the quantified variables and independent of them is lemma L-QUANT (Lean). '
             'The entry points quantify (body), forall and exist are proved on top of it (Q = levels of the named variables). The '
             'name->level translation _map_to_level is proved too; what apply hands over as "support of the first operand" is whatever '
             'BDD.support returns (support itself is proved under C10); sorted() is an assumed builtin. Bounded stand-in: all functions '
             'of 3 variables x all subsets x both quantifiers x orders.',
             bounded=['vlib.rtc.c03'], tb=['sorted(): assumed builtin semantics', 'apply(forall/exists): the quantified set is the set returned by BDD.support (uninterpreted SUPP)'],
             design_ref='DESIGN.md 7/C03'),
    'C04': P('proof',
             'The three substitution recursions and renaming are proved: _cofactor (A2 = A overridden by the constants), _compose '
             '(A2/A3 = A with the level set/cleared, result = ite of the replacement), _vector_compose (A2[l] = value of the replacement '
             'under the ORIGINAL assignment: simultaneity), _copy_bdd with old_bdd is bdd + rename (A2 = A after the name map, any map). '
             'Operand unchanged = frame Ext. The entry points are proved too: cofactor (body), compose (body; two contracts: exactly one '
             'variable / several at once), rename (method) and BDD.let in its three dispatch variants (dict of constants, of references, '
             'of names; empty dict returns u).',
             bounded=['vlib.rtc.c04'], tb=['sorted(): assumed builtin semantics',
                                         'comprehension idiom {level_of(x): ... for x in names} modelled through the W8 bijection',
                                         'dd.autoref.BDD.let (Function unwrapping): bounded only'],
             design_ref='DESIGN.md 7/C04'),
    'C05': P('other',
             'The parse is performed by PLY\'s generated LALR automaton from grammar docstrings and a precedence table; no contract can be '
             'attached to that automaton, so precedence/associativity are not provable with this technique. Decided by the bounded '
             'stand-in: an independent precedence-climbing reader written from doc.md evaluates every generated formula on truth tables '
             '(all operator pairs/triples, binders, comments, @n, constants, two managers with failing parses, to_expr round trips). '
             'Proved (small but mutation-relevant): each of 14 grammar actions stores in p[0] the operator application with the operands '
             'in the documented roles (binary: operator p[2] on p[1], p[3]; ite argument order; quantifier and rename binders; '
             'substitution pairs stored as (old, new); list building).',
             bounded=['vlib.rtc.c05'], tb=['PLY LALR engine and generated tables: outside any contract',
                                         'grammar actions are proved against an abstract _apply/_add_* (uninterpreted constructors); '
                                         '_Translator._apply, the lexer and the precedence table are bounded only'],
             design_ref='DESIGN.md 7/C05'),
    'C06': P('other',
             'The count invariant RC (ref = stored in-edges + external references, ghost in-degree updated by the engine at node creation) '
             'is proved for incref, decref, ref and find_or_add on every path, and collect_garbage is proved for both forms (full and '
             'rooted) with a loop invariant over the abstract work set: only nodes with count 0 are removed, survivors keep shape, '
             'denotation and external count, every node with an external reference survives, after a full collection no unreferenced '
             'node is left, the computed table is emptied (nothing remembered for a re-usable number), WF re-established. The two '
             'definitional facts about the ghost in-degree used at node deletion are modelling axioms (trusted base). "Exactly the '
             'reachable remain" = this + lemma L-REACH (Lean). swap is outside the generator: bounded stand-in (exact ledger, wf(), '
             'computed-table validity, denotations after every step of random and enumerated histories).',
             bounded=['vlib.rtc.c06'], tb=['swap: bounded only', 'BDD.__del__ (generator expression): bounded only'], design_ref='DESIGN.md 7/C06'),
    'C07': P('other',
             'BDD.swap rewrites two levels in place through temporarily inconsistent tables (seven loops over dict views, the unique '
             'table and the counts are wrong in between): its body is outside the VC generator, and so is sifting, whose assertions '
             'rest on sizes being reproducible. Proved against the ASSUMED order effect of swap (the two levels exchange their variables, '
             'nothing else moves): _sort_to_order leaves the levels sorted by the requested positions (bubble sort: two nested loop '
             'invariants; with the positions a permutation of 0..n-1 sorted means equal - pigeonhole, not derived), reorder(bdd, order) '
             'delegates to it, _shift moves one variable and shifts the ones in between by one, reorder_to_pairs makes every requested '
             'pair adjacent when the names in the pairs are distinct; the helpers _low_high / _swap_cofactor return what the node table '
             'stores; the argument validation of swap (prefix contract). What swap and reorder do to the functions (every externally '
             'referenced node survives with its number, count and function of the variables; WF afterwards; sifting does not grow the table) '
             'is stated as observed contracts in the language of the model and evaluated by z3 on real executions '
             '(vlib/vc/contracts_reorder.py, cross-check), and decided by run-time contracts: every function of 3 variables and sampled '
             'sets over 4-6 variables under every adjacent swap, sifting, reorder-to-order, reorder_to_pairs, reordering off and on, '
             '8 hash seeds (thorough).',
             bounded=['vlib.rtc.c07'], tb=['swap body (order effect ASSUMED for the callers above; denotations bounded / observed)',
                                           '_apply_sifting, _reorder_var: bounded only'],
             design_ref='DESIGN.md 7/C07'),
    'C08': P('other',
             'Proved (per-operation ledger over the ghost external count of the wrapped manager): Function.__init__ takes exactly one '
             'external reference (none when it raises), __del__ gives back exactly one and is idempotent, and every handle-returning '
             'operation under contract (_wrap, _add_int, true/false, var, ite, apply per symbol, quantify/forall/exist, find_or_add, succ, low/high, '
             'Function._apply and the operators ~ & | implies equiv; the incref/decref/add_var/collect_garbage wrappers) changes the external counts by exactly +1 per returned handle on '
             'top of the wrapped manager\'s own contract, with the state unchanged on exceptional exits; together with the RC invariant '
             '(C06) this is "count = in-edges + live handles". Preconditions: handles passed in are live handles (kind invariant). '
             'ASSUMED: CPython runs __del__ exactly once when the last reference to a handle disappears (temporaries net 0). Whole '
             'histories (drops in any order, collections, reorderings, final all-dropped check with BDD.__del__) are decided by the '
             'bounded stand-in.',
             bounded=['vlib.rtc.c08'], tb=['CPython finaliser semantics', 'autoref let/cube/add_expr/copy/load/dump, image/preimage wrappers: bounded only; __le__/__lt__: result proved, their temporaries bounded'],
             design_ref='DESIGN.md 7/C08'),
    'C09': P('other',
             'Proved: _request_reordering raises the signal only when requests are enabled, state unchanged; _ReorderingContext '
             '__init__/__enter__/__exit__ (flag saved and restored on every exit, the signal swallowed only at nesting depth 0); the '
             'decorator _try_to_reorder._wrapper against an abstract decorated function (uninterpreted pre/postcondition): the signal '
             'reaches the caller only when nested, the nesting flag is restored, reordering is enabled afterwards iff it was before, a '
             'call in which nothing fires returns exactly the function\'s result; _suspend_reordering._wrapper restores the setting on '
             'every exit; every contract under C01-C04/C11 carries a raises-clause for the signal (WF and Ext kept on that exit). The '
             'denotation after a reordering that fires uses the ASSUMED contract of reorder() (C07, bounded). Decided by the bounded stand-in: the request is '
             'fired at every k-th node creation of every public operation (dd.bdd with referenced operands, dd.autoref) and compared '
             'with the truth-table oracle.',
             bounded=['vlib.rtc.c09'], tb=['reorder()/swap contract assumed (C07 bounded)'], design_ref='DESIGN.md 7/C09'),
    'C10': P('other',
             'First sentence proved: support / _support (dd.bdd and through dd.autoref) and is_essential against ghost family HASLVL (a node '
             'at the variable\'s level is reachable; = "depends on" by lemma L-ESS): for an arbitrary level, it is in the result iff '
             'reachable; visited-set pruning and the early exit when every level is present, the latter with an ASSUMED pigeonhole fact '
             'about set cardinality. The counting recursion _sat_len is proved against a ghost count CNTF defined by its recursion over the '
             'diagram for the given level compression (memo validity, complement handling, non-negative exponents; that CNTF is the number of '
             'models is the textbook argument, ASSUMED - the driver compares count with truth tables). The wrapper count (rank of the support '
             'levels) and the generator pipeline '
             '(pick_iter/_sat_iter, _enumerate_minterms) are outside the generator: pick_iter and pick are stated as observed contracts in '
             'the language of the model (each assignment satisfies u however completed, mentions every care variable, no overlap, the '
             'models are covered; None only for false) and evaluated by z3 on real executions under every assignment; count, pick, '
             'pick_iter by run-time contracts: all functions of 3 variables with 0-2 unused variables, all orders, managers of 10-14 '
             'variables, with collections between the queries. Category "other": mixed proof + bounded.',
             bounded=['vlib.rtc.c10'], tb=['count (wrapper), pick_iter/_sat_iter, _enumerate_minterms: bounded / observed only', 'CNTF recursion = number of models: assumed'],
             design_ref='DESIGN.md 7/C10'),
    'C11': P('proof',
             'dd.bdd._copy_bdd with two distinct managers, copy_bdd and BDD.copy are proved: result in the target denotes the source function '
             'by variable name (A2 = A after the level map built from names), whatever the two orders; target WF and Ext (existing content '
             'untouched), source not in modifies (untouched), reordering setting restored. dd._copy (generic Function protocol) and '
             'copy_vars are bounded-checked.',
             bounded=['vlib.rtc.c11'], tb=['dd._copy.copy_bdd / copy_bdds_from / copy_vars: bounded only'], design_ref='DESIGN.md 7/C11'),
    'C12': P('other',
             'Proved: dd.bdd._load / BDD._load, the recursion that rebuilds a pickled node table inside the receiving manager: for a '
             'well-formed stored table F (second heap) and a level map carrying the ghost assignment across, the returned reference denotes '
             'the same function as the stored node, with the same sign, the receiving manager stays well formed, no existing node changes, '
             'and the order is kept. Everything around it (pickle/json/shelve byte formats, _dump/_load_pickle dictionary plumbing, JSON '
             'reader/writer coroutines, autoref wrappers) is outside any contract: run-time contracts over generated round trips, including '
             'loading into managers with other orders and other contents.',
             bounded=['vlib.rtc.c12'], tb=['pickle / json / shelve modules and the file system', '_load_pickle, _dump, dd._copy.* : bounded only'],
             design_ref='DESIGN.md 7/C12'),
    'C13': P('other',
             'Proved: dd.bdd._image (the recursion shared by image and preimage, one variant each) and _image_root: the result denotes '
             'IMG(u, v) (FIMG for forall), the ghost relational product on pairs of references, for an arbitrary assignment; the memo '
             'table keyed by the ordered pair stays valid; no existing node changes; requests are suspended and restored. The '
             'recursion equations of IMG/FIMG over the frozen entry heap are the DEFINITION of the ghost here (ASSUMED in the SMT layer): '
             'that they hold for the semantic relational product (rename, conjoin, quantify) under the documented adjacency '
             'precondition is lemma L-IMG, proved in lean/BddImage.lean (img_rec_ex, img_rec_fa, img_base). The wrappers image()/preimage() (argument translation, precondition '
             'checks) and the equality with rename/conjoin/quantify itself are checked against the truth-table composition, '
             'exhaustive for one variable pair.',
             bounded=['vlib.rtc.c13'], tb=['IMG/FIMG recursion equations are the ghost definition in the SMT layer; that the semantic relational product satisfies them is lemma L-IMG (Lean); the correspondence of the two texts is by inspection', 'image(), preimage(), _assert_valid_rename, _all_adjacent: bounded only'],
             design_ref='DESIGN.md 7/C13'),
    'C14': P('other',
             'Proved: add_var (idempotent for existing names, next bottom level by default, ValueError iff conflict with state unchanged, '
             'all functions and the WF invariant kept), _check_var, _next_free_level, _init_terminal, declare (loop invariant), '
             'var_at_level / level_of_var / var_levels as views of one bijection (W8), var. Precondition level <= len(vars): a larger '
             'explicit level leaves a gap (known finding D4). The refusals of undeclare_vars are proved as a prefix contract (ValueError with nothing modified iff a named variable is '
             'undeclared or its level still holds a node); its rebuilding of the three tables by comprehensions is outside the generator: '
             'stated as an observed contract in the language of the model (exactly the requested / all unused variables go, relative order and every '
             'function kept) that z3 evaluates on real executions, and bounded-checked.',
             bounded=['vlib.rtc.c14'], tb=['undeclare_vars (rebuilding part): bounded / observed only'], design_ref='DESIGN.md 7/C14'),
    'C15': P('exploration', 'Variadic MDD code and bdd_to_mdd: outside the generator. Run-time contracts over generated conversions and MDD histories.',
             proof=False, bounded=['vlib.rtc.c15'], design_ref='DESIGN.md 7/C15'),
    'C16': P('exploration', 'Text parsing through PLY and line splitting. Run-time contracts over generated DDDMP files.',
             proof=False, bounded=['vlib.rtc.c16'], design_ref='DESIGN.md 7/C16'),
    'C17': P('other',
             'Proved: the exceptional postconditions of find_or_add, apply (unknown operator, wrong arity, unknown node, per alias class), '
             'add_var, _check_var, _next_free_level, var, var_at_level, level_of_var, rename, assert_operator_arity (all 27 symbols), '
             '_map_to_level (undeclared name: ValueError or KeyError, nothing modified), the argument validation of swap (prefix contract), '
             'the _suspend_reordering and _try_to_reorder wrappers (setting restored on every exit): raised iff the stated condition, state '
             'unchanged. Everything else (syntax errors, files, reorder with a bad order, undeclare in use, autoref) by fault injection: '
             '47 kinds of rejected call after every step of histories, then continued use.',
             bounded=['vlib.rtc.c17'], design_ref='DESIGN.md 7/C17'),
    'C18': P('other',
             'Proved: BDD.succ returns the stored fork; dd.autoref.BDD.succ, Function.low/high/var/level/negated/ref return what the node '
             'table stores, and expanding on the node\'s variable with high/low and applying the sign reproduces u for an arbitrary '
             'assignment (W9 read back), with the handles counted. BDD.descendants / _descendants return exactly the stored nodes '
             'reachable from the roots plus the terminal (pointwise in an arbitrary node RT, ghost family REACH; the inductive reading '
             'is lemma L-REACH). Sizes (len, dag_size), to_nx and DOT exports are checked by run-time contracts (graph exports parsed '
             'back and evaluated).',
             bounded=['vlib.rtc.c18'], design_ref='DESIGN.md 7/C18'),
    'C19': P('other',
             'The C extensions cannot be built here (no CUDD/Sylvan/BuDDy). The .pyx sources are parsed on every run with Cython\'s own '
             'parser. (a) For each wrapper and each operator symbol it accepts, the body of `apply` is interpreted with the symbol '
             'concrete into a term over C-API calls; under ASSUMED contracts for the C API, z3 proves the term equal to the connective '
             'named in C01 for all operand values, and quantifier forms are compared by operand roles with dd.bdd.BDD.apply (proved '
             'in C03). (b) Reference discipline as a ledger by complete path enumeration: Function.init/__cinit__ takes exactly one '
             'reference, __dealloc__ gives back exactly one (none when already released), wrap() initialises once, and in the loop-free '
             'C-level recursions of cudd_zdd.pyx every local that took a reference has released it at every return. Violations cannot be '
             'replayed (reported with no-failing-input-found). Not a proof about compiled code: category "other".',
             bounded=[], tb=['C-API contracts are assumed; extensions not compiled or run; functions with loops over arrays are listed as not covered'],
             technique='contract checking on the Cython parse tree: symbolic interpretation of apply per operator + z3 equality with '
                       'the specification under assumed C-API contracts; reference ledger by exhaustive path enumeration',
             design_ref='DESIGN.md 7/C19'),
}

NOTES = ('Technique family: contract-based deductive verification of the real code. Proof obligations are generated '
         'from the current source of /repo on every run (vlib/vc) and discharged by z3/cvc5; functions outside the '
         'generator\'s reach are decided by run-time contracts over a stated bound (vlib/rtc), labelled bounded. The sidecar contracts '
         'themselves, and observed contracts of functions that stay outside the generator (swap, reorder, undeclare_vars, pick_iter), are '
         'evaluated by z3 on real executions (vlib/vc/concrete.py): cross-check of the contracts against CPython and source of real '
         'failing inputs; also bounded. A VIOLATION from the proof layer ends with no-failing-input-found unless that cross-check found a '
         'real input for the same contract in the same run.')
