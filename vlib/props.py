"""Per-property configuration: which proof targets and which bounded drivers decide it."""

PROPS = {
    'C01': dict(
        level='proof',
        proof=None,
        bounded=['vlib.rtc.c01'],
        explanation='placeholder',
        trusted_base=[],
        assumptions=[],
    ),
    'C02': dict(level='other', proof=None, bounded=['vlib.rtc.c02'], explanation='placeholder', trusted_base=[], assumptions=[]),
    'C03': dict(level='proof', proof=None, bounded=['vlib.rtc.c03'], explanation='placeholder', trusted_base=[], assumptions=[]),
    'C04': dict(level='proof', proof=None, bounded=['vlib.rtc.c04'], explanation='placeholder', trusted_base=[], assumptions=[]),
    'C05': dict(level='other', proof=None, bounded=['vlib.rtc.c05'], explanation='placeholder', trusted_base=[], assumptions=[]),
    'C06': dict(level='other', proof=None, bounded=['vlib.rtc.c06'], explanation='placeholder', trusted_base=[], assumptions=[]),
    'C07': dict(level='exploration', proof=None, bounded=['vlib.rtc.c07'], explanation='placeholder', trusted_base=[], assumptions=[]),
    'C08': dict(level='other', proof=None, bounded=['vlib.rtc.c08'], explanation='placeholder', trusted_base=[], assumptions=[]),
    'C09': dict(level='other', proof=None, bounded=['vlib.rtc.c09'], explanation='placeholder', trusted_base=[], assumptions=[]),
    'C10': dict(level='exploration', proof=None, bounded=['vlib.rtc.c10'], explanation='placeholder', trusted_base=[], assumptions=[]),
    'C11': dict(level='proof', proof=None, bounded=['vlib.rtc.c11'], explanation='placeholder', trusted_base=[], assumptions=[]),
    'C12': dict(level='exploration', proof=None, bounded=['vlib.rtc.c12'], explanation='placeholder', trusted_base=[], assumptions=[]),
    'C13': dict(level='exploration', proof=None, bounded=['vlib.rtc.c13'], explanation='placeholder', trusted_base=[], assumptions=[]),
    'C14': dict(level='other', proof=None, bounded=['vlib.rtc.c14'], explanation='placeholder', trusted_base=[], assumptions=[]),
    'C15': dict(level='exploration', proof=None, bounded=['vlib.rtc.c15'], explanation='placeholder', trusted_base=[], assumptions=[]),
    'C16': dict(level='exploration', proof=None, bounded=['vlib.rtc.c16'], explanation='placeholder', trusted_base=[], assumptions=[]),
    'C17': dict(level='other', proof=None, bounded=['vlib.rtc.c17'], explanation='placeholder', trusted_base=[], assumptions=[]),
    'C18': dict(level='other', proof=None, bounded=['vlib.rtc.c18'], explanation='placeholder', trusted_base=[], assumptions=[]),
}

NOTES = ('Technique family: contract-based deductive verification of the real code. Proof obligations are generated '
         'from the current source of /repo on every run (vlib/vc) and discharged by z3/cvc5; functions outside the '
         'generator\'s reach are decided by run-time contracts over a stated bound (vlib/rtc), labelled bounded.')
