"""Per-property configuration: which proof targets and which bounded drivers decide it."""

PROPS = {
    'C01': dict(
        level='proof',
        proof=None,
        bounded=['vlib.rtc.c01'],
        explanation='placeholder',
        trusted_base=[],
        assumptions=[],
    ),
    'C02': dict(level='other', proof=None, bounded=['vlib.rtc.c02'], explanation='placeholder', trusted_base=[], assumptions=[]),
    'C03': dict(level='proof', proof=None, bounded=['vlib.rtc.c03'], explanation='placeholder', trusted_base=[], assumptions=[]),
    'C06': dict(level='other', proof=None, bounded=['vlib.rtc.c06'], explanation='placeholder', trusted_base=[], assumptions=[]),
}

NOTES = ('Technique family: contract-based deductive verification of the real code. Proof obligations are generated '
         'from the current source of /repo on every run (vlib/vc) and discharged by z3/cvc5; functions outside the '
         'generator\'s reach are decided by run-time contracts over a stated bound (vlib/rtc), labelled bounded.')
