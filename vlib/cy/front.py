"""C19: front end on Cython's own parser for dd/*.pyx (no C library needed for the parse phase).

(a) operator meanings: the `apply` body of each wrapper is interpreted with `op` concrete into a term over
    C-API calls; the C API is under *assumed* contracts (listed in CAPI below); z3 checks the term against the
    connective named in C01/C19 for all operand values, and quantifier forms against the operand roles of dd.bdd.
(b) reference discipline as a ghost ledger by complete path enumeration of loop-free bodies.

Nothing here can be replayed (the extensions cannot be built in this sandbox).
"""
import os
import warnings

import z3

REPO = os.environ.get('VERIF_REPO', '/repo')
_TREES = {}


def parse(path):
    if path in _TREES:
        return _TREES[path]
    warnings.simplefilter('ignore')
    from Cython.Compiler import Errors
    from Cython.Compiler.Main import Context, CompilationOptions, default_options
    import Cython.Compiler.Scanning as Scanning
    opts = CompilationOptions(default_options)
    ctx = Context.from_options(opts)
    Errors.init_thread()
    src = Scanning.FileSourceDescriptor(path, path)
    full = ctx.extract_module_name(path, opts)
    scope = ctx.find_module(full, pos=(src, 1, 0), need_pxd=0)
    tree = ctx.parse(src, scope, pxd=0, full_module_name=full)
    _TREES[path] = tree
    return tree


def functions(tree):
    """{(class or None, name): node}"""
    from Cython.Compiler import Nodes
    out = {}

    def walk(n, cls):
        if isinstance(n, Nodes.CClassDefNode):
            cls = n.class_name
        elif isinstance(n, Nodes.PyClassDefNode):
            cls = n.name
        if isinstance(n, Nodes.CFuncDefNode):
            out[(cls, n.declarator.base.name)] = n
        elif isinstance(n, Nodes.DefNode):
            out[(cls, n.name)] = n
        for attr in n.child_attrs:
            c = getattr(n, attr, None)
            if c is None:
                continue
            for y in (c if isinstance(c, list) else [c]):
                if isinstance(y, Nodes.Node):
                    walk(y, cls)
    walk(tree, None)
    return out


def stats(node):
    from Cython.Compiler import Nodes
    if node is None:
        return []
    if isinstance(node, Nodes.StatListNode):
        return list(node.stats)
    return [node]


def line(n):
    return n.pos[1] if getattr(n, 'pos', None) else None


def cname(call):
    """dotted name of a call's function"""
    from Cython.Compiler import ExprNodes as E
    f = call.function
    if isinstance(f, E.NameNode):
        return f.name
    if isinstance(f, E.AttributeNode):
        base = f.obj
        if isinstance(base, E.NameNode):
            return f'{base.name}.{f.attribute}'
        return f'?.{f.attribute}'
    return '?'


def strval(n):
    from Cython.Compiler import ExprNodes as E
    if isinstance(n, (E.UnicodeNode, E.StringNode, E.BytesNode)):
        v = n.value
        return v.decode() if isinstance(v, bytes) else str(v)
    return None


# ---------------------------------------------------------------------------------------------------------------
# (a) operator meanings
class Raised(Exception):
    def __init__(self, exc, ln):
        self.exc, self.line = exc, ln


class CannotInterpret(Exception):
    pass


ARITY = {}


def interp_apply(fn, op, opsets):
    """Interpret an `apply` body for a concrete operator symbol. Returns the result term.
    Terms: ('U',) ('V',) ('W',) operands; ('call', name, [args]); ('const', x)."""
    from Cython.Compiler import ExprNodes as E
    from Cython.Compiler import Nodes as N
    unary = op in opsets['unary']
    ternary = op in opsets['ternary']
    env = {'op': ('str', op), 'u': ('U',), 'v': ('none',) if unary else ('V',),
           'w': ('W',) if ternary else ('none',), 'self': ('self',)}

    def ev(e):
        s = strval(e)
        if s is not None:
            return ('str', s)
        if isinstance(e, E.NameNode):
            if e.name in env:
                return env[e.name]
            return ('name', e.name)
        if isinstance(e, E.NullNode):
            return ('null',)
        if isinstance(e, E.NoneNode):
            return ('none',)
        if isinstance(e, E.IntNode):
            return ('const', int(e.value))
        if isinstance(e, E.AttributeNode):
            b = ev(e.obj)
            if e.attribute in ('node', 'zdd', 'bdd', 'manager'):
                return b if e.attribute == 'node' else ('attr', e.attribute, b)
            return ('attr', e.attribute, b)
        if isinstance(e, E.TupleNode):
            return ('tuple', [ev(a) for a in e.args])
        if isinstance(e, E.SimpleCallNode):
            nm = cname(e)
            args = [ev(a) for a in e.args]
            if nm in ('wrap', 'Function'):
                return args[-1] if nm == 'wrap' else args[0]
            return ('call', nm.split('.')[-1], args)
        if isinstance(e, (E.JoinedStrNode, E.FormattedValueNode)):
            return ('str', '<f-string>')
        raise CannotInterpret(f'{type(e).__name__}@{line(e)}')

    def cond(e):
        """truth of a condition under the assumptions: same manager, no out-of-memory, arity as declared"""
        if isinstance(e, E.BoolBinopNode):
            a, b = cond(e.operand1), cond(e.operand2)
            return (a and b) if e.operator == 'and' else (a or b)
        if isinstance(e, E.NotNode):
            return not cond(e.operand)
        if isinstance(e, E.PrimaryCmpNode):
            l, r = ev(e.operand1), ev(e.operand2)
            o = e.operator
            if o in ('in', 'not_in'):
                if l[0] == 'str' and r[0] == 'tuple':
                    res = any(x == l for x in r[1])
                elif l[0] == 'str' and r[0] == 'name' and r[1] == '_OPERATOR_SYMBOLS':
                    res = l[1] in opsets.get('buddy', opsets['all'])
                else:
                    raise CannotInterpret(f'in@{line(e)}')
                return res if o == 'in' else not res
            if o in ('==', '!=') and l[0] == 'str' and r[0] == 'str':
                return (l[1] == r[1]) == (o == '==')
            if o in ('is', 'is_not'):
                if r[0] in ('none', 'null'):
                    isn = (l[0] == 'none') if r[0] == 'none' else False   # results of C calls are assumed non-NULL
                    return isn if o == 'is' else not isn
                # identity of managers / wrappers: assumed equal
                return o == 'is'
            if o in ('!=', '=='):
                # a computed value or operand compared with a sentinel (sylvan_invalid, CUDD_OUT_OF_MEM): calls succeed
                if l[0] in ('call', 'U', 'V', 'W') or r[0] in ('call', 'U', 'V', 'W'):
                    return o == '!='
                # manager / wrapper comparisons: operands belong to this manager
                return o == '==' 
            raise CannotInterpret(f'cmp {o}@{line(e)}')
        raise CannotInterpret(f'cond {type(e).__name__}@{line(e)}')

    class Ret(Exception):
        def __init__(self, v):
            self.v = v

    def run(sts):
        for st in sts:
            if isinstance(st, N.IfStatNode):
                taken = False
                for cl in st.if_clauses:
                    if cond(cl.condition):
                        run(stats(cl.body))
                        taken = True
                        break
                if not taken and st.else_clause is not None:
                    run(stats(st.else_clause))
            elif isinstance(st, N.SingleAssignmentNode):
                if isinstance(st.lhs, E.NameNode):
                    env[st.lhs.name] = ev(st.rhs)
            elif isinstance(st, N.ReturnStatNode):
                raise Ret(ev(st.value))
            elif isinstance(st, N.RaiseStatNode):
                exc = st.exc_type
                nm = cname(exc) if isinstance(exc, E.SimpleCallNode) else getattr(exc, 'name', '?')
                raise Raised(nm, line(st))
            elif isinstance(st, N.ExprStatNode):
                if isinstance(st.expr, E.SimpleCallNode) and cname(st.expr).endswith('assert_operator_arity'):
                    continue    # arity is enforced: modelled by the none/operand environment above
                continue
            elif isinstance(st, (N.CVarDefNode, N.PassStatNode)):
                continue
            elif isinstance(st, N.StatListNode):
                run(stats(st))
            elif isinstance(st, N.AssertStatNode):
                continue
            else:
                raise CannotInterpret(f'{type(st).__name__}@{line(st)}')
    try:
        run(stats(fn.body))
    except Ret as r:
        return r.v
    raise CannotInterpret('no return')


# assumed contracts of the C APIs (pointwise meaning on Boolean values); positions after dropping the manager
def _capi():
    N_, A_, O_, X_, I_ = z3.Not, z3.And, z3.Or, z3.Xor, z3.If
    return {
        # CUDD BDD
        'Cudd_Not': lambda a: N_(a), 'Cudd_bddAnd': lambda m, a, b: A_(a, b), 'Cudd_bddOr': lambda m, a, b: O_(a, b),
        'Cudd_bddXor': lambda m, a, b: X_(a, b), 'Cudd_bddXnor': lambda m, a, b: a == b,
        'Cudd_bddIte': lambda m, f, g, h: I_(f, g, h), 'Cudd_ReadOne': lambda m: z3.BoolVal(True),
        'Cudd_ReadLogicZero': lambda m: z3.BoolVal(False),
        # CUDD ZDD (dd's encoding: a ZDD denotes the set of its models; ZddOne(0) is the universe)
        'Cudd_ReadZddOne': lambda m, i: z3.BoolVal(True), 'Cudd_zddDiff': lambda m, a, b: A_(a, N_(b)),
        'Cudd_zddIntersect': lambda m, a, b: A_(a, b), 'Cudd_zddUnion': lambda m, a, b: O_(a, b),
        'Cudd_zddIte': lambda m, f, g, h: I_(f, g, h),
        # Sylvan
        'sylvan_not': lambda a: N_(a), 'sylvan_and': lambda a, b: A_(a, b), 'sylvan_or': lambda a, b: O_(a, b),
        'sylvan_xor': lambda a, b: X_(a, b), 'sylvan_imp': lambda a, b: O_(N_(a), b), 'sylvan_biimp': lambda a, b: a == b,
        'sylvan_diff': lambda a, b: A_(a, N_(b)), 'sylvan_ite': lambda f, g, h: I_(f, g, h),
        # BuDDy
        'bdd_not': lambda a: N_(a), 'bdd_and': lambda a, b: A_(a, b), 'bdd_or': lambda a, b: O_(a, b), 'bdd_xor': lambda a, b: X_(a, b),
    }


# quantifier entry points: name -> (index of the body argument, index of the variables argument) in the call
QUANT = {
    'Cudd_bddUnivAbstract': ('forall', 1, 2), 'Cudd_bddExistAbstract': ('exists', 1, 2),       # (manager, f, cube)
    '_forall_root': ('forall', 1, 2), '_exist_root': ('exists', 1, 2),                          # (mgr, u, cube)
    'sylvan_forall': ('forall', 0, 1), 'sylvan_exists': ('exists', 0, 1),                       # (a, qvars)
}


def operand_of(t):
    """which operand a variables-term is derived from: support/cube wrappers are looked through"""
    while True:
        if t[0] in ('U', 'V', 'W'):
            return t[0]
        if t[0] == 'call' and t[1] in ('support', '_dict_to_zdd', 'cube') and t[2]:
            t = t[2][0] if t[2][0][0] != 'self' else t[2][1]
            continue
        if t[0] == 'attr':
            t = t[2]
            continue
        if t[0] == 'name':
            return None
        return None


def to_z3(t, U, V, W, capi):
    if t[0] == 'U':
        return U
    if t[0] == 'V':
        return V
    if t[0] == 'W':
        return W
    if t[0] == 'call':
        f = capi.get(t[1])
        if f is None:
            raise CannotInterpret(f'no assumed contract for C function {t[1]}')
        args = []
        for a in t[2]:
            if a[0] in ('name', 'attr', 'self', 'const'):
                args.append(a)          # manager / integer argument
            else:
                args.append(to_z3(a, U, V, W, capi))
        return f(*args)
    raise CannotInterpret(f'term {t[0]}')


SPEC = {
    'not': lambda a, b, c: z3.Not(a), 'and': lambda a, b, c: z3.And(a, b), 'or': lambda a, b, c: z3.Or(a, b),
    'xor': lambda a, b, c: a != b, 'implies': lambda a, b, c: z3.Or(z3.Not(a), b), 'equiv': lambda a, b, c: a == b,
    'diff': lambda a, b, c: z3.And(a, z3.Not(b)), 'ite': lambda a, b, c: z3.If(a, b, c),
}


def check_operator(fn, op, cls, opsets):
    """returns (status, detail): status in discharged | refuted | undecided"""
    try:
        t = interp_apply(fn, op, opsets)
    except Raised as r:
        return 'refuted', f'apply({op!r}, ...) raises {r.exc} at line {r.line} for an accepted operator'
    except CannotInterpret as e:
        return 'undecided', f'cannot interpret: {e}'
    if cls in ('forall', 'exists'):
        if t[0] != 'call' or t[1] not in QUANT:
            return 'undecided', f'quantifier form not recognised: {t}'
        kind, bi, vi = QUANT[t[1]]
        body, vars_ = operand_of(t[2][bi]), operand_of(t[2][vi])
        if kind != cls:
            return 'refuted', f'{op!r} calls {t[1]} which is the {kind} quantifier'
        if (vars_, body) != ('U', 'V'):
            return 'refuted', (f'{op!r}: {t[1]} receives variables from operand {vars_} and body from operand {body}; '
                               f'dd.bdd.BDD.apply quantifies the variables of the first operand (U) in the second (V)')
        return 'discharged', f'{t[1]}(variables<-U, body<-V)'
    U, V, W = z3.Bools('U V W')
    try:
        term = to_z3(t, U, V, W, _capi())
    except CannotInterpret as e:
        return 'undecided', str(e)
    s = z3.Solver()
    s.add(term != SPEC[cls](U, V, W))
    r = s.check()
    if r == z3.unsat:
        return 'discharged', str(t)[:200]
    if r == z3.sat:
        m = s.model()
        vals = {str(d): m[d] for d in m.decls()}
        return 'refuted', f'{op!r}: wrapper computes {t} which differs from {cls} at {vals}'
    return 'undecided', 'solver unknown'


# ---------------------------------------------------------------------------------------------------------------
# (b) reference ledger
REF_FUNCS = {'cuddRef', 'Cudd_Ref', 'sylvan_ref', 'bdd_addref'}
DEREF_FUNCS = {'Cudd_RecursiveDerefZdd', 'Cudd_RecursiveDeref', 'cuddDeref', 'Cudd_Deref', 'sylvan_deref', 'bdd_delref'}


class NotCovered(Exception):
    pass


def ledger_paths(fn, max_paths=20000):
    """Enumerate all paths of a loop-free body. Yields dict(exit='return'|'raise:<Exc>'|'end', line, balance={var: n},
    decisions=[...]). Nullness facts about a variable prune infeasible combinations of `x is NULL` tests."""
    from Cython.Compiler import ExprNodes as E
    from Cython.Compiler import Nodes as N
    out = []

    def target(e):
        if isinstance(e, E.NameNode):
            return e.name
        if isinstance(e, E.AttributeNode) and isinstance(e.obj, E.NameNode):
            return f'{e.obj.name}.{e.attribute}'
        return None

    def nulltest(e):
        """(var, is_null_when_true) for `x is NULL` / `x is not NULL`"""
        if isinstance(e, E.PrimaryCmpNode) and e.operator in ('is', 'is_not') and isinstance(e.operand2, E.NullNode):
            v = target(e.operand1)
            if v:
                return v, e.operator == 'is'
        return None

    def walk(sts, bal, facts, dec):
        """returns list of continuing states (bal, facts, dec)"""
        states = [(bal, facts, dec)]
        for st in sts:
            nxt = []
            for (b, f, d) in states:
                nxt += step(st, b, f, d)
                if len(nxt) + len(out) > max_paths:
                    raise NotCovered('too many paths')
            states = nxt
        return states

    def step(st, b, f, d):
        if isinstance(st, N.StatListNode):
            return walk(stats(st), b, f, d)
        if isinstance(st, N.IfStatNode):
            res = []
            rest = [(b, f, d)]
            for cl in st.if_clauses:
                nt = nulltest(cl.condition)
                nrest = []
                for (b2, f2, d2) in rest:
                    t_ok = f_ok = True
                    ft, ff = dict(f2), dict(f2)
                    if nt:
                        v, isnull = nt
                        if v in f2:
                            t_ok = (f2[v] == isnull)
                            f_ok = (f2[v] != isnull)
                        ft[v], ff[v] = isnull, not isnull
                    if t_ok:
                        res += walk(stats(cl.body), dict(b2), ft, d2 + [(line(cl.condition), True)])
                    if f_ok:
                        nrest.append((b2, ff, d2 + [(line(cl.condition), False)]))
                rest = nrest
            for (b2, f2, d2) in rest:
                if st.else_clause is not None:
                    res += walk(stats(st.else_clause), dict(b2), f2, d2)
                else:
                    res.append((b2, f2, d2))
            return res
        if isinstance(st, N.ExprStatNode) and isinstance(st.expr, E.SimpleCallNode):
            nm = cname(st.expr).split('.')[-1]
            if nm in REF_FUNCS or nm in DEREF_FUNCS:
                arg = st.expr.args[-1]
                v = target(arg)
                if v is None:
                    raise NotCovered(f'reference call on a non-name@{line(st)}')
                b = dict(b)
                b[v] = b.get(v, 0) + (1 if nm in REF_FUNCS else -1)
            return [(b, f, d)]
        if isinstance(st, N.SingleAssignmentNode) and isinstance(st.lhs, E.IndexNode):
            # storing a node into a container (memo table) hands one reference over to the container
            b = dict(b)

            def names_in(x):
                if isinstance(x, E.NameNode):
                    yield x.name
                for a in x.child_attrs:
                    cc = getattr(x, a, None)
                    for y in (cc if isinstance(cc, list) else [cc]):
                        if y is not None and hasattr(y, 'child_attrs'):
                            yield from names_in(y)
            for v in names_in(st.rhs):
                if b.get(v, 0) > 0:
                    b[v] -= 1
            return [(b, f, d)]
        if isinstance(st, N.SingleAssignmentNode):
            names = []
            if isinstance(st.lhs, E.TupleNode):
                names = [target(x) for x in st.lhs.args]
            else:
                names = [target(st.lhs)]
            b, f = dict(b), dict(f)
            for v in names:
                if v and b.get(v, 0) > 0:
                    out.append(dict(exit='overwrite', line=line(st), balance=dict(b), decisions=d, var=v))
                if v in f:
                    del f[v]
            return [(b, f, d)]
        if isinstance(st, N.ReturnStatNode):
            out.append(dict(exit='return', line=line(st), balance={k: v for k, v in b.items() if v}, decisions=d))
            return []
        if isinstance(st, N.RaiseStatNode):
            exc = st.exc_type
            nm = cname(exc) if isinstance(exc, E.SimpleCallNode) else getattr(exc, 'name', '?')
            out.append(dict(exit=f'raise:{nm}', line=line(st), balance={k: v for k, v in b.items() if v}, decisions=d))
            return []
        if isinstance(st, (N.ForInStatNode, N.WhileStatNode, N.ForFromStatNode)):
            raise NotCovered(f'loop@{line(st)}')
        if isinstance(st, (N.TryFinallyStatNode, N.TryExceptStatNode, N.WithStatNode)):
            raise NotCovered(f'{type(st).__name__}@{line(st)}')
        return [(b, f, d)]

    for (b, f, d) in walk(stats(fn.body), {}, {}, []):
        out.append(dict(exit='end', line=line(fn), balance={k: v for k, v in b.items() if v}, decisions=d))
    return out
