"""C19 driver: obligations over the Cython parse trees of dd/*.pyx."""
import hashlib
import os
import time

from vlib.cy import front
from vlib.cy.front import REPO

WRAPPERS = [('cudd.pyx', 'BDD'), ('cudd_zdd.pyx', 'ZDD'), ('sylvan.pyx', 'BDD'), ('buddy.pyx', 'BDD')]
ZDD_RECURSIONS = ['_forall', '_exist', '_disjoin', '_conjoin', '_compose', '_find_or_add', '_forall_root', '_exist_root',
                  '_disjoin_root', '_conjoin_root', '_compose_root']
CLASS_OF = None


def buddy_symbols(tree):
    from Cython.Compiler import ExprNodes as E
    from Cython.Compiler import Nodes as N
    out = set()

    def walk(n):
        if isinstance(n, N.SingleAssignmentNode) and isinstance(n.lhs, E.NameNode) and n.lhs.name == '_OperatorSymbol':
            def strs(x):
                s = front.strval(x)
                if s is not None:
                    out.add(s)
                for a in x.child_attrs:
                    c = getattr(x, a, None)
                    for y in (c if isinstance(c, list) else [c]):
                        if y is not None and hasattr(y, 'child_attrs'):
                            strs(y)
            strs(n.rhs)
        for a in n.child_attrs:
            c = getattr(n, a, None)
            for y in (c if isinstance(c, list) else [c]):
                if y is not None and hasattr(y, 'child_attrs'):
                    walk(y)
    walk(tree)
    return out


def run(tier, seed):
    from vlib.vc import run as vcrun
    from vlib.vc.contracts_bdd import SPELLINGS
    t0 = time.time()
    opsets = vcrun.load_opsets()
    class_of = {s: c for c, ss in SPELLINGS.items() for s in ss}
    obligations, fails, crashes, undecided, samples, functions = [], [], [], [], [], []
    not_covered = []

    def record(name, status, detail, site=None, span=None):
        obligations.append(dict(name=name, status=status))
        if status == 'discharged':
            if len(samples) < 6:
                samples.append(dict(obligation=name, result=detail[:160]))
        elif status == 'refuted':
            fails.append(dict(site=site or name, detail=detail, obligation=name, source_span=span, no_input=True,
                              solver_output=detail))
        else:
            undecided.append(dict(obligation=name, reason=detail))

    for fname, cls in WRAPPERS:
        path = os.path.join(REPO, 'dd', fname)
        try:
            tree = front.parse(path)
        except Exception as e:  # noqa
            crashes.append(dict(fn='cython-parse', tb=f'{fname}: {e!r}'))
            continue
        fns = front.functions(tree)
        ops = dict(opsets)
        if fname == 'buddy.pyx':
            ops['buddy'] = buddy_symbols(tree)
            accepted = sorted(ops['buddy'])
            if not accepted:
                crashes.append(dict(fn='cy', tb='buddy.pyx: operator symbols not found'))
        else:
            accepted = sorted(opsets['all'])
        ap = fns.get((cls, 'apply'))
        if ap is None:
            crashes.append(dict(fn='cy', tb=f'{fname}: {cls}.apply not found'))
            continue
        functions.append(dict(function=f'dd/{fname}:{cls}.apply', lines=[front.line(ap)],
                              source_hash=hashlib.sha256(open(path, 'rb').read()).hexdigest()[:16]))
        for op in accepted:
            c = class_of.get(op)
            if c is None:
                # a symbol the wrapper accepts but the statement of C01/C19 gives no meaning for (buddy: nand etc.)
                undecided.append(dict(obligation=f'{fname}:apply[{op}]', reason='symbol outside the spelling classes of C01'))
                continue
            try:
                status, detail = front.check_operator(ap, op, c, ops)
            except Exception as e:  # noqa
                status, detail = 'undecided', f'front end error {e!r}'
            kind = 'roles' if c in ('forall', 'exists') else 'meaning'
            record(f'{fname}:apply[{op}]#{kind}', status, detail, span=f'dd/{fname}:{front.line(ap)}')
        # returns of apply hand out wrapped nodes only
        # reference discipline: Function creation / disposal / wrap
        for key, want in ((('Function', 'init'), 'init'), (('Function', '__cinit__'), 'init'), (('Function', '__dealloc__'), 'dealloc'),
                          ((None, 'wrap'), 'wrap')):
            fn = fns.get(key)
            if fn is None:
                continue
            if key == ('Function', '__cinit__') and fname != 'buddy.pyx':
                continue
            name = f'{fname}:{key[0] + "." if key[0] else ""}{key[1]}#ledger'
            functions.append(dict(function=f'dd/{fname}:{key[1]}', lines=[front.line(fn)]))
            try:
                paths = front.ledger_paths(fn)
            except front.NotCovered as e:
                not_covered.append(f'{name}: {e}')
                continue
            if want == 'wrap':
                # wrap(): exactly one call of f.init on every path (checked textually on the tree)
                from Cython.Compiler import ExprNodes as E
                n_init = 0

                def count(n):
                    nonlocal n_init
                    if isinstance(n, E.SimpleCallNode) and front.cname(n).endswith('.init'):
                        n_init += 1
                    for a in n.child_attrs:
                        cc = getattr(n, a, None)
                        for y in (cc if isinstance(cc, list) else [cc]):
                            if y is not None and hasattr(y, 'child_attrs'):
                                count(y)
                count(fn.body)
                record(name + ':one-init-per-handle', 'discharged' if (n_init == 1 and len(paths) == 1) else 'refuted',
                       f'{n_init} init call(s), {len(paths)} path(s)', span=f'dd/{fname}:{front.line(fn)}')
                continue
            for k, p in enumerate(paths):
                if p['exit'].startswith('raise:AssertionError'):
                    continue
                tot = sum(p['balance'].values())
                if want == 'init':
                    ok = (tot == 0) if p['exit'].startswith('raise') else (tot == 1)
                    what = 'takes exactly one library reference on creation (none if it raises)'
                else:
                    # dealloc: at most one reference given back; the early return for an already released handle gives none
                    ok = tot in (0, -1) if p['exit'] == 'return' else (tot == -1 if p['exit'] == 'end' else tot == 0)
                    what = 'gives back exactly one reference on disposal (none when already released)'
                record(f'{name}:path{k}@{p["line"]}', 'discharged' if ok else 'refuted',
                       f'{what}: balance {p["balance"]} on path {p["decisions"]} ({p["exit"]})', span=f'dd/{fname}:{p["line"]}')
        if fname == 'cudd_zdd.pyx':
            for rn in ZDD_RECURSIONS:
                fn = fns.get((None, rn))
                if fn is None:
                    continue
                functions.append(dict(function=f'dd/{fname}:{rn}', lines=[front.line(fn)]))
                try:
                    paths = front.ledger_paths(fn)
                except front.NotCovered as e:
                    not_covered.append(f'{fname}:{rn}: {e}')
                    continue
                for k, p in enumerate(paths):
                    if p['exit'].startswith('raise:AssertionError'):
                        continue
                    ok = not p['balance']
                    record(f'{fname}:{rn}#temporaries-released:{p["exit"]}@{p["line"]}', 'discharged' if ok else 'refuted',
                           f'locals still holding a reference at {p["exit"]} line {p["line"]}: {p["balance"]}; decisions {p["decisions"]}',
                           site=f'{fname}:{rn}#temporaries-released', span=f'dd/{fname}:{p["line"]}')
    n = len(obligations)
    d = sum(o['status'] == 'discharged' for o in obligations)
    if n == 0:
        crashes.append(dict(fn='vacuity', tb='C19: zero obligations'))
    cov = dict(functions_under_contract=functions, obligations=n, discharged=d, backends={'z3-api': n}, undecided=undecided[:30],
               samples=samples, not_covered=not_covered, proof_wall_s=round(time.time() - t0, 1),
               trusted_base=['ASSUMED C-API contracts (pointwise meaning of Cudd_*, Cudd_zdd*, sylvan_*, bdd_* as in vlib/cy/front.py CAPI; '
                             'quantifier entry points take (body, variables) in the positions given by their declarations)',
                             'Cython parser (the analysed tree is the one the Cython compiler builds); the extensions cannot be compiled or run here',
                             'arity handling by dd._utils.assert_operator_arity (verified under C01/C17)',
                             'same-manager checks and NULL (out of memory) results are assumed not to occur when interpreting apply',
                             'raise AssertionError paths are excluded from the ledger (assertions are assumed not to fail)'],
               checker_cmd=f'bin/check C19 --tier {tier}  (vlib/cy on Cython {__import__("Cython").__version__} parse trees, z3 for operator equalities)')
    return dict(coverage=cov, fails=fails, crashes=crashes, assumptions=[])
