"""Verification driver: extract the real functions with `ast` (every run), generate obligations against the
sidecar contracts, discharge them with z3 (cvc5 / z3 CLI as fall-backs) in a process pool, apply the vacuity
guards, and report per property.

Terminology (DESIGN.md): an obligation is *discharged* only if a solver returned `unsat` for
hypotheses /\\ not(goal). `unknown`/timeouts are *undecided*, never violations.
"""
import ast
import concurrent.futures as cf
import hashlib
import json
import os
import subprocess
import sys
import tempfile
import time
import traceback

import z3
from z3 import And, BoolVal, Not, Solver, unsat, sat

from vlib.vc import symex
from vlib.vc.symex import *  # noqa
from vlib.vc.symex import FieldV  # noqa
from vlib.vc.model import *  # noqa
from vlib.vc import model as M

ROOT = os.path.dirname(os.path.dirname(os.path.dirname(os.path.abspath(__file__))))
REPO = os.environ.get('VERIF_REPO', '/repo')
NPROC = int(os.environ.get('VERIF_NPROC', '16'))
TIMEOUT_MS = int(os.environ.get('VERIF_SMT_TIMEOUT_MS', '15000'))
FALLBACK_MS = int(os.environ.get('VERIF_SMT_FALLBACK_MS', '6000'))
PRIMARY_MS = int(os.environ.get('VERIF_SMT_PRIMARY_MS', '4000'))

_ASTS = {}
ABDD = {}
HANDLES = []
# RuntimeError('full: reached max_nodes') can leave find_or_add half way; max_nodes defaults to sys.maxsize and the
# claims assume it is never reached. Paths on which a *callee* raised it are not analysed.
AUTO_ASSUMED = {'RuntimeError'}


def module_ast(mod):
    if mod not in _ASTS:
        path = os.path.join(REPO, *mod.split('.')) + '.py'
        src = open(path).read()
        _ASTS[mod] = (ast.parse(src), src, path)
    return _ASTS[mod]


def find_function(qual):
    """qual like 'dd.bdd.BDD._ite', 'dd.bdd.rename', 'dd.bdd._try_to_reorder._wrapper'. Returns
    (node, module, class-or-None, source-hash, (first line, last line))."""
    parts = qual.split('.')
    for cut in range(len(parts) - 1, 0, -1):
        mod = '.'.join(parts[:cut])
        path = os.path.join(REPO, *mod.split('.')) + '.py'
        if os.path.exists(path):
            break
    else:
        raise KeyError(qual)
    tree, src, path = module_ast(mod)
    body = tree.body
    node = None
    cls = None
    for part in parts[cut:]:
        for n in body:
            if isinstance(n, (ast.FunctionDef, ast.ClassDef)) and n.name == part:
                # several definitions with one name (typing.overload stubs): take the last, the real one
                node = n
        if node is None or node.name != part:
            raise KeyError(qual)
        if isinstance(node, ast.ClassDef):
            cls = f'{mod}.{node.name}'
        body = node.body
    seg = ast.get_source_segment(src, node)
    h = hashlib.sha256(ast.dump(node, include_attributes=False).encode()).hexdigest()[:16]
    return node, mod, cls, h, (node.lineno, node.end_lineno)


def _module_assign(mod, name):
    tree, _, _ = module_ast(mod)
    val = None
    for n in tree.body:
        if isinstance(n, ast.AnnAssign) and isinstance(n.target, ast.Name) and n.target.id == name and n.value is not None:
            val = n.value
        elif isinstance(n, ast.Assign) and len(n.targets) == 1 and isinstance(n.targets[0], ast.Name) and n.targets[0].id == name:
            val = n.value
    if val is None:
        raise Unsupported(f'module constant {mod}.{name}')
    return val


def _module_imports(mod):
    tree, _, _ = module_ast(mod)
    out = {}
    for n in tree.body:
        if isinstance(n, ast.Import):
            for a in n.names:
                out[a.asname or a.name] = a.name
    return out


def module_constant(mod, name, depth=0):
    """value of a module-level constant table, computed from the source text (nothing is imported): literals, displays
    with `*` unpacking, dict(k=...), names of the same module, `pkg.mod.NAME`, and `_literals_of(<Literal alias>)`."""
    if depth > 6:
        raise Unsupported(f'module constant {mod}.{name}: too deep')

    def ev(e):
        if isinstance(e, ast.Constant):
            return e.value
        if isinstance(e, (ast.Set, ast.Tuple, ast.List)):
            items = []
            for x in e.elts:
                if isinstance(x, ast.Starred):
                    items.extend(sorted(ev(x.value)))
                else:
                    items.append(ev(x))
            return frozenset(items) if isinstance(e, ast.Set) else tuple(items)
        if isinstance(e, ast.Dict) and all(k is not None for k in e.keys):
            return {ev(k): ev(v) for k, v in zip(e.keys, e.values)}
        if isinstance(e, ast.Call) and isinstance(e.func, ast.Name) and e.func.id == 'dict' and not e.args:
            return {k.arg: ev(k.value) for k in e.keywords}
        if isinstance(e, ast.Call) and isinstance(e.func, ast.Name) and e.func.id == '_literals_of' and len(e.args) == 1 \
                and isinstance(e.args[0], ast.Name):
            return frozenset(literal_alias(mod, e.args[0].id))
        if isinstance(e, ast.Name):
            return module_constant(mod, e.id, depth + 1)
        if isinstance(e, ast.Attribute):
            dotted = ast.unparse(e.value)
            imports = _module_imports(mod)
            target = imports.get(dotted, dotted if dotted.startswith('dd.') else None)
            if target is None:
                raise Unsupported(f'module constant: {ast.unparse(e)}')
            return module_constant(target, e.attr, depth + 1)
        raise Unsupported(f'module constant: {ast.unparse(e)[:60]}')
    return ev(_module_assign(mod, name))


def literal_alias(mod, name):
    """the string literals of `name: TypeAlias = Literal[...]` (aliases of aliases followed)"""
    v = _module_assign(mod, name)
    if not (isinstance(v, ast.Subscript) and ast.unparse(v.value).endswith('Literal')):
        raise Unsupported(f'{mod}.{name} is not a Literal alias')
    out = []
    for x in (v.slice.elts if isinstance(v.slice, ast.Tuple) else [v.slice]):
        if isinstance(x, ast.Constant) and isinstance(x.value, str):
            out.append(x.value)
        elif isinstance(x, ast.Name):
            out.extend(literal_alias(mod, x.id))
        else:
            raise Unsupported(f'{mod}.{name}: {ast.unparse(x)}')
    return out


def load_opsets():
    """operator symbol sets, read from dd/_abc.py with ast (never imported)"""
    tree, src, _ = module_ast('dd._abc')
    lits = {}
    for n in tree.body:
        if isinstance(n, ast.AnnAssign) and isinstance(n.target, ast.Name) and n.value is not None:
            v = n.value
            if isinstance(v, ast.Subscript) and ast.unparse(v.value).endswith('Literal'):
                elts = v.slice.elts if isinstance(v.slice, ast.Tuple) else [v.slice]
                if all(isinstance(x, ast.Constant) and isinstance(x.value, str) for x in elts):
                    lits[n.target.id] = [x.value for x in elts]
    out = dict(unary=set(lits['_UnaryOperatorSymbol']), binary=set(lits['_BinaryOperatorSymbol']),
               ternary=set(lits['_TernaryOperatorSymbol']))
    out['all'] = out['unary'] | out['binary'] | out['ternary']
    return out


def strip_docstring(body):
    if body and isinstance(body[0], ast.Expr) and isinstance(body[0].value, ast.Constant) and isinstance(body[0].value.value, str):
        return body[1:]
    return body


# ---------------------------------------------------------------------------------------------------------------
def make_arg(name, kind):
    """initial symbolic value for a parameter kind"""
    if kind == 'mgr':
        return MgrV(name)
    if kind.startswith('mgr:'):
        return MgrV(name, kind[4:])
    if kind == 'int':
        return IntV(z3.Int(name + '0'))
    if kind == 'optint':
        return IntV(z3.Int(name + '0'), z3.Bool(name + '0_none'))
    if kind in ('bool', 'bool=False'):
        return BoolV(z3.Bool(name + '0'))
    if kind == 'name':
        return NameV(z3.Const(name + '0', M.Name))
    if kind.startswith('op:'):
        return StrV(kind[3:])
    if kind == 'list:int':
        return ListV(z3.Array(name + '_arr', I, I), z3.Int(name + '_n'))
    if kind == 'list:name':
        return ListV(z3.Array(name + '_arr', I, M.Name), z3.Int(name + '_n'), 'name')
    if kind.startswith('dict:'):
        k, v = kind[5:].split('->')
        ks = {'int': I, 'name': M.Name, 'fork': Fork}[k]
        vs = {'int': I, 'bool': B, 'name': M.Name}[v]
        dv = DictV(z3.Array(name + '_has', ks, B), z3.Array(name + '_val', ks, vs), v, k)
        dv.extra = {'all': z3.Int(name + '_all')}       # string keys that some level-keyed dicts carry besides the levels
        return dv
    if kind.startswith('set:'):
        k = kind[4:]
        ks = {'int': I, 'name': M.Name}[k]
        return SetV(z3.Array(name + '_has', ks, B), k)
    if kind.startswith('heap:'):
        # a node table that is not a manager (the `succ` dict of a pickle): modelled as the `_succ` field of a state
        return FieldV(kind[5:], '_succ')
    if kind == 'opaque':
        return ObjV('opaque')
    if kind == 'none':
        return NONE()
    if kind.startswith('exc:'):
        return NONE() if kind == 'exc:None' else ExcClassV(kind[4:])
    if kind.startswith('obj:'):
        return ObjV(kind[4:], {})
    if kind == 'abdd':
        o = ObjV('dd.autoref.BDD', {'_bdd': MgrV('m', 'dd.bdd.BDD'), 'vars': FieldV('m', 'vars')}, ident=z3.Int('self_id'))
        ABDD['self'] = o
        return o
    if kind == 'fself':
        owner = ABDD.get('self')
        if owner is None:
            owner = ABDD['self'] = ObjV('dd.autoref.BDD', {'_bdd': MgrV('m', 'dd.bdd.BDD'), 'vars': FieldV('m', 'vars')}, ident=z3.Int('self_id'))
        return ObjV('dd.autoref.Function', {'node': IntV(z3.Int(name + '_node')), 'bdd': owner, 'manager': MgrV('m', 'dd.bdd.BDD')})
    if kind in ('handle', 'opthandle', 'fobj'):
        owner = ABDD.get('self')
        if owner is None:
            owner = ABDD['self'] = ObjV('dd.autoref.BDD', {'_bdd': MgrV('m', 'dd.bdd.BDD'), 'vars': FieldV('m', 'vars')}, ident=z3.Int('self_id'))
        # a handle of possibly another manager: same attribute table, symbolic identity
        hb = ObjV('dd.autoref.BDD', owner.attrs, ident=z3.Int(name + '_bdd_id'))
        h = ObjV('dd.autoref.Function', {'node': IntV(z3.Int(name + '_node'), z3.Bool(name + '_released') if kind == 'fobj' else None),
                                         'bdd': hb, 'manager': MgrV('m', 'dd.bdd.BDD')})
        if kind == 'opthandle':
            h.none = z3.Bool(name + '_is_none')
        HANDLES.append(h)
        return h
    if kind == 'rcobj':
        # a _ReorderingContext instance after __init__/__enter__: fields bdd (manager) and nested (symbolic flag)
        return ObjV('dd.bdd._ReorderingContext', {'bdd': MgrV('bdd'), 'nested': BoolV(z3.Bool('nested0'))})
    if kind.startswith('callable:'):
        return ObjV('callable', dict(qual=kind[9:]))
    raise KeyError(kind)


def ret_z(c, v, ex, p):
    if c.ret in ('none', 'opaque'):
        return None
    if c.ret == 'int':
        return zint(v, ex, p, ' (return value)')
    if c.ret == 'optint':
        if not isinstance(v, IntV):
            raise Unsupported('return kind')
        return (v.z, is_none(v))
    if c.ret == 'bool':
        return truth(v) if isinstance(v, (BoolV,)) else truth(v)
    if c.ret in ('pair', 'triple'):
        if not isinstance(v, TupV):
            raise Unsupported('return kind')
        return tuple((If(is_none(x), 0, x.z) if isinstance(x, IntV) else zint(x, ex, p)) for x in v.items)
    if c.ret == 'name':
        if not isinstance(v, NameV):
            raise Unsupported('return kind')
        return v.z
    if c.ret == 'handle':
        if not (isinstance(v, ObjV) and v.cls == 'dd.autoref.Function'):
            raise Unsupported('return kind (handle expected)')
        return v.attrs['node'].z
    if c.ret == 'optname':
        if isinstance(v, NameV):
            return (v.z, is_none(v))
        if isinstance(v, IntV):
            return (z3.Const('noname', M.Name), is_none(v))
        raise Unsupported('return kind (optional name expected)')
    if c.ret == 'fork-of-handles':
        if not (isinstance(v, TupV) and len(v.items) == 3):
            raise Unsupported('return kind')
        def hz(x):
            if isinstance(x, IntV):
                return (z3.IntVal(0), is_none(x))
            return (x.attrs['node'].z, getattr(x, 'none', BoolVal(False)))
        return (zint(v.items[0], ex, p), hz(v.items[1]), hz(v.items[2]))
    if c.ret == 'opthandle':
        if isinstance(v, IntV):
            return (z3.IntVal(0), is_none(v))
        if isinstance(v, ObjV) and v.cls == 'dd.autoref.Function':
            return (v.attrs['node'].z, getattr(v, 'none', BoolVal(False)))
        raise Unsupported('return kind (optional handle expected)')
    if c.ret.startswith(('dict:', 'set:', 'list:')):
        if not isinstance(v, (DictV, SetV, ListV)):
            raise Unsupported('return kind')
        return v
    raise Unsupported(f'ret {c.ret}')


def generate(target, registry):
    """Symbolically execute one function against its contract. Returns dict with obligations etc."""
    qual, ckey = target['function'], target.get('contract', target['function'])
    c = registry[ckey]
    fn, mod, cls, h, lines = find_function(qual)
    info = dict(function=qual, contract=ckey, source_hash=h, lines=list(lines), variant=target.get('variant', ''))
    ex = Exec(ckey + (f"[{target['variant']}]" if target.get('variant') else ''), fn, c, registry, mod, cls,
              consts=target.get('consts'))
    ex.finder = find_function
    ex.const_finder = module_constant
    ex.call_override = dict(target.get('calls', {}))
    env, mgrs = {}, {}
    ABDD.clear()
    del HANDLES[:]
    params = [a.arg for a in fn.args.args] + [a.arg for a in fn.args.kwonlyargs]
    cparams = dict(c.params)
    override = target.get('args', {})
    for n, v in target.get('env', {}).items():
        env[n] = make_arg(n, v)
    for n in params:
        kind = override.get(n, cparams.get(n))
        if kind is None:
            raise Unsupported(f'parameter {n} of {qual} has no kind in the contract')
        v = make_arg(n, kind)
        env[n] = v
        if isinstance(v, MgrV):
            alias = target.get('alias', {}).get(n)
            if alias:
                v.key = alias
            if v.key not in mgrs:
                mgrs[v.key] = State(v.key)
    for v in list(env.values()):
        if isinstance(v, FieldV) and v.mkey not in mgrs:
            mgrs[v.mkey] = State(v.mkey)
        if isinstance(v, ObjV):
            for av in v.attrs.values():
                if isinstance(av, MgrV) and av.key not in mgrs:
                    mgrs[av.key] = State(av.key)
    if fn.args.vararg:
        n = fn.args.vararg.arg
        kind = cparams.get(n)
        if kind is None:
            raise Unsupported('*args without a kind in the contract')
        env[n] = make_arg(n, kind)
    if fn.args.kwarg:
        n = fn.args.kwarg.arg
        if cparams.get(n) != 'opaque':
            raise Unsupported('**kwargs')
        env[n] = ObjV('opaque')
    for n_, v_ in env.items():
        if isinstance(v_, (DictV, SetV)):
            v_.origin = n_          # the caller's object (a later re-binding of the name is a different object)
    entry_mgrs = {k: s.copy() for k, s in mgrs.items()}
    entry_env = {k: (v.copy() if isinstance(v, (DictV, SetV)) else v) for k, v in env.items()}
    p0 = Path(mgrs, env, [])
    if getattr(c, 'entry_ref_empty', False):
        p0.ref_empty, p0.ref_written = True, []
    ex.entry_mgrs = entry_mgrs
    zargs = ex.z_args(c, {n: env[n] for n, _ in c.params if n in env}, p0)
    if callable(c.mgr):
        mkey = c.mgr(env)
    else:
        mkey = env[c.mgr].key if c.mgr in env and isinstance(env[c.mgr], MgrV) else (c.mgr if c.mgr in mgrs else None)
    S0 = entry_mgrs[mkey] if mkey else None
    ctx0 = Ctx(S=S0, S0=S0, a=Ctx(**zargs), mgrs=entry_mgrs, uses=c.uses, ex=ex, path=p0)
    pre = c.pre(ctx0)
    p0.pc.extend(g for _, g in pre)
    for v in env.values():
        if isinstance(v, (DictV, SetV)) and v.kkind in ('int', 'name'):
            p0.pc.append(Exec.ne_axiom(v))
            p0.pc.append(v._ne == (v._len >= 1))
            p0.pc.append(v._len >= 0)
    for extra in target.get('assume', []):
        p0.pc.append(extra(ctx0))
    ex.side_paths = []
    starts = [p0]
    if getattr(c, 'case_split', None):
        # proof hint: the function is verified once per case of the listed conditions (a complete case distinction)
        for cond in c.case_split(ctx0):
            starts = [q for p_ in starts for q in (p_.fork(cond), p_.fork(z3.Not(cond)))]
    paths = ex.run_block(strip_docstring(fn.body), starts)
    paths = paths + ex.side_paths
    npaths = dict(total=len(paths))
    for idx, p in enumerate(paths):
        if p.status in ('run', 'continue', 'break'):
            p.status, p.value = 'return', NONE()
        S1 = p.mgrs[mkey] if mkey else None
        muts = {nm: (entry_env[nm], p.env.get(nm, entry_env[nm])) for nm in c.mutates}
        if p.status == 'stopped':
            info['stopped_paths'] = info.get('stopped_paths', 0) + 1
            env_z = {('env_' + k): v.z for k, v in p.env.items() if isinstance(v, IntV)}
            sctx = Ctx(S=S1, S0=S0, S1=S1, a=ctx0.a, mgrs0=entry_mgrs, mgrs=p.mgrs, uses=c.uses, ex=ex, path=p, **env_z)
            for nm, g in (c.stop_post(sctx) if getattr(c, 'stop_post', None) else []):
                ex.oblige(p, f'prefix:{nm}@{p.line}', g, p.line)
            for exc, rs in c.raises.items():
                if rs.must:
                    ex.oblige(p, f'raises:{exc}.body-reached-only-when-not@{p.line}', Not(rs.when(ctx0)), p.line)
            continue
        if p.status == 'return' and getattr(p, 'ref_empty', False) and S1 is not None:
            # the `_ref` table was emptied on this path: its keys (the ones written since) must again be the keys of `_succ`
            u_ = z3.Int('u!rk')
            ex.oblige(p, 'ref-keys-equal-succ-keys', z3.ForAll([u_], S1.dom[u_] == z3.Or(*[u_ == k for k in p.ref_written]) if p.ref_written
                                                               else z3.Not(S1.dom[u_]), patterns=[S1.dom[u_]]))
        if p.status == 'return' and p.exc is None or p.status == 'return':
            if getattr(c, 'ghost', None) and S1 is not None:
                # ghost statement executed at normal return: assigns ghost fields only (the contract says which)
                S1 = S1.copy()
                for fld, val in c.ghost(Ctx(S=S1, S0=S0, a=ctx0.a)).items():
                    assert fld in ('ext',), fld
                    setattr(S1, fld, val)
                p.mgrs[mkey] = S1
            # frame of container parameters: one that the contract does not list under `mutates` must come back unchanged
            for nm_, ev_ in entry_env.items():
                if isinstance(ev_, (DictV, SetV)) and nm_ in params and nm_ not in c.mutates:
                    fin = p.env.get(nm_)
                    if fin is not None and type(fin) is type(ev_) and nm_ in dict(c.params) and getattr(fin, 'origin', None) == nm_ \
                            and fin.has.sort() == ev_.has.sort():
                        same_ = z3.And(fin.has == ev_.has, *( [fin.val == ev_.val] if isinstance(ev_, DictV) else []))
                        ex.oblige(p, f'frame:parameter-{nm_}-not-modified', same_)
            rz = ret_z(c, p.value, ex, p)
            pctx = Ctx(S=S1, S0=S0, S1=S1, a=ctx0.a, r=rz, mgrs0=entry_mgrs, mgrs=p.mgrs, uses=c.uses, muts=muts, ex=ex, path=p, own=True)
            for nm, g in c.post(pctx):
                ex.oblige(p, f'post:{nm}', g)
            for exc, rs in c.raises.items():
                if rs.must:
                    ex.oblige(p, f'raises:{exc}.only-normal-return-when-not', Not(rs.when(ctx0)))
        else:
            exc = p.exc
            if exc in AUTO_ASSUMED and getattr(p, 'exc_from', None):
                # propagated from a callee and outside every claim (see ASSUMPTIONS): not analysed
                ex.assumed_paths = getattr(ex, 'assumed_paths', 0) + 1
            elif exc == 'AssertionError' and 'AssertionError' not in c.raises:
                ex.oblige(p, f'unreachable:AssertionError@{p.line}', BoolVal(False), p.line)
            elif exc in c.raises or _refusal_clause(c, exc):
                # (the properties say that a bad call is refused, not with which exception class: an ordinary exception of a class
                # the contract does not name is judged by the contract's clause for refusals)
                declared = exc if exc in c.raises else _refusal_clause(c, exc)
                rs = c.raises[declared]
                if declared != exc:
                    exc = f'{declared}(raised as {exc})'
                ex.oblige(p, f'raises:{exc}.when@{p.line}', rs.when(ctx0), p.line)
                if rs.post is not None:
                    ectx = Ctx(S=S0, S0=S0, S1=S1, a=ctx0.a, mgrs0=entry_mgrs, mgrs=p.mgrs, uses=c.uses, muts=muts, ex=ex, path=p)
                    for nm, g in rs.post(ectx):
                        ex.oblige(p, f'raises:{exc}.{nm}@{p.line}', g, p.line)
                else:
                    ex.oblige(p, f'raises:{exc}.state-unchanged@{p.line}',
                              And(*[M.keep(entry_mgrs[k], p.mgrs[k]) for k in entry_mgrs]), p.line)
            else:
                ex.oblige(p, f'undeclared-raise:{exc}@{p.line}', BoolVal(False), p.line)
    info.update(paths=len(paths), obligations=len(ex.obls), calls=sorted(set(ex.calls)))
    return ex, paths, info


# ---------------------------------------------------------------------------------------------------------------
USER_EXC = ('ValueError', 'KeyError', 'TypeError', 'IndexError', 'LookupError', 'Exception', 'NotImplementedError')


def _refusal_clause(c, exc):
    """the declared clause that stands for "the call is refused" when the code raises an ordinary exception class the contract does not
    name; internal failures (AssertionError, UnboundLocalError, the reordering signal, RuntimeError) are never matched"""
    if exc not in USER_EXC:
        return None
    for cand in ('ValueError', 'KeyError', 'TypeError'):
        if cand in c.raises:
            return cand
    return None


def to_smt2(hyps, goal):
    s = Solver()
    for h in hyps:
        s.add(h)
    s.add(Not(goal))
    return s.to_smt2()


def _solve(job, fallbacks=True):
    name, smt2, timeout = job
    t0 = time.time()
    scale = max(1, timeout // TIMEOUT_MS)

    def z3_attempt(label, opts, tmo):
        s = Solver()
        for k, v in opts.items():
            s.set(k, v)
        s.set('timeout', tmo)
        s.from_string(smt2)
        r = str(s.check())
        return r, (s.reason_unknown() if r == 'unknown' else ''), label

    def cli_attempt(tool, cmd, fb):
        try:
            pr = subprocess.run(cmd, input=smt2, capture_output=True, text=True, timeout=fb / 1000 + 5)
            out = pr.stdout.strip().splitlines()
            if out and out[0].strip() == 'unsat':
                return 'unsat', '', tool
        except Exception:  # noqa
            pass
        return 'unknown', f'{tool}: no answer in its budget', tool
    try:
        # portfolio on the same SMT-LIB text, cheapest first: z3's default configuration with a short budget; E-matching only (no
        # auto configuration, no model-based instantiation: the obligations carry explicit triggers); cvc5; z3 with another seed
        # and the full budget; the z3 4.8 command-line binary
        fb = min(timeout, scale * FALLBACK_MS)
        attempts = [lambda: z3_attempt('z3-api', {}, min(timeout, scale * PRIMARY_MS)),
                    lambda: z3_attempt('z3-api[ematching]', {'auto_config': False, 'smt.mbqi': False}, min(timeout, 2 * scale * PRIMARY_MS))]
        if fallbacks:
            attempts.append(lambda: cli_attempt('cvc5', ['/usr/bin/cvc5', '--lang=smt2', f'--tlimit={fb}', '--full-saturate-quant', '-'], fb))
        attempts.append(lambda: z3_attempt('z3-api[seed]', {'smt.random_seed': 7}, timeout))
        if fallbacks:
            attempts.append(lambda: cli_attempt('z3-4.8-cli', ['/usr/bin/z3', '-smt2', f'-T:{max(1, fb // 1000)}', '-in'], fb))
        res, reason, back = 'unknown', '', 'z3-api'
        for att in attempts:
            res, reason, back = att()
            if res == 'unsat':
                break
        return name, res, back, time.time() - t0, reason
    except Exception as e:  # noqa
        return name, 'error', 'z3-api', time.time() - t0, repr(e)[:300]


def split_goal(hyps, goal, depth=0):
    """Sound and complete case split of one obligation into simpler ones (all must be discharged):
    conjunctions are split, a top-level universal quantifier is skolemised, an implication's antecedent becomes a
    hypothesis, and membership in a container after stores (`Store(h, k, True)[x]`) is split into x == k / h[x]."""
    g = goal
    if z3.is_and(g) and depth < 3 and g.num_args() <= 8:
        out = []
        for a in g.children():
            out += split_goal(hyps, a, depth + 1)
        return out
    if z3.is_quantifier(g) and g.is_forall():
        consts = [fresh(g.var_name(i).replace('!', '_') + '_sk', g.var_sort(i)) for i in range(g.num_vars())]
        body = z3.substitute_vars(g.body(), *reversed(consts))
        return split_goal(hyps, body, depth + 1)
    if z3.is_implies(g):
        ante, cons = g.arg(0), g.arg(1)
        cases = split_membership(ante)
        out = []
        for cs in cases:
            out += split_goal(list(hyps) + cs, cons, depth + 1) if depth < 6 else [(list(hyps) + cs, cons)]
        return out
    return [(list(hyps), g)]


def split_membership(ante):
    """[[facts...], ...]: disjoint cases covering `ante`"""
    if z3.is_and(ante):
        # split only the first conjunct that is a stored-membership test
        kids = ante.children()
        for i, kd in enumerate(kids):
            cs = split_membership(kd)
            if len(cs) > 1:
                rest = kids[:i] + kids[i + 1:]
                return [c + rest for c in cs]
        return [[ante]]
    if z3.is_select(ante) and z3.is_store(ante.arg(0)):
        st, x = ante.arg(0), ante.arg(1)
        base, k, v = st.arg(0), st.arg(1), st.arg(2)
        if z3.is_true(v):
            rest = split_membership(z3.Select(base, x))
            return [[x == k]] + [[x != k] + r for r in rest]
        if z3.is_false(v):
            rest = split_membership(z3.Select(base, x))
            return [[x != k] + r for r in rest]
    return [[ante]]


def discharge(obls, timeout=TIMEOUT_MS, pool=None, split=True):
    """obls: list of (name, hyps, goal, meta). Returns list of dict(name, result, backend, secs), one per obligation;
    an obligation split into parts is discharged iff every part is."""
    jobs, out, parts_of = [], {}, {}
    order = []
    for idx, (name, hyps, goal, meta) in enumerate(obls):
        order.append(idx)
        if meta.get('trivial'):
            out[idx] = dict(name=name, result='unsat', backend='trivial', secs=0.0, parts=0)
            continue
        parts = split_goal(hyps, goal) if split else [(hyps, goal)]
        parts_of[idx] = len(parts)
        out[idx] = dict(name=name, result='unsat', backend=set(), secs=0.0, parts=len(parts), reason='')
        for hp, gp in parts:
            jobs.append(((idx, name), to_smt2(hp, gp), timeout))
    own = pool is None
    pool = pool or cf.ProcessPoolExecutor(max_workers=NPROC)
    try:
        for (idx, name), res, back, secs, reason in pool.map(_solve, jobs, chunksize=1):
            o = out[idx]
            o['secs'] = round(o['secs'] + secs, 3)
            o['backend'].add(back)
            if res != 'unsat':
                o['result'] = res if o['result'] == 'unsat' else o['result']
                o['reason'] = reason
    finally:
        if own:
            pool.shutdown()
    res = []
    for idx in order:
        o = out[idx]
        if isinstance(o['backend'], set):
            o['backend'] = '+'.join(sorted(o['backend'])) or 'z3-api'
        res.append(o)
    return res


def reachable_paths(paths, timeout=3000):
    """vacuity guard (b): how many paths have a path condition that is *proved* contradictory"""
    dead = 0
    for p in paths:
        s = Solver()
        s.set('timeout', timeout)
        s.add(*p.pc)
        if s.check() == unsat:
            dead += 1
    return dead


def aggregate(name):
    """stable obligation name: function#clause without line numbers / path indices"""
    import re
    return re.sub(r'@\d+', '', name)


# ---------------------------------------------------------------------------------------------------------------
# per-property orchestration
ENCODING_ASSUMPTIONS = [
    'Python integers are mathematical integers (true in Python); `None` in optional ints is tracked by a separate flag',
    'dict/set are finite maps/sets modelled as has/val arrays; distinct attributes never alias',
    'attribute lookup on a manager resolves to the methods in the repository (no monkey-patching)',
    'recursion depth is unbounded (no RecursionError); termination is not proved (partial correctness)',
    'KeyError/IndexError/TypeError(None) on subscripts and arithmetic are obligations, not assumptions',
    "RuntimeError('full: reached max_nodes') is never raised: max_nodes (sys.maxsize by default) is never reached",
    'logging and warnings calls are no-ops; exception messages (f-strings) are not evaluated',
    'frame rule for ghost families: only find_or_add, _init_terminal/add_var and collect_garbage write node fields; '
    'they are verified against all families, so a caller may reason with the families it names',
]


def _gen_job(args):
    """worker: generate obligations for one target and return them serialised"""
    target, modname = args
    import importlib
    C = importlib.import_module(modname)
    C.install()
    t0 = time.time()
    target = materialise(target)
    try:
        _fn, _mod, _cls, h0, lines0 = find_function(target['function'])
    except Exception:  # noqa
        h0, lines0 = None, None
    info0 = dict(function=target['function'], source_hash=h0, lines=list(lines0) if lines0 else None)
    try:
        ex, paths, info = generate(target, C.REG)
    except Unsupported as e:
        return dict(target=target_id(target), status='unsupported', reason=str(e), info=info0)
    except Exception:  # noqa
        return dict(target=target_id(target), status='error', reason=traceback.format_exc()[-2000:], info=info0)
    jobs = []
    for name, hyps, goal, meta in ex.obls:
        if meta.get('trivial'):
            jobs.append(dict(name=name, trivial=True, parts=[]))
            continue
        parts = [to_smt2(hp, gp) for hp, gp in split_goal(hyps, goal)]
        jobs.append(dict(name=name, trivial=False, parts=parts, line=meta.get('line')))
    # reachability cover (vacuity guard b): at least one normal-return path must not be provably dead
    live = []
    for p in paths:
        if p.status in ('return', 'run', 'stopped'):
            live.append(to_smt2(p.pc, BoolVal(False)))
    contracts_used = sorted(set(ex.calls))
    assumed = sorted({c for c in contracts_used if C.REG[c].assumed})
    return dict(target=target_id(target), status='ok', info=info, jobs=jobs, live=live, gen_secs=round(time.time() - t0, 2),
                assumed=assumed, builtins=sorted(ex.assumed_builtins), assumed_paths=getattr(ex, 'assumed_paths', 0),
                notes=[C.REG[c].note for c in contracts_used if C.REG[c].note])


def target_id(t):
    return t.get('contract', t['function']) + (f"[{t['variant']}]" if t.get('variant') else '')


def verify_targets(targets, modname='vlib.vc.contracts_all', timeout=TIMEOUT_MS, stop_after_failures=6):
    """Returns list of per-target results with per-obligation verdicts."""
    results = []
    with cf.ProcessPoolExecutor(max_workers=NPROC) as pool:
        gens = list(pool.map(_gen_job, [(t, modname) for t in targets], chunksize=1))
        # flatten solver jobs
        flat = []
        for gi, g in enumerate(gens):
            if g['status'] != 'ok':
                continue
            for oi, ob in enumerate(g['jobs']):
                for pi, smt in enumerate(ob['parts']):
                    flat.append(((gi, oi, pi), smt, timeout))
            for li, smt in enumerate(g['live']):
                flat.append(((gi, 'live', li), smt, 1500))
        verdict = {}
        for key, res, back, secs, reason in pool.map(_solve_keyed, flat, chunksize=4):
            verdict[key] = (res, back, secs, reason)
    for gi, g in enumerate(gens):
        r = dict(target=g['target'], status=g['status'], info=g.get('info', {}), reason=g.get('reason', ''),
                 assumed=g.get('assumed', []), builtins=g.get('builtins', []), notes=g.get('notes', []), obligations=[])
        if g['status'] == 'ok':
            for oi, ob in enumerate(g['jobs']):
                if ob['trivial']:
                    r['obligations'].append(dict(name=ob['name'], result='unsat', backend='trivial', secs=0.0))
                    continue
                rs = [verdict[(gi, oi, pi)] for pi in range(len(ob['parts']))]
                ok = all(x[0] == 'unsat' for x in rs)
                r['obligations'].append(dict(name=ob['name'], result='unsat' if ok else next(x[0] for x in rs if x[0] != 'unsat'),
                                             backend='+'.join(sorted({x[1] for x in rs})), secs=round(sum(x[2] for x in rs), 3),
                                             parts=len(rs), line=ob.get('line'),
                                             reason=next((x[3] for x in rs if x[0] != 'unsat'), '')))
            lives = [verdict[(gi, 'live', li)][0] for li in range(len(g['live']))]
            r['return_paths'] = len(lives)
            r['dead_return_paths'] = sum(1 for x in lives if x == 'unsat')
            r['gen_secs'] = g['gen_secs']
        results.append(r)
    return results


def _solve_keyed(job):
    key, smt, timeout = job
    name, res, back, secs, reason = _solve((str(key), smt, timeout), fallbacks=(key[1] != 'live'))
    return key, res, back, secs, reason


def materialise(target):
    """constants named in a target (JSON-friendly spec -> symbolic values)"""
    t = dict(target)
    if 'consts_spec' in t:
        t['consts'] = {k: IntV(z3.IntVal(v)) for k, v in t.pop('consts_spec').items()}
    return t


def load_baseline():
    p = os.path.join(ROOT, 'vlib', 'vc', 'baseline.json')
    return json.load(open(p)) if os.path.exists(p) else {}


def summarise(results):
    """aggregate per target: obligation name (without line numbers) -> (total, discharged)"""
    out = {}
    for r in results:
        agg = {}
        for o in r.get('obligations', []):
            a = agg.setdefault(aggregate(o['name']), [0, 0])
            a[0] += 1
            a[1] += o['result'] == 'unsat'
        out[r['target']] = dict(status=r['status'], source_hash=r.get('info', {}).get('source_hash'), obligations=agg,
                                reason=r.get('reason', ''))
    return out


def run_property(pid, proof_cfg, tier, seed):
    from vlib.vc import contracts_all as CA
    CA.install()
    targets = list(CA.TARGETS.get(pid, []))
    t0 = time.time()
    # thorough tier: three times the solver budget per part (fewer undecided obligations on a loaded machine)
    results = verify_targets(targets, timeout=TIMEOUT_MS * (3 if tier == 'thorough' else 1))
    base = load_baseline()
    fails, crashes, undecided, samples = [], [], [], []
    n_obl = n_dis = 0
    backends, solver_secs = {}, 0.0
    functions = []
    trusted = set()
    for r in results:
        tid = r['target']
        b = base.get(tid, {})
        functions.append(dict(function=r['info'].get('function'), contract=tid, source_hash=r['info'].get('source_hash'),
                              lines=r['info'].get('lines'), status=r['status']))
        for a in r.get('assumed', []):
            trusted.add(f'assumed contract (bounded-checked): {a}')
        for a in r.get('builtins', []):
            trusted.add(f'builtin/idiom semantics assumed: {a}')
        for nt in r.get('notes', []):
            trusted.add(nt)
        if r['status'] == 'unsupported':
            undecided.append(dict(target=tid, reason='out of subset: ' + r['reason']))
            if b.get('status') == 'ok' and b.get('source_hash') == r['info'].get('source_hash'):
                crashes.append(dict(fn='proof-layer', tb=f'{tid}: engine rejects unchanged source that it accepted at baseline: {r["reason"]}'))
            continue
        if r['status'] == 'error':
            if b.get('status') == 'ok' and b.get('source_hash') != r['info'].get('source_hash'):
                # the function changed and the generator (or a contract that names its locals) cannot follow: undecided, not a fault
                undecided.append(dict(target=tid, reason='generator error on changed source: ' + r['reason'][-300:]))
            else:
                crashes.append(dict(fn='proof-layer', tb=f'{tid}: {r["reason"]}'))
            continue
        if not r['obligations']:
            crashes.append(dict(fn='vacuity', tb=f'{tid}: zero obligations generated'))
        if r.get('return_paths', 0) and r['dead_return_paths'] == r['return_paths']:
            crashes.append(dict(fn='vacuity', tb=f'{tid}: every return path is provably unreachable (contradictory precondition?)'))
        changed = b.get('source_hash') is not None and b.get('source_hash') != r['info'].get('source_hash')
        for o in r['obligations']:
            n_obl += 1
            solver_secs += o['secs']
            for be in o['backend'].split('+'):
                backends[be] = backends.get(be, 0) + 1
            if o['result'] == 'unsat':
                n_dis += 1
                if len(samples) < 5 and o['backend'] != 'trivial':
                    samples.append(dict(obligation=o['name'], backend=o['backend'], secs=o['secs']))
                continue
            agg = aggregate(o['name'])
            was = b.get('obligations', {}).get(agg)
            rec = dict(target=tid, obligation=o['name'], result=o['result'], reason=o.get('reason', ''), line=o.get('line'))
            if (changed or not b) and (was is None or was[0] == was[1]) and b:
                # discharged on the unchanged tree, source of the function changed, now undischarged
                fails.append(dict(site=f'obligation:{agg}', detail=f'obligation {o["name"]} was discharged for the baseline source '
                                  f'(hash {b.get("source_hash")}) and is no longer discharged for the current source '
                                  f'(hash {r["info"].get("source_hash")}, lines {r["info"].get("lines")}); solver: {o["result"]} {o.get("reason", "")}',
                                  obligation=o['name'], target=tid, solver_output=f'{o["result"]} {o.get("reason", "")}', no_input=True,
                                  function=r['info'].get('function')))
            else:
                undecided.append(dict(**rec, note='source unchanged since baseline: solver instability, not a violation'
                                      if b and not changed else 'no baseline for this target'))
    trusted.update('encoding: ' + a for a in ENCODING_ASSUMPTIONS)
    cov = dict(functions_under_contract=functions, obligations=n_obl, discharged=n_dis, backends=backends,
               solver_seconds=round(solver_secs, 1), proof_wall_s=round(time.time() - t0, 1), undecided=undecided[:40],
               samples=samples, trusted_base=sorted(trusted),
               checker_cmd=f'bin/check {pid} --tier {tier}  (proof layer: vlib/vc, z3 {z3.get_version_string()} + cvc5/z3 CLI fall-backs)')
    return dict(coverage=cov, fails=fails, crashes=crashes, assumptions=[])


def replay_obligation(rec):
    """bin/replay for a proof-layer record: re-verify the target, exit 1 if the obligation is still undischarged."""
    from vlib.vc import contracts_all as CA
    CA.install()
    tid = rec['target']
    for pid, ts in CA.TARGETS.items():
        for t in ts:
            if target_id(t) == tid:
                res = verify_targets([t])[0]
                want = aggregate(rec['obligation'])
                bad = [o for o in res.get('obligations', []) if aggregate(o['name']) == want and o['result'] != 'unsat']
                if res['status'] != 'ok':
                    print(f'undecided: {res["status"]} {res.get("reason", "")}')
                    return 2
                if bad:
                    print(f'REPRODUCED property={rec["property"]} obligation {want} is not discharged on this tree: '
                          f'{bad[0]["result"]} {bad[0].get("reason", "")}')
                    return 1
                print('not reproduced: the obligation is discharged on this tree')
                return 0
    print('unknown target', tid)
    return 3
