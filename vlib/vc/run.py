"""Verification driver: extract the real functions with `ast` (every run), generate obligations against the
sidecar contracts, discharge them with z3 (cvc5 / z3 CLI as fall-backs) in a process pool, apply the vacuity
guards, and report per property.

Terminology (DESIGN.md): an obligation is *discharged* only if a solver returned `unsat` for
hypotheses /\\ not(goal). `unknown`/timeouts are *undecided*, never violations.
"""
import ast
import concurrent.futures as cf
import hashlib
import json
import os
import subprocess
import sys
import tempfile
import time
import traceback

import z3
from z3 import And, BoolVal, Not, Solver, unsat, sat

from vlib.vc import symex
from vlib.vc.symex import *  # noqa
from vlib.vc.model import *  # noqa
from vlib.vc import model as M

ROOT = os.path.dirname(os.path.dirname(os.path.dirname(os.path.abspath(__file__))))
REPO = os.environ.get('VERIF_REPO', '/repo')
NPROC = int(os.environ.get('VERIF_NPROC', '16'))
TIMEOUT_MS = int(os.environ.get('VERIF_SMT_TIMEOUT_MS', '20000'))

_ASTS = {}
# RuntimeError('full: reached max_nodes') can leave find_or_add half way; max_nodes defaults to sys.maxsize and the
# claims assume it is never reached. Paths on which a *callee* raised it are not analysed.
AUTO_ASSUMED = {'RuntimeError'}


def module_ast(mod):
    if mod not in _ASTS:
        path = os.path.join(REPO, *mod.split('.')) + '.py'
        src = open(path).read()
        _ASTS[mod] = (ast.parse(src), src, path)
    return _ASTS[mod]


def find_function(qual):
    """qual like 'dd.bdd.BDD._ite', 'dd.bdd.rename', 'dd.bdd._try_to_reorder._wrapper'. Returns
    (node, module, class-or-None, source-hash, (first line, last line))."""
    parts = qual.split('.')
    for cut in range(len(parts) - 1, 0, -1):
        mod = '.'.join(parts[:cut])
        path = os.path.join(REPO, *mod.split('.')) + '.py'
        if os.path.exists(path):
            break
    else:
        raise KeyError(qual)
    tree, src, path = module_ast(mod)
    body = tree.body
    node = None
    cls = None
    for part in parts[cut:]:
        for n in body:
            if isinstance(n, (ast.FunctionDef, ast.ClassDef)) and n.name == part:
                # several definitions with one name (typing.overload stubs): take the last, the real one
                node = n
        if node is None or node.name != part:
            raise KeyError(qual)
        if isinstance(node, ast.ClassDef):
            cls = f'{mod}.{node.name}'
        body = node.body
    seg = ast.get_source_segment(src, node)
    h = hashlib.sha256(ast.dump(node, include_attributes=False).encode()).hexdigest()[:16]
    return node, mod, cls, h, (node.lineno, node.end_lineno)


def load_opsets():
    """operator symbol sets, read from dd/_abc.py with ast (never imported)"""
    tree, src, _ = module_ast('dd._abc')
    lits = {}
    for n in tree.body:
        if isinstance(n, ast.AnnAssign) and isinstance(n.target, ast.Name) and n.value is not None:
            v = n.value
            if isinstance(v, ast.Subscript) and ast.unparse(v.value).endswith('Literal'):
                elts = v.slice.elts if isinstance(v.slice, ast.Tuple) else [v.slice]
                if all(isinstance(x, ast.Constant) and isinstance(x.value, str) for x in elts):
                    lits[n.target.id] = [x.value for x in elts]
    out = dict(unary=set(lits['_UnaryOperatorSymbol']), binary=set(lits['_BinaryOperatorSymbol']),
               ternary=set(lits['_TernaryOperatorSymbol']))
    out['all'] = out['unary'] | out['binary'] | out['ternary']
    return out


def strip_docstring(body):
    if body and isinstance(body[0], ast.Expr) and isinstance(body[0].value, ast.Constant) and isinstance(body[0].value.value, str):
        return body[1:]
    return body


# ---------------------------------------------------------------------------------------------------------------
def make_arg(name, kind):
    """initial symbolic value for a parameter kind"""
    if kind == 'mgr':
        return MgrV(name)
    if kind.startswith('mgr:'):
        return MgrV(name, kind[4:])
    if kind == 'int':
        return IntV(z3.Int(name + '0'))
    if kind == 'optint':
        return IntV(z3.Int(name + '0'), z3.Bool(name + '0_none'))
    if kind in ('bool', 'bool=False'):
        return BoolV(z3.Bool(name + '0'))
    if kind == 'name':
        return NameV(z3.Const(name + '0', M.Name))
    if kind.startswith('op:'):
        return StrV(kind[3:])
    if kind == 'list:int':
        return ListV(z3.Array(name + '_arr', I, I), z3.Int(name + '_n'))
    if kind == 'list:name':
        return ListV(z3.Array(name + '_arr', I, M.Name), z3.Int(name + '_n'), 'name')
    if kind.startswith('dict:'):
        k, v = kind[5:].split('->')
        ks = {'int': I, 'name': M.Name, 'fork': Fork}[k]
        vs = {'int': I, 'bool': B, 'name': M.Name}[v]
        return DictV(z3.Array(name + '_has', ks, B), z3.Array(name + '_val', ks, vs), v, k)
    if kind.startswith('set:'):
        k = kind[4:]
        ks = {'int': I, 'name': M.Name}[k]
        return SetV(z3.Array(name + '_has', ks, B), k)
    if kind == 'opaque':
        return ObjV('opaque')
    if kind.startswith('callable:'):
        return ObjV('callable', dict(qual=kind[9:]))
    raise KeyError(kind)


def ret_z(c, v, ex, p):
    if c.ret == 'none':
        return None
    if c.ret == 'int':
        return zint(v, ex, p, ' (return value)')
    if c.ret == 'optint':
        if not isinstance(v, IntV):
            raise Unsupported('return kind')
        return (v.z, is_none(v))
    if c.ret == 'bool':
        return truth(v) if isinstance(v, (BoolV,)) else truth(v)
    if c.ret in ('pair', 'triple'):
        if not isinstance(v, TupV):
            raise Unsupported('return kind')
        return tuple((If(is_none(x), 0, x.z) if isinstance(x, IntV) else zint(x, ex, p)) for x in v.items)
    if c.ret == 'name':
        if not isinstance(v, NameV):
            raise Unsupported('return kind')
        return v.z
    if c.ret.startswith(('dict:', 'set:', 'list:')):
        if not isinstance(v, (DictV, SetV, ListV)):
            raise Unsupported('return kind')
        return v
    raise Unsupported(f'ret {c.ret}')


def generate(target, registry):
    """Symbolically execute one function against its contract. Returns dict with obligations etc."""
    qual, ckey = target['function'], target.get('contract', target['function'])
    c = registry[ckey]
    fn, mod, cls, h, lines = find_function(qual)
    info = dict(function=qual, contract=ckey, source_hash=h, lines=list(lines), variant=target.get('variant', ''))
    ex = Exec(ckey + (f"[{target['variant']}]" if target.get('variant') else ''), fn, c, registry, mod, cls,
              consts=target.get('consts'))
    env, mgrs = {}, {}
    params = [a.arg for a in fn.args.args] + [a.arg for a in fn.args.kwonlyargs]
    cparams = dict(c.params)
    override = target.get('args', {})
    for n in params:
        kind = override.get(n, cparams.get(n))
        if kind is None:
            raise Unsupported(f'parameter {n} of {qual} has no kind in the contract')
        v = make_arg(n, kind)
        env[n] = v
        if isinstance(v, MgrV):
            alias = target.get('alias', {}).get(n)
            if alias:
                v.key = alias
            if v.key not in mgrs:
                mgrs[v.key] = State(v.key)
    if fn.args.vararg:
        n = fn.args.vararg.arg
        kind = cparams.get(n)
        if kind is None:
            raise Unsupported('*args without a kind in the contract')
        env[n] = make_arg(n, kind)
    if fn.args.kwarg:
        n = fn.args.kwarg.arg
        if cparams.get(n) != 'opaque':
            raise Unsupported('**kwargs')
        env[n] = ObjV('opaque')
    entry_mgrs = {k: s.copy() for k, s in mgrs.items()}
    entry_env = {k: (v.copy() if isinstance(v, (DictV, SetV)) else v) for k, v in env.items()}
    p0 = Path(mgrs, env, [])
    ex.entry_mgrs = entry_mgrs
    zargs = ex.z_args(c, {n: env[n] for n, _ in c.params if n in env}, p0)
    mkey = env[c.mgr].key if c.mgr in env and isinstance(env[c.mgr], MgrV) else None
    S0 = entry_mgrs[mkey] if mkey else None
    ctx0 = Ctx(S=S0, S0=S0, a=Ctx(**zargs), mgrs=entry_mgrs, uses=c.uses, ex=ex, path=p0)
    pre = c.pre(ctx0)
    p0.pc.extend(g for _, g in pre)
    for extra in target.get('assume', []):
        p0.pc.append(extra(ctx0))
    ex.side_paths = []
    paths = ex.run_block(strip_docstring(fn.body), [p0])
    paths = paths + ex.side_paths
    npaths = dict(total=len(paths))
    for idx, p in enumerate(paths):
        if p.status in ('run', 'continue', 'break'):
            p.status, p.value = 'return', NONE()
        S1 = p.mgrs[mkey] if mkey else None
        muts = {nm: (entry_env[nm], p.env.get(nm, entry_env[nm])) for nm in c.mutates}
        if p.status == 'return' and p.exc is None or p.status == 'return':
            rz = ret_z(c, p.value, ex, p)
            pctx = Ctx(S=S1, S0=S0, S1=S1, a=ctx0.a, r=rz, mgrs0=entry_mgrs, mgrs=p.mgrs, uses=c.uses, muts=muts, ex=ex, path=p)
            for nm, g in c.post(pctx):
                ex.oblige(p, f'post:{nm}', g)
            for exc, rs in c.raises.items():
                if rs.must:
                    ex.oblige(p, f'raises:{exc}.only-normal-return-when-not', Not(rs.when(ctx0)))
        else:
            exc = p.exc
            if exc in AUTO_ASSUMED and getattr(p, 'exc_from', None):
                # propagated from a callee and outside every claim (see ASSUMPTIONS): not analysed
                ex.assumed_paths = getattr(ex, 'assumed_paths', 0) + 1
            elif exc == 'AssertionError':
                ex.oblige(p, f'unreachable:AssertionError@{p.line}', BoolVal(False), p.line)
            elif exc in c.raises:
                rs = c.raises[exc]
                ex.oblige(p, f'raises:{exc}.when@{p.line}', rs.when(ctx0), p.line)
                if rs.post is not None:
                    ectx = Ctx(S=S0, S0=S0, S1=S1, a=ctx0.a, mgrs0=entry_mgrs, mgrs=p.mgrs, uses=c.uses, muts=muts, ex=ex, path=p)
                    for nm, g in rs.post(ectx):
                        ex.oblige(p, f'raises:{exc}.{nm}@{p.line}', g, p.line)
                else:
                    ex.oblige(p, f'raises:{exc}.state-unchanged@{p.line}',
                              And(*[M.keep(entry_mgrs[k], p.mgrs[k]) for k in entry_mgrs]), p.line)
            else:
                ex.oblige(p, f'undeclared-raise:{exc}@{p.line}', BoolVal(False), p.line)
    info.update(paths=len(paths), obligations=len(ex.obls), calls=sorted(set(ex.calls)))
    return ex, paths, info


# ---------------------------------------------------------------------------------------------------------------
def to_smt2(hyps, goal):
    s = Solver()
    for h in hyps:
        s.add(h)
    s.add(Not(goal))
    return s.to_smt2()


def _solve(job):
    name, smt2, timeout = job
    t0 = time.time()
    try:
        s = Solver()
        s.set('timeout', timeout)
        s.from_string(smt2)
        r = s.check()
        res = str(r)
        reason = s.reason_unknown() if res == 'unknown' else ''
        back = 'z3-api'
        if res != 'unsat':
            # fall-backs: cvc5 and the z3 CLI (different version) on the same SMT-LIB text
            for tool, cmd in (('cvc5', ['/usr/bin/cvc5', '--lang=smt2', f'--tlimit={timeout}', '--full-saturate-quant']),
                              ('z3-4.8-cli', ['/usr/bin/z3', '-smt2', f'-T:{max(1, timeout // 1000)}', '-in'])):
                try:
                    pr = subprocess.run(cmd + ([] if tool != 'cvc5' else ['-']), input=smt2, capture_output=True, text=True,
                                        timeout=timeout / 1000 + 5)
                    out = pr.stdout.strip().splitlines()
                    if out and out[0].strip() == 'unsat':
                        res, back = 'unsat', tool
                        break
                except Exception:  # noqa
                    pass
        return name, res, back, time.time() - t0, reason
    except Exception as e:  # noqa
        return name, 'error', 'z3-api', time.time() - t0, repr(e)[:300]


def split_goal(hyps, goal, depth=0):
    """Sound and complete case split of one obligation into simpler ones (all must be discharged):
    conjunctions are split, a top-level universal quantifier is skolemised, an implication's antecedent becomes a
    hypothesis, and membership in a container after stores (`Store(h, k, True)[x]`) is split into x == k / h[x]."""
    g = goal
    if z3.is_and(g) and depth < 3 and g.num_args() <= 8:
        out = []
        for a in g.children():
            out += split_goal(hyps, a, depth + 1)
        return out
    if z3.is_quantifier(g) and g.is_forall():
        consts = [fresh(g.var_name(i).replace('!', '_') + '_sk', g.var_sort(i)) for i in range(g.num_vars())]
        body = z3.substitute_vars(g.body(), *reversed(consts))
        return split_goal(hyps, body, depth + 1)
    if z3.is_implies(g):
        ante, cons = g.arg(0), g.arg(1)
        cases = split_membership(ante)
        out = []
        for cs in cases:
            out += split_goal(list(hyps) + cs, cons, depth + 1) if depth < 6 else [(list(hyps) + cs, cons)]
        return out
    return [(list(hyps), g)]


def split_membership(ante):
    """[[facts...], ...]: disjoint cases covering `ante`"""
    if z3.is_and(ante):
        # split only the first conjunct that is a stored-membership test
        kids = ante.children()
        for i, kd in enumerate(kids):
            cs = split_membership(kd)
            if len(cs) > 1:
                rest = kids[:i] + kids[i + 1:]
                return [c + rest for c in cs]
        return [[ante]]
    if z3.is_select(ante) and z3.is_store(ante.arg(0)):
        st, x = ante.arg(0), ante.arg(1)
        base, k, v = st.arg(0), st.arg(1), st.arg(2)
        if z3.is_true(v):
            rest = split_membership(z3.Select(base, x))
            return [[x == k]] + [[x != k] + r for r in rest]
        if z3.is_false(v):
            rest = split_membership(z3.Select(base, x))
            return [[x != k] + r for r in rest]
    return [[ante]]


def discharge(obls, timeout=TIMEOUT_MS, pool=None, split=True):
    """obls: list of (name, hyps, goal, meta). Returns list of dict(name, result, backend, secs), one per obligation;
    an obligation split into parts is discharged iff every part is."""
    jobs, out, parts_of = [], {}, {}
    order = []
    for idx, (name, hyps, goal, meta) in enumerate(obls):
        order.append(idx)
        if meta.get('trivial'):
            out[idx] = dict(name=name, result='unsat', backend='trivial', secs=0.0, parts=0)
            continue
        parts = split_goal(hyps, goal) if split else [(hyps, goal)]
        parts_of[idx] = len(parts)
        out[idx] = dict(name=name, result='unsat', backend=set(), secs=0.0, parts=len(parts), reason='')
        for hp, gp in parts:
            jobs.append(((idx, name), to_smt2(hp, gp), timeout))
    own = pool is None
    pool = pool or cf.ProcessPoolExecutor(max_workers=NPROC)
    try:
        for (idx, name), res, back, secs, reason in pool.map(_solve, jobs, chunksize=1):
            o = out[idx]
            o['secs'] = round(o['secs'] + secs, 3)
            o['backend'].add(back)
            if res != 'unsat':
                o['result'] = res if o['result'] == 'unsat' else o['result']
                o['reason'] = reason
    finally:
        if own:
            pool.shutdown()
    res = []
    for idx in order:
        o = out[idx]
        if isinstance(o['backend'], set):
            o['backend'] = '+'.join(sorted(o['backend'])) or 'z3-api'
        res.append(o)
    return res


def reachable_paths(paths, timeout=3000):
    """vacuity guard (b): how many paths have a path condition that is *proved* contradictory"""
    dead = 0
    for p in paths:
        s = Solver()
        s.set('timeout', timeout)
        s.add(*p.pc)
        if s.check() == unsat:
            dead += 1
    return dead


def aggregate(name):
    """stable obligation name: function#clause without line numbers / path indices"""
    import re
    return re.sub(r'@\d+', '', name)
