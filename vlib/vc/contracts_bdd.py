"""Sidecar contracts for dd/bdd.py (DESIGN.md Appendix A). Derived from the code and its call sites; the
top-level postconditions come from the property statements. Nothing here is executed by the repository.

A contract clause is a function of a context `c`:
  c.S0 / c.S1  entry / exit state of the primary manager (c.S = the state the clause is evaluated in)
  c.a          arguments as z3 terms (containers as symbolic values)
  c.r          return value (z3 term or tuple)
  c.uses       ghost families in force for the function under verification
  c.muts       {name: (container at entry, container at exit)} for mutated container arguments
"""
import ast
from z3 import And, BoolVal, Exists, ForAll, If, Implies, Int, IntVal, MultiPattern, Not, Or, Store

from vlib.vc.model import *  # noqa
from vlib.vc import model as M
from vlib.vc.symex import Contract, Raise, DictV, ListV, SetV, IntV

REG = {}
TARGETS = {}      # property id -> list of targets


def reg(c):
    REG[c.name] = c
    return c


def wf(S, uses):
    return list(WF(S, uses).items())


def NR(post=None):
    """may raise the internal signal only if reordering requests are enabled"""
    return Raise(when=lambda c: c.S0.lastlen >= 0, post=post, must=False)


def nr_post(uses_extra=()):
    def post(c):
        return wf(c.S1, c.uses) + [('Ext', Ext(c.S0, c.S1, c.uses)), ('flags', And(c.S1.lastlen == c.S0.lastlen, c.S1.ctx == c.S0.ctx))]
    return post


k_, k2_, l_, x_ = Int('k!b'), Int('k2!b'), Int('l!b'), Int('x!b')

# ---------------------------------------------------------------------------------------------------------------
# reordering plumbing
reg(Contract('dd.bdd._request_reordering', [('bdd', 'mgr')], mgr='bdd',
             pre=lambda c: [], post=lambda c: [], ret='none',
             raises={'_NeedsReordering': NR()}))

# ---------------------------------------------------------------------------------------------------------------
# node table
reg(Contract('dd.bdd.BDD.succ', [('self', 'mgr'), ('u', 'int')],
             pre=lambda c: [('ref', isref(c.S, c.a.u))],
             post=lambda c: [('fork', And(c.r[0] == lv(c.S0, c.a.u), c.r[1] == c.S0.lo[absz(c.a.u)], c.r[2] == c.S0.hi[absz(c.a.u)]))],
             ret='triple'))

reg(Contract('dd.bdd.BDD.incref', [('self', 'mgr'), ('u', 'int')],
             pre=lambda c: [('ref', isref(c.S, c.a.u))],
             post=lambda c: [('count', c.S1.ref == Store(c.S0.ref, absz(c.a.u), c.S0.ref[absz(c.a.u)] + 1))],
             modifies=['ref'], ret='none'))

reg(Contract('dd.bdd.BDD.decref', [('self', 'mgr'), ('u', 'int')],
             pre=lambda c: [('ref', isref(c.S, c.a.u))],
             post=lambda c: [('count', c.S1.ref == If(c.S0.ref[absz(c.a.u)] <= 0, c.S0.ref,
                                                     Store(c.S0.ref, absz(c.a.u), c.S0.ref[absz(c.a.u)] - 1)))],
             modifies=['ref'], ret='none'))

reg(Contract('dd.bdd.BDD.ref', [('self', 'mgr'), ('u', 'int')],
             pre=lambda c: [('ref', isref(c.S, c.a.u))],
             post=lambda c: [('count', c.r == c.S0.ref[absz(c.a.u)])], ret='int'))


def topcof_post(c):
    S, u_, i_ = c.S0, c.a.u, c.a.i
    r0, r1 = c.r
    out = [('shannon', semr(S, u_) == If(A[i_], semr(S, r1), semr(S, r0))),
           ('refs', And(isref(S, r0), isref(S, r1))),
           ('deeper', And(lv(S, r0) > i_, lv(S, r1) > i_)),
           ('not-above', And(lv(S, r0) >= lv(S, u_), lv(S, r1) >= lv(S, u_))),
           ('structure', If(And(lv(S, u_) == i_, absz(u_) != 1),
                            And(r0 == If(u_ > 0, S.lo[absz(u_)], -S.lo[absz(u_)]), r1 == If(u_ > 0, S.hi[absz(u_)], -S.hi[absz(u_)])),
                            And(r0 == u_, r1 == u_)))]
    for fam, arr in (('sem2', A2), ('sem3', A3)):
        if c.uses is None or fam in c.uses:
            out.append((f'shannon[{fam}]', semr(S, u_, fam) == If(arr[i_], semr(S, r1, fam), semr(S, r0, fam))))
    if c.uses is None or 'sem1' in c.uses:
        out.append(('shannon[ones]', semr(S, u_, 'sem1') == semr(S, r1, 'sem1')))
    return out


reg(Contract('dd.bdd.BDD._top_cofactor', [('self', 'mgr'), ('u', 'int'), ('i', 'int')],
             pre=lambda c: wf(c.S, c.uses) + [('ref', isref(c.S, c.a.u)),
                                              ('level', And(c.a.i < c.S.nvars, c.a.i <= lv(c.S, c.a.u)))],
             post=topcof_post, ret='pair', uses=None))

reg(Contract('dd.bdd.BDD._next_free_int', [('self', 'mgr'), ('start', 'int')],
             pre=lambda c: [],
             post=lambda c: [('free', And(c.r >= c.a.start, Not(c.S0.dom[c.r]))),
                             ('least', ForAll([k_], Implies(And(c.a.start <= k_, k_ < c.r), c.S0.dom[k_]), patterns=[c.S0.dom[k_]]))],
             ret='int',
             loops={0: dict(inv=lambda c: [('scanned', ForAll([k_], Implies(And(c.lo <= k_, k_ < c.idx), c.mgrs['self'].dom[k_]),
                                                             patterns=[c.mgrs['self'].dom[k_]]))])},
             raises={'ValueError': Raise(when=lambda c: c.a.start < 1, must=True),
                     'RuntimeError': Raise(when=lambda c: BoolVal(True))}))


def foa_valid(S, a):
    return And(0 <= a.i, a.i < S.nvars, isref(S, a.v), isref(S, a.w))


def foa_ordered(S, a):
    return And(lv(S, a.v) > a.i, lv(S, a.w) > a.i)


def foa_post(c):
    S0, S1, a, r = c.S0, c.S1, c.a, c.r
    out = wf(S1, c.uses) + [
        ('Ext', Ext(S0, S1, c.uses)),
        ('denotation', And(isref(S1, r), semr(S1, r) == If(A[a.i], semr(S0, a.w), semr(S0, a.v)))),
        ('level', lv(S1, r) >= a.i),
        ('level-exact', Implies(a.v != a.w, lv(S1, r) == a.i)),
        ('cache-kept', And(S1.ch == S0.ch, S1.cv == S0.cv)),
        ('flags-kept', And(S1.lastlen == S0.lastlen, S1.ctx == S0.ctx, S1.nvars == S0.nvars)),
        ('order-kept', M.keep(S0, S1, list(M.ORDER_FIELDS))),
        ('size', And(S1.nsucc >= S0.nsucc, S1.nsucc <= S0.nsucc + 1)),
    ]
    for fam, arr in (('sem2', A2), ('sem3', A3)):
        if c.uses is None or fam in c.uses:
            out.append((f'denotation[{fam}]', semr(S1, r, fam) == If(arr[a.i], semr(S0, a.w, fam), semr(S0, a.v, fam))))
    if c.uses is None or 'sem1' in c.uses:
        out.append(('denotation[ones]', semr(S1, r, 'sem1') == semr(S0, a.w, 'sem1')))
    if c.uses is None or 'qe' in c.uses:
        out.append(('denotation[qe]', Implies(Not(Q[a.i]), And(
            qexr(S1, r) == If(A[a.i], qexr(S0, a.w), qexr(S0, a.v)),
            qfar(S1, r) == If(A[a.i], qfar(S0, a.w), qfar(S0, a.v))))))
    if c.uses is None or 'rt' in c.uses:
        out.append(('denotation[rt]', Implies(a.v != a.w, S1.rt[absz(r)] == Or(absz(r) == RT, S0.rt[absz(a.v)], S0.rt[absz(a.w)]))))
    if c.uses is None or 'hl' in c.uses:
        out.append(('denotation[hl]', Implies(a.v != a.w, S1.hl[absz(r)] == Or(a.i == HL, S0.hl[absz(a.v)], S0.hl[absz(a.w)]))))
    return out


def foa_own_post(c):
    """own verification: everything is proved under `ordered`, which the code does not check (call-site obligation)"""
    g = foa_ordered(c.S0, c.a)
    return [(nm, Implies(g, cl)) for nm, cl in foa_post(c)]


FOA = reg(Contract('dd.bdd.BDD.find_or_add', [('self', 'mgr'), ('i', 'int'), ('v', 'int'), ('w', 'int')],
                   pre=lambda c: wf(c.S, c.uses),
                   post=foa_own_post, modifies=M.NODE_MOD, ret='int', uses=None,
                   raises={'_NeedsReordering': NR(),
                           'ValueError': Raise(when=lambda c: Not(foa_valid(c.S0, c.a)), must=True),
                           'RuntimeError': Raise(when=lambda c: BoolVal(True))}))
# the form used at call sites: `ordered` is an obligation of the caller, then the post is unconditional
FOA.call_pre = lambda c: [('ordered', foa_ordered(c.S, c.a))]
FOA.call_post = foa_post


def ite_post(c):
    S0, S1, a, r = c.S0, c.S1, c.a, c.r
    out = wf(S1, c.uses) + [
        ('Ext', Ext(S0, S1, c.uses)),
        ('denotation', And(isref(S1, r), semr(S1, r) == If(semr(S0, a.g), semr(S0, a.u), semr(S0, a.v)))),
        ('level', lv(S1, r) >= min2(lv(S0, a.g), min2(lv(S0, a.u), lv(S0, a.v)))),
        ('flags-kept', And(S1.lastlen == S0.lastlen, S1.ctx == S0.ctx, S1.nvars == S0.nvars)),
        ('order-kept', M.keep(S0, S1, list(M.ORDER_FIELDS))),
    ]
    if c.uses is None or 'sem1' in c.uses:
        out.append(('denotation[ones]', semr(S1, r, 'sem1') == If(semr(S0, a.g, 'sem1'), semr(S0, a.u, 'sem1'), semr(S0, a.v, 'sem1'))))
    return out


ITE_MOD = M.NODE_MOD + ['ch', 'cv']
ITE = reg(Contract('dd.bdd.BDD._ite', [('self', 'mgr'), ('g', 'int'), ('u', 'int'), ('v', 'int')],
                   pre=lambda c: wf(c.S, c.uses) + [('refs', And(isref(c.S, c.a.g), isref(c.S, c.a.u), isref(c.S, c.a.v)))],
                   post=ite_post, modifies=ITE_MOD, ret='int', uses={'cache', 'rc', 'sem1'},
                   raises={'_NeedsReordering': NR(nr_post()), 'RuntimeError': Raise(when=lambda c: BoolVal(True))}))


# ---------------------------------------------------------------------------------------------------------------
# decorated methods: composition of the (separately verified) wrapper `_try_to_reorder._wrapper` with the body
def guard(S):
    """no reordering can fire inside a decorated call: nested in another decorated call, or requests off"""
    return Or(S.ctx, S.lastlen < 0)


def decorate(body, name):
    """Contract of `@_try_to_reorder def f` as seen by callers, from the contract of its body (DESIGN App. A)."""
    frame = [f for f in M.ALLF if f not in body.modifies and f not in ('lastlen', 'ctx')]

    def pre(c):
        return [(nm, g) for nm, g in body.pre(c) if nm != 'in-context']

    def post(c):
        S0, S1 = c.S0, c.S1
        g0 = guard(S0)
        # the body runs with ctx = True
        Sb0 = S0.copy()
        Sb0.ctx = BoolVal(True)
        Sb1 = S1.copy()
        Sb1.ctx = BoolVal(True)
        bc = type(c)(**{**c.__dict__, 'S0': Sb0, 'S1': Sb1, 'S': Sb1})
        out = [(nm, Implies(g0, cl)) for nm, cl in body.post(bc) if nm != 'flags-kept']
        # ASSUMED when a reordering fires inside a top-level call (consequence of the assumed contract of reorder() and of the
        # re-execution of the body; C07/C09 bounded): the manager is well formed and the result is a node of it
        out += [('WF[assumed-if-reordering-fired]:' + nm, Implies(Not(g0), cl)) for nm, cl in wf(S1, c.uses)]
        if body.ret == 'int':
            out.append(('result-is-a-node[assumed-if-reordering-fired]', Implies(Not(g0), isref(S1, c.r))))
        out += [('frame', Implies(g0, M.keep(S0, S1, frame))),
                ('ctx-kept', S1.ctx == S0.ctx), ('enc-lastlen', S1.lastlen >= -1),
                ('lastlen-kept-if-quiet', Implies(g0, S1.lastlen == S0.lastlen)),
                ('reordering-still-enabled', (S1.lastlen >= 0) == (S0.lastlen >= 0)),
                ('nvars-kept', S1.nvars == S0.nvars)]
        return out
    raises = {}
    for exc, rs in body.raises.items():
        if exc == '_NeedsReordering':
            raises[exc] = Raise(when=lambda c: And(c.S0.ctx, c.S0.lastlen >= 0), post=rs.post)
        else:
            raises[exc] = rs
    d = Contract(name, body.params, pre, post, modifies=M.ALLF, ret=body.ret, raises=raises, uses=body.uses,
                 mutates=body.mutates, note=f'composition of dd.bdd._try_to_reorder._wrapper with {body.name}; when a reordering fires '
                 'inside a top-level call, WF and validity of the result are ASSUMED (reorder() contract, C07/C09 bounded)')
    d.decorated_body = body.name
    return d


def in_context(c):
    return [('in-context', c.S.ctx)]


ITE_BODY = reg(Contract('dd.bdd.BDD.ite!body', ITE.params,
                        pre=lambda c: ITE.pre(c) + in_context(c), post=ite_post, modifies=ITE_MOD, ret='int',
                        uses=ITE.uses, raises=ITE.raises))
ITE_DEC = reg(decorate(ITE_BODY, 'dd.bdd.BDD.ite'))

# ---------------------------------------------------------------------------------------------------------------
# operator symbols (read from dd/_abc.py by ast in run.py: `OPSETS`); spelling classes from the statement of C01
SPELLINGS = {
    'not': ['~', 'not', '!'],
    'and': ['and', '/\\', '&', '&&'],
    'or': ['or', '\\/', '|', '||'],
    'xor': ['#', 'xor', '^'],
    'implies': ['=>', '->', 'implies'],
    'equiv': ['<=>', '<->', 'equiv'],
    'diff': ['diff', '-'],
    'ite': ['ite'],
    'forall': ['\\A', 'forall'],
    'exists': ['\\E', 'exists'],
}
CLASS_OF = {s: c for c, ss in SPELLINGS.items() for s in ss}
OPSETS = {}   # filled by run.load_opsets(): unary / binary / ternary / all


def spec_connective(cls, a, b, c_):
    """truth function named in the statement of C01"""
    return {'not': lambda: Not(a), 'and': lambda: And(a, b), 'or': lambda: Or(a, b), 'xor': lambda: a != b,
            'implies': lambda: Or(Not(a), b), 'equiv': lambda: a == b, 'diff': lambda: And(a, Not(b)),
            'ite': lambda: If(a, b, c_)}[cls]()


def aoa_bad(op, v_none, w_none):
    if op not in OPSETS['all']:
        return BoolVal(True)
    if op in OPSETS['unary']:
        return Or(Not(v_none), Not(w_none))
    if op in OPSETS['binary']:
        return Or(v_none, Not(w_none))
    if op in OPSETS['ternary']:
        return Or(v_none, w_none)
    return BoolVal(False)


reg(Contract('dd._utils.assert_operator_arity', [('op', 'op'), ('v', 'optint'), ('w', 'optint'), ('diagram_type', 'op')],
             pre=lambda c: [], post=lambda c: [], ret='none', mgr='-',
             raises={'ValueError': Raise(when=lambda c: aoa_bad(c.a.op, c.a.v_none, c.a.w_none), must=True)}))

SUPP = M.Function('SUPP', I, M.Name, B) if hasattr(M, 'Function') else None
n_ = M.Const('n!b', M.Name)

reg(Contract('dd.bdd.BDD.support', [('self', 'mgr'), ('u', 'int'), ('as_levels', 'bool=False')],
             pre=lambda c: [('ref', isref(c.S, c.a.u))],
             post=lambda c: [('set', ForAll([n_], And(c.r.has[n_] == SUPP(c.a.u, n_), Implies(c.r.has[n_], c.S0.vin[n_])),
                                            patterns=[c.r.has[n_]]))],
             ret='set:name', assumed=True,
             note='assumed (bounded-checked by C10): returns the set SUPP(u) of declared names'))


def q_binds_support(S, u):
    return ForAll([l_], Q[l_] == And(S.lin[l_], SUPP(u, S.l2v[l_])), patterns=[Q[l_]])


def q_is_levels_of(S, qs):
    """Q is exactly the set of levels of the names in the set qs (two implications, no existential)"""
    return [('qvars-declared', ForAll([n_], Implies(qs.has[n_], And(S.vin[n_], Q[S.v2l[n_]])), patterns=[qs.has[n_]])),
            ('qvars-onto', ForAll([l_], Implies(Q[l_], And(S.lin[l_], qs.has[S.l2v[l_]])), patterns=[Q[l_]]))]


def quantify_post(c):
    S0, S1, a, r = c.S0, c.S1, c.a, c.r
    return wf(S1, c.uses) + [
        ('Ext', Ext(S0, S1, c.uses)),
        ('QE', And(isref(S1, r), semr(S1, r) == If(a.forall, qfar(S0, a.u), qexr(S0, a.u)))),
        ('level', lv(S1, r) >= lv(S0, a.u)),
        ('flags-kept', And(S1.lastlen == S0.lastlen, S1.ctx == S0.ctx, S1.nvars == S0.nvars)),
        ('order-kept', M.keep(S0, S1, list(M.ORDER_FIELDS)))]


QUANTIFY_BODY = reg(Contract('dd.bdd.BDD.quantify!body',
                             [('self', 'mgr'), ('u', 'int'), ('qvars', 'set:name'), ('forall', 'bool=False')],
                             pre=lambda c: wf(c.S, c.uses) + [('ref', isref(c.S, c.a.u))] + q_is_levels_of(c.S, c.a.qvars) + in_context(c),
                             post=quantify_post, modifies=ITE_MOD, ret='int', uses={'cache', 'rc', 'qe', 'order'},
                             raises={'_NeedsReordering': NR(nr_post()), 'RuntimeError': Raise(when=lambda c: BoolVal(True))}))
QUANTIFY_DEC = reg(decorate(QUANTIFY_BODY, 'dd.bdd.BDD.quantify'))


def apply_pre(c):
    out = wf(c.S, c.uses)
    cls = CLASS_OF.get(c.a.op)
    if cls in ('forall', 'exists'):
        out.append(('Q-is-support-of-first-operand', q_binds_support(c.S, c.a.u)))
    return out


def apply_valid(S, a):
    ok = And(isref(S, a.u), Or(a.v_none, isref(S, a.v)), Or(a.w_none, isref(S, a.w)))
    return And(Not(aoa_bad(a.op, a.v_none, a.w_none)), ok)


def apply_post(c):
    S0, S1, a, r = c.S0, c.S1, c.a, c.r
    cls = CLASS_OF[a.op]
    g0 = guard(S0)
    if cls in ('forall', 'exists'):
        want = qfar(S0, a.v) if cls == 'forall' else qexr(S0, a.v)
    else:
        want = spec_connective(cls, semr(S0, a.u), semr(S0, a.v), semr(S0, a.w))
    out = [(nm, Implies(g0, cl)) for nm, cl in wf(S1, c.uses)]
    # ASSUMED when a reordering fires inside the call (reorder() contract, C07/C09 bounded): still WF, result is a node
    out += [('WF[assumed-if-reordering-fired]:' + nm, Implies(Not(g0), cl)) for nm, cl in wf(S1, c.uses)]
    out.append(('result-is-a-node[assumed-if-reordering-fired]', Implies(Not(g0), isref(S1, r))))
    out += [('connective', Implies(g0, And(isref(S1, r), semr(S1, r) == want))),
            ('Ext', Implies(g0, Ext(S0, S1, c.uses))),
            ('ctx-kept', S1.ctx == S0.ctx),
            ('reordering-still-enabled', (S1.lastlen >= 0) == (S0.lastlen >= 0))]
    return out


reg(Contract('dd.bdd.BDD.apply', [('self', 'mgr'), ('op', 'op'), ('u', 'int'), ('v', 'optint'), ('w', 'optint')],
             pre=apply_pre, post=apply_post, modifies=M.ALLF, ret='int', uses={'cache', 'rc', 'qe', 'order'},
             raises={'ValueError': Raise(when=lambda c: Not(apply_valid(c.S0, c.a)), must=True),
                     '_NeedsReordering': Raise(when=lambda c: And(c.S0.ctx, c.S0.lastlen >= 0), post=nr_post()),
                     'RuntimeError': Raise(when=lambda c: BoolVal(True))}))


# ---------------------------------------------------------------------------------------------------------------
# variable order (C14)
ORD = {'order'}


def nodes_kept(S0, S1, except_terminal_level=True):
    """every node keeps shape, count and denotations; only the terminal's level may move"""
    flds = ['lo', 'hi', 'ref', 'indeg', 'ext', 'sem', 'sem2', 'sem3', 'sem1', 'qex', 'qfa', 'hl', 'rt']
    cl = [S1.dom == S0.dom, S1.minfree == S0.minfree, S1.nsucc == S0.nsucc]
    cl += [getattr(S1, f) == getattr(S0, f) for f in flds]
    cl.append(ForAll([x_], Implies(x_ != 1, S1.lvl[x_] == S0.lvl[x_]), patterns=[S1.lvl[x_]]))
    return And(*cl)


def it_pre(c):
    S, a = c.S, c.a
    base = {k: v for k, v in WF(S, c.uses).items() if k not in ('W1-terminal', 'W3-level-range')}
    return list(base.items()) + [
        ('terminal-present', And(S.dom[1], S.lo[1] == 0, S.hi[1] == 0, S.lvl[1] >= 0)),
        ('level', And(a.level >= 0, a.level == S.nvars, a.level >= S.lvl[1])),
        ('nodes-above', ForAll([x_], Implies(And(S.dom[x_], x_ > 1), And(0 <= S.lvl[x_], S.lvl[x_] < S.lvl[1])), patterns=[S.dom[x_]])),
        ('terminal-fork-only-terminal', ForAll([M._t], Implies(And(S.ph[M._t], Fork.lo(M._t) == 0), S.pv[M._t] == 1), patterns=[S.ph[M._t]]))]


def it_post(c):
    S0, S1, a = c.S0, c.S1, c.a
    return wf(S1, c.uses) + [('terminal-level', S1.lvl[1] == a.level), ('nodes-kept', nodes_kept(S0, S1)),
                             ('cache-kept', And(S1.ch == S0.ch, S1.cv == S0.cv)),
                             ('order-kept', M.keep(S0, S1, list(M.ORDER_FIELDS) + ['nvars', 'lastlen', 'ctx']))]


reg(Contract('dd.bdd.BDD._init_terminal', [('self', 'mgr'), ('level', 'int')], pre=it_pre, post=it_post,
             modifies=['lvl', 'ph', 'pv', 'ref', 'dom', 'lo', 'hi', 'indeg', 'ext', 'sem', 'sem2', 'sem3', 'sem1', 'qex', 'qfa', 'hl', 'rt', 'nsucc'],
             ret='none', uses=None,
             note='verified for the call from add_var (terminal present); the call from __init__ (empty tables) is bounded'))


reg(Contract('dd.bdd.BDD.__len__', [('self', 'mgr')], pre=lambda c: [], post=lambda c: [('number-of-stored-nodes', c.r == c.S0.nsucc)], ret='int',
             note='nsucc is the ghost cardinality of the node table: +1 at every store of a new key, -1 at every removal (engine rules)'))
reg(Contract('dd.bdd.BDD.__contains__', [('self', 'mgr'), ('u', 'int')], pre=lambda c: [],
             post=lambda c: [('membership', c.r == c.S0.dom[absz(c.a.u)])], ret='bool'))


def empty_tables(S):
    return And(ForAll([x_], Not(S.dom[x_]), patterns=[S.dom[x_]]), ForAll([M._t], Not(S.ph[M._t]), patterns=[S.ph[M._t]]),
               ForAll([M._t], Not(S.ch[M._t]), patterns=[S.ch[M._t]]), S.nsucc == 0, S.nvars == 0, S.minfree == 2,
               ForAll([n_], Not(S.vin[n_]), patterns=[S.vin[n_]]), ForAll([l_], Not(S.lin[l_]), patterns=[S.lin[l_]]))


def only_terminal(S):
    return And(ForAll([x_], S.dom[x_] == (x_ == 1), patterns=[S.dom[x_]]), S.lvl[1] == 0, S.nvars == 0, S.ref[1] == 1, S.ext[1] == 1)


reg(Contract('dd.bdd.BDD._init_terminal!empty', [('self', 'mgr'), ('level', 'int')],
             pre=lambda c: [('empty-tables', empty_tables(c.S)), ('level', c.a.level == 0)],
             post=lambda c: [(n, g) for n, g in wf(c.S1, c.uses) if n != 'enc-lastlen'] + [('only-the-terminal', only_terminal(c.S1)),
                                                ('switches-kept', And(c.S1.lastlen == c.S0.lastlen, c.S1.ctx == c.S0.ctx))],
             modifies=['lvl', 'ph', 'pv', 'ref', 'dom', 'lo', 'hi', 'indeg', 'ext', 'sem', 'sem2', 'sem3', 'sem1', 'qex', 'qfa', 'hl', 'rt', 'nsucc'],
             ret='none', uses=None, note='the call from BDD.__init__: empty tables; establishes the invariant for the manager that holds only the terminal'))
REG['dd.bdd.BDD._init_terminal!empty'].entry_ref_empty = True

reg(Contract('dd.bdd._assert_valid_ordering', [('levels', 'any')], pre=lambda c: [], post=lambda c: [], ret='none', mgr='-', assumed=True,
             note='assumed: accepts the empty dict (checks that the given levels are a permutation of 0..n-1; set arithmetic, bounded only)'))

reg(Contract('dd.bdd.BDD.__init__!empty', [('self', 'mgr'), ('levels', 'none')],
             pre=lambda c: [], post=lambda c: wf(c.S1, c.uses) + [
                 ('only-the-terminal', only_terminal(c.S1)), ('reordering-off', And(c.S1.lastlen == -1, Not(c.S1.ctx))),
                 ('no-variables-no-cache', And(ForAll([n_], Not(c.S1.vin[n_]), patterns=[c.S1.vin[n_]]),
                                               ForAll([M._t], Not(c.S1.ch[M._t]), patterns=[c.S1.ch[M._t]])))],
             modifies=M.ALLF, ret='none', uses=None,
             note='BDD() without arguments: the base case of the invariant (every family); with a dict of levels the constructor calls '
                  'add_var per entry (proved separately; insertion order matters: known finding D4)'))


def cv_bad(S, a):
    return Or(Not(S.vin[a.var]), And(Not(a.level_none), a.level != S.v2l[a.var]))


reg(Contract('dd.bdd.BDD._check_var', [('self', 'mgr'), ('var', 'name'), ('level', 'optint')],
             pre=lambda c: wf(c.S, c.uses), post=lambda c: [('level-of-var', c.r == c.S0.v2l[c.a.var])], ret='int', uses=ORD,
             raises={'ValueError': Raise(when=lambda c: cv_bad(c.S0, c.a), must=True)}))


def nfl_level(S, a):
    return If(a.level_none, S.nvars, a.level)


reg(Contract('dd.bdd.BDD._next_free_level', [('self', 'mgr'), ('var', 'name'), ('level', 'optint')],
             pre=lambda c: wf(c.S, c.uses) + [('level-nonneg', Or(c.a.level_none, c.a.level >= 0))],
             post=lambda c: [('free', And(c.r == nfl_level(c.S0, c.a), Not(c.S0.lin[c.r])))], ret='int', uses=ORD,
             raises={'ValueError': Raise(when=lambda c: c.S0.lin[nfl_level(c.S0, c.a)], must=True)}))


def add_var_bad(S, a):
    return If(S.vin[a.var], cv_bad(S, a), S.lin[nfl_level(S, a)])


def add_var_post(c):
    S0, S1, a, r = c.S0, c.S1, c.a, c.r
    L = nfl_level(S0, a)
    new = Not(S0.vin[a.var])
    n2 = M.Const('n2!b', M.Name)
    return [(nm, cl) for nm, cl in wf(S1, c.uses)] + [
        ('existing-idempotent', Implies(S0.vin[a.var], And(r == S0.v2l[a.var], M.keep(S0, S1)))),
        ('new-level', Implies(new, And(r == L, S1.vin[a.var], S1.v2l[a.var] == L, S1.lin[L], S1.l2v[L] == a.var,
                                       S1.nvars == S0.nvars + 1, S1.lvl[1] == S1.nvars))),
        ('new-bottom-level-by-default', Implies(And(new, a.level_none), r == S0.nvars)),
        ('others-kept', Implies(new, And(
            ForAll([n2], Implies(n2 != a.var, And(S1.vin[n2] == S0.vin[n2], S1.v2l[n2] == S0.v2l[n2])), patterns=[S1.vin[n2]]),
            ForAll([l_], Implies(l_ != L, And(S1.lin[l_] == S0.lin[l_], S1.l2v[l_] == S0.l2v[l_])), patterns=[S1.lin[l_]])))),
        ('functions-kept', Implies(new, nodes_kept(S0, S1))),
        ('flags-kept', And(S1.lastlen == S0.lastlen, S1.ctx == S0.ctx))]


reg(Contract('dd.bdd.BDD.add_var', [('self', 'mgr'), ('var', 'name'), ('level', 'optint')],
             pre=lambda c: wf(c.S, c.uses) + [('level-no-gap', Or(c.a.level_none, And(c.a.level >= 0, c.a.level <= c.S.nvars)))],
             post=add_var_post, modifies=M.ALLF, ret='int', uses=None,
             raises={'ValueError': Raise(when=lambda c: add_var_bad(c.S0, c.a), must=True)},
             note='precondition level <= len(vars): a larger explicit level leaves a gap (known finding D4)'))


def declare_inv(c):
    S = c.mgrs['self']
    arr = c.env['variables'].arr
    E = c.entry['self']
    n2 = M.Const('n2!b', M.Name)
    return wf(S, c.uses) + [
        ('declared-so-far', ForAll([k_], Implies(And(0 <= k_, k_ < c.idx), S.vin[arr[k_]]), patterns=[arr[k_]])),
        ('old-names-keep-levels', ForAll([n2], Implies(E.vin[n2], And(S.vin[n2], S.v2l[n2] == E.v2l[n2])), patterns=[E.vin[n2]])),
        ('functions-kept', nodes_kept(E, S)), ('grows', S.nvars >= E.nvars),
        ('flags-kept', And(S.lastlen == E.lastlen, S.ctx == E.ctx))]


def declare_post(c):
    S0, S1 = c.S0, c.S1
    arr, n = c.a.variables.arr, c.a.variables.n
    n2 = M.Const('n2!b', M.Name)
    return wf(S1, c.uses) + [
        ('all-declared', ForAll([k_], Implies(And(0 <= k_, k_ < n), S1.vin[arr[k_]]), patterns=[arr[k_]])),
        ('old-names-keep-levels', ForAll([n2], Implies(S0.vin[n2], And(S1.vin[n2], S1.v2l[n2] == S0.v2l[n2])), patterns=[S0.vin[n2]])),
        ('functions-kept', nodes_kept(S0, S1))]


reg(Contract('dd.bdd.BDD.declare', [('self', 'mgr'), ('variables', 'list:name')],
             pre=lambda c: wf(c.S, c.uses) + [('n', c.a.variables.n >= 0)], post=declare_post, modifies=M.ALLF, ret='none', uses=None,
             loops={0: dict(inv=declare_inv, modifies_mgr=[('self', M.ALLF)])}))

reg(Contract('dd.bdd.BDD.var_at_level', [('self', 'mgr'), ('level', 'int')],
             pre=lambda c: wf(c.S, c.uses), post=lambda c: [('view', And(c.r == c.S0.l2v[c.a.level], c.S0.vin[c.r], c.S0.v2l[c.r] == c.a.level))],
             ret='name', uses=ORD, raises={'ValueError': Raise(when=lambda c: Not(c.S0.lin[c.a.level]), must=True)}))

reg(Contract('dd.bdd.BDD.level_of_var', [('self', 'mgr'), ('var', 'name')],
             pre=lambda c: wf(c.S, c.uses), post=lambda c: [('view', And(c.r == c.S0.v2l[c.a.var], c.S0.lin[c.r], c.S0.l2v[c.r] == c.a.var,
                                                                          0 <= c.r, c.r < c.S0.nvars))],
             ret='int', uses=ORD, raises={'ValueError': Raise(when=lambda c: Not(c.S0.vin[c.a.var]), must=True)}))

from vlib.vc.symex import NameV  # noqa: E402
REG['dd.bdd.BDD.level_of_var'].pure = lambda c: IntV(c.S0.v2l[c.a.var])
REG['dd.bdd.BDD.var_at_level'].pure = lambda c: NameV(c.S0.l2v[c.a.level])

reg(Contract('dd.bdd.BDD.var_levels', [('self', 'mgr')],
             pre=lambda c: wf(c.S, c.uses), post=lambda c: [('copy-of-vars', And(c.r.has == c.S0.vin, c.r.val == c.S0.v2l))],
             ret='dict:name->int', uses=ORD))


def var_post(c):
    S0, S1, a, r = c.S0, c.S1, c.a, c.r
    return wf(S1, c.uses) + [('Ext', Ext(S0, S1, c.uses)),
                             ('denotation', And(isref(S1, r), semr(S1, r) == A[S0.v2l[a.var]], r > 0)),
                             ('level', lv(S1, r) == S0.v2l[a.var]),
                             ('flags-kept', And(S1.lastlen == S0.lastlen, S1.ctx == S0.ctx, S1.nvars == S0.nvars)),
                             ('order-kept', M.keep(S0, S1, list(M.ORDER_FIELDS))),
                             ('cache-kept', And(S1.ch == S0.ch, S1.cv == S0.cv))]


VAR_BODY = reg(Contract('dd.bdd.BDD.var!body', [('self', 'mgr'), ('var', 'name')],
                        pre=lambda c: wf(c.S, c.uses) + in_context(c), post=var_post, modifies=M.NODE_MOD, ret='int',
                        uses={'order', 'rc', 'cache', 'sem1'},
                        raises={'ValueError': Raise(when=lambda c: Not(c.S0.vin[c.a.var]), must=True),
                                '_NeedsReordering': NR(), 'RuntimeError': Raise(when=lambda c: BoolVal(True))}))
VAR_DEC = reg(decorate(VAR_BODY, 'dd.bdd.BDD.var'))


# ---------------------------------------------------------------------------------------------------------------
# helpers for the recursions (C03, C04, C11)
def list_sorted_onto(lst, has, idx=None):
    """lst is the strictly increasing enumeration of exactly the set `has` (witness function idx)"""
    k1, k2, l1 = Int('k1!c'), Int('k2!c'), Int('l!c')
    if idx is None:
        idx = getattr(lst, 'idx', None)
    if idx is None:
        idx = IDXW
    return [('sorted', ForAll([k1, k2], Implies(And(0 <= k1, k1 < k2, k2 < lst.n), lst.arr[k1] < lst.arr[k2]),
                              patterns=[MultiPattern(lst.arr[k1], lst.arr[k2])])),
            ('elements', ForAll([k1], Implies(And(0 <= k1, k1 < lst.n), has[lst.arr[k1]]), patterns=[lst.arr[k1]])),
            ('onto', ForAll([l1], Implies(has[l1], And(0 <= idx(l1), idx(l1) < lst.n, lst.arr[idx(l1)] == l1)), patterns=[has[l1]])),
            ('n', lst.n >= 0)]


IDXW = M.Function('IDXW', I, I)    # witness for "ordvar covers the key set" in the recursions' own verification


def passed(S, lst, j, u):
    return ForAll([k_], Implies(And(0 <= k_, k_ < j), lst.arr[k_] < lv(S, u)), patterns=[lst.arr[k_]])


def skip_loop(c):
    """invariant of `while j < n: if ordvar[j] < i: j += 1 else: break`"""
    e0, e = c.env0, c.env
    j0, j, i = e0['j'].z, e['j'].z, e['i'].z
    lst = e['ordvar']
    return [('bounds', And(j0 <= j, j <= lst.n)),
            ('passed', ForAll([k_], Implies(And(0 <= k_, k_ < j), lst.arr[k_] < i), patterns=[lst.arr[k_]]))]


REC_MOD = ITE_MOD
REC_RAISES = {'_NeedsReordering': NR(nr_post()), 'RuntimeError': Raise(when=lambda c: BoolVal(True))}


def flags(S0, S1):
    return ('flags-kept', And(S1.lastlen == S0.lastlen, S1.ctx == S0.ctx, S1.nvars == S0.nvars))


def memo_grows(c, nm='cache'):
    old, new = c.muts[nm]
    key = Int('mk!c') if old.kkind == 'int' else M.Const('mk!f', Fork)
    return ('memo-grows', ForAll([key], Implies(old.has[key], And(new.has[key], new.val[key] == old.val[key])), patterns=[old.has[key]]))


# ---- _quantify ---------------------------------------------------------------------------------------------------
def QF(S, forall, x):
    return If(forall, qfar(S, x), qexr(S, x))


def q_memo_valid(S, cache, forall):
    return ForAll([x_], Implies(cache.has[x_], And(isref(S, x_), isref(S, cache.val[x_]), semr(S, cache.val[x_]) == QF(S, forall, x_),
                                                  lv(S, cache.val[x_]) >= lv(S, x_))), patterns=[cache.has[x_]])


def quantify_rec_pre(c):
    S, a = c.S, c.a
    return wf(S, c.uses) + [('ref', isref(S, a.u)), ('j', And(0 <= a.j, a.j <= a.ordvar.n))] + \
        list_sorted_onto(a.ordvar, a.qvars.has) + [
        ('Q-is-qvars', ForAll([l_], Q[l_] == a.qvars.has[l_], patterns=[Q[l_]])),
        ('passed', passed(S, a.ordvar, a.j, a.u)),
        ('memo', q_memo_valid(S, a.cache, a.forall)), ('quiet', guard(S))]


def quantify_rec_post(c):
    S0, S1, a, r = c.S0, c.S1, c.a, c.r
    return wf(S1, c.uses) + [('Ext', Ext(S0, S1, c.uses)),
                             ('QE', And(isref(S1, r), semr(S1, r) == QF(S0, a.forall, a.u))),
                             ('level', lv(S1, r) >= lv(S0, a.u)),
                             ('memo', q_memo_valid(S1, c.muts['cache'][1], a.forall)), memo_grows(c), flags(S0, S1),
                             ('order-kept', M.keep(S0, S1, list(M.ORDER_FIELDS)))]


QREC = reg(Contract('dd.bdd.BDD._quantify', [('self', 'mgr'), ('u', 'int'), ('j', 'int'), ('ordvar', 'list:int'), ('qvars', 'set:int'),
                                            ('forall', 'bool'), ('cache', 'dict:int->int')],
                    pre=quantify_rec_pre, post=quantify_rec_post, modifies=REC_MOD, ret='int', uses={'cache', 'rc', 'qe'},
                    mutates=['cache'], raises=REC_RAISES, loops={0: dict(inv=skip_loop, modifies=['j'])}))
# at call sites the unchanged list/set parameters need not be re-proved: they are the caller's own parameters
QREC.call_skip = {'sorted', 'elements', 'onto', 'n', 'Q-is-qvars'}

# name -> level translation: sets and dicts of names. An undeclared name makes it raise ValueError or KeyError, depending on which
# element `next(iter(d))` happens to return first (nothing is modified before)
def all_declared(S, d):
    return ForAll([n_], Implies(d.has[n_], S.vin[n_]), patterns=[d.has[n_]])


M2L_RAISES = {'ValueError': Raise(when=lambda c: Not(all_declared(c.S0, c.a.d))), 'KeyError': Raise(when=lambda c: Not(all_declared(c.S0, c.a.d)))}
reg(Contract('dd.bdd.BDD._map_to_level:set', [('self', 'mgr'), ('d', 'set:name')],
             pre=lambda c: wf(c.S, c.uses),
             post=lambda c: [('levels-of-names', And(
                 ForAll([n_], Implies(c.a.d.has[n_], And(c.S0.vin[n_], c.r.has[c.S0.v2l[n_]])), patterns=[c.a.d.has[n_]]),
                 ForAll([l_], Implies(c.r.has[l_], And(c.S0.lin[l_], c.a.d.has[c.S0.l2v[l_]])), patterns=[c.r.has[l_]])))],
             ret='set:int', uses=ORD, raises=M2L_RAISES))
reg(Contract('dd.bdd.BDD._map_to_level:dict', [('self', 'mgr'), ('d', 'dict:name->bool')],
             pre=lambda c: wf(c.S, c.uses),
             post=lambda c: [('levels-of-names', And(
                 ForAll([n_], Implies(c.a.d.has[n_], And(c.S0.vin[n_], c.r.has[c.S0.v2l[n_]])), patterns=[c.a.d.has[n_]]),
                 ForAll([l_], Implies(c.r.has[l_], And(c.S0.lin[l_], c.a.d.has[c.S0.l2v[l_]], c.r.val[l_] == c.a.d.val[c.S0.l2v[l_]])),
                        patterns=[c.r.has[l_]])))],
             ret='dict:int->bool', uses=ORD, raises=M2L_RAISES))
reg(Contract('dd.bdd.BDD._assert_keys_are_levels:set', [('self', 'mgr'), ('kv', 'set:name')], pre=lambda c: [], post=lambda c: [('never-returns', BoolVal(False))],
             ret='none', raises={'ValueError': Raise(when=lambda c: BoolVal(True), must=True)}, assumed=True,
             note='assumed: a non-empty collection whose first key is a name (never a level) is rejected with ValueError (error-message helper with a closure)'))
REG['dd.bdd.BDD._assert_keys_are_levels:dict'] = REG['dd.bdd.BDD._assert_keys_are_levels:set']


# ---- _cofactor ---------------------------------------------------------------------------------------------------
def cof_memo_valid(S, cache):
    return ForAll([x_], Implies(cache.has[x_], And(isref(S, x_), isref(S, cache.val[x_]), semr(S, cache.val[x_]) == semr(S, x_, 'sem2'),
                                                  lv(S, cache.val[x_]) >= lv(S, x_))), patterns=[cache.has[x_]])


def cof_pre(c):
    S, a = c.S, c.a
    return wf(S, c.uses) + [('ref', isref(S, a.u)), ('j', And(0 <= a.j, a.j <= a.ordvar.n))] + \
        list_sorted_onto(a.ordvar, a.values.has) + [
        ('A2-is-A-overridden-by-values', ForAll([l_], A2[l_] == If(a.values.has[l_], a.values.val[l_], A[l_]), patterns=[A2[l_]])),
        ('passed', passed(S, a.ordvar, a.j, a.u)), ('memo', cof_memo_valid(S, a.cache))]


def cof_post(c):
    S0, S1, a, r = c.S0, c.S1, c.a, c.r
    return wf(S1, c.uses) + [('Ext', Ext(S0, S1, c.uses)),
                             ('substitution', And(isref(S1, r), semr(S1, r) == semr(S0, a.u, 'sem2'))),
                             ('level', lv(S1, r) >= lv(S0, a.u)),
                             ('memo', cof_memo_valid(S1, c.muts['cache'][1])), memo_grows(c), flags(S0, S1),
                             ('cache-kept', And(S1.ch == S0.ch, S1.cv == S0.cv)),
                             ('order-kept', M.keep(S0, S1, list(M.ORDER_FIELDS)))]


COFREC = reg(Contract('dd.bdd.BDD._cofactor', [('self', 'mgr'), ('u', 'int'), ('j', 'int'), ('ordvar', 'list:int'),
                                              ('values', 'dict:int->bool'), ('cache', 'dict:int->int')],
                      pre=cof_pre, post=cof_post, modifies=M.NODE_MOD, ret='int', uses={'rc', 'sem2', 'agree:sem2'},
                      mutates=['cache'], raises={'_NeedsReordering': NR(nr_post()), 'RuntimeError': Raise(when=lambda c: BoolVal(True))},
                      loops={0: dict(inv=skip_loop, modifies=['j'])}))
COFREC.call_skip = {'sorted', 'elements', 'onto', 'n', 'A2-is-A-overridden-by-values'}


# ---- _compose ----------------------------------------------------------------------------------------------------
def comp_val(S, f, g):
    """f with level j replaced by g, under A:  A2 = A[j := true], A3 = A[j := false]"""
    return If(semr(S, g), semr(S, f, 'sem2'), semr(S, f, 'sem3'))


_kf = M.Const('kf!c', Fork)


def comp_memo_valid(S, cache):
    f_, g_ = Fork.l(_kf), Fork.lo(_kf)
    return ForAll([_kf], Implies(cache.has[_kf], And(isref(S, f_), isref(S, g_), isref(S, cache.val[_kf]),
                                                    semr(S, cache.val[_kf]) == comp_val(S, f_, g_),
                                                    lv(S, cache.val[_kf]) >= min2(lv(S, f_), lv(S, g_)))), patterns=[cache.has[_kf]])


def comp_pre(c):
    S, a = c.S, c.a
    return wf(S, c.uses) + [('refs', And(isref(S, a.f), isref(S, a.g))), ('j', And(0 <= a.j, a.j < S.nvars)),
                            ('A2-A3', ForAll([l_], And(A2[l_] == If(l_ == a.j, True, A[l_]), A3[l_] == If(l_ == a.j, False, A[l_])),
                                             patterns=[A2[l_]])),
                            ('A3-pattern', ForAll([l_], A3[l_] == If(l_ == a.j, False, A[l_]), patterns=[A3[l_]])),
                            ('memo', comp_memo_valid(S, a.cache)), ('quiet', guard(S))]


def comp_post(c):
    S0, S1, a, r = c.S0, c.S1, c.a, c.r
    return wf(S1, c.uses) + [('Ext', Ext(S0, S1, c.uses)),
                             ('substitution', And(isref(S1, r), semr(S1, r) == comp_val(S0, a.f, a.g))),
                             ('level', lv(S1, r) >= min2(lv(S0, a.f), lv(S0, a.g))),
                             ('memo', comp_memo_valid(S1, c.muts['cache'][1])), memo_grows(c), flags(S0, S1),
                             ('order-kept', M.keep(S0, S1, list(M.ORDER_FIELDS)))]


COMPREC = reg(Contract('dd.bdd.BDD._compose', [('self', 'mgr'), ('f', 'int'), ('j', 'int'), ('g', 'int'), ('cache', 'dict:fork->int')],
                       pre=comp_pre, post=comp_post, modifies=REC_MOD, ret='int',
                       uses={'cache', 'rc', 'sem2', 'sem3', 'agree:sem2', 'agree:sem3'}, mutates=['cache'], raises=REC_RAISES))
COMPREC.call_skip = {'A2-A3', 'A3-pattern'}


# ---- _vector_compose ---------------------------------------------------------------------------------------------
def vc_memo_valid(S, cache):
    return ForAll([x_], Implies(cache.has[x_], And(x_ >= 1, S.dom[x_], isref(S, cache.val[x_]), semr(S, cache.val[x_]) == S.sem2[x_])),
                  patterns=[cache.has[x_]])


def vc_pre(c):
    S, a = c.S, c.a
    sub = a.level_sub
    return wf(S, c.uses) + [('ref', isref(S, a.f)),
                            ('replacements-are-refs', ForAll([l_], Implies(sub.has[l_], isref(S, sub.val[l_])), patterns=[sub.has[l_]])),
                            ('A2-is-simultaneous-substitution', ForAll([l_], A2[l_] == If(sub.has[l_], semr(S, sub.val[l_]), A[l_]), patterns=[A2[l_]])),
                            ('memo', vc_memo_valid(S, a.cache)), ('quiet', guard(S))]


def vc_post(c):
    S0, S1, a, r = c.S0, c.S1, c.a, c.r
    return wf(S1, c.uses) + [('Ext', Ext(S0, S1, c.uses)),
                             ('substitution', And(isref(S1, r), semr(S1, r) == semr(S0, a.f, 'sem2'))),
                             ('memo', vc_memo_valid(S1, c.muts['cache'][1])), memo_grows(c), flags(S0, S1),
                             ('order-kept', M.keep(S0, S1, list(M.ORDER_FIELDS)))]


VCREC = reg(Contract('dd.bdd.BDD._vector_compose', [('self', 'mgr'), ('f', 'int'), ('level_sub', 'dict:int->int'), ('cache', 'dict:int->int')],
                     pre=vc_pre, post=vc_post, modifies=REC_MOD, ret='int', uses={'cache', 'rc', 'sem2'}, mutates=['cache'], raises=REC_RAISES))


# ---- is_essential (C10) --------------------------------------------------------------------------------------------
reg(Contract('dd.bdd.BDD.is_essential', [('self', 'mgr'), ('u', 'int'), ('var', 'name')],
             pre=lambda c: wf(c.S, c.uses) + [('ref', isref(c.S, c.a.u)), ('HL-is-level-of-var', Implies(c.S.vin[c.a.var], HL == c.S.v2l[c.a.var]))],
             post=lambda c: [('depends-on-var', c.r == And(c.S0.vin[c.a.var], c.S0.hl[absz(c.a.u)]))],
             ret='bool', uses={'hl', 'order'}))


# ---- _copy_bdd / rename / copy_bdd (C04 renaming, C11) -------------------------------------------------------------
def copy_old_state(c, post=False):
    """state of `old_bdd` the clauses read: for the aliased case (rename) the entry state of `bdd`"""
    if c.a.old_bdd_key == c.a.bdd_key:
        return c.S0
    return c.mgrs[c.a.old_bdd_key]


def copy_memo_valid(So, Sn, cache):
    return ForAll([x_], Implies(cache.has[x_], And(x_ > 1, So.dom[x_], cache.val[x_] > 0, Sn.dom[cache.val[x_]],
                                                  Sn.sem[cache.val[x_]] == So.sem2[x_])), patterns=[cache.has[x_]])


def copy_pre(c):
    Sn, a = c.S, c.a
    So = copy_old_state(c)
    lm = a.level_map
    out = wf(Sn, c.uses)
    if a.old_bdd_key != a.bdd_key:
        out += [('old:' + nm, g) for nm, g in wf(So, c.uses)]
    out += [('ref', isref(So, a.u)),
            ('level_map-total', ForAll([l_], Implies(And(0 <= l_, l_ < So.nvars), And(lm.has[l_], 0 <= lm.val[l_], lm.val[l_] < Sn.nvars)),
                                       patterns=[lm.has[l_]])),
            ('A2-is-A-after-level_map', ForAll([l_], Implies(lm.has[l_], A2[l_] == A[lm.val[l_]]), patterns=[lm.has[l_]])),
            ('memo', copy_memo_valid(So, Sn, a.cache)), ('quiet', guard(Sn))]
    return out


def copy_post(c):
    S0, S1, a, r = c.S0, c.S1, c.a, c.r
    So = copy_old_state(c)
    So1 = S1 if a.old_bdd_key == a.bdd_key else So
    return wf(S1, c.uses) + [('Ext', Ext(S0, S1, c.uses)),
                             ('same-function', And(isref(S1, r), semr(S1, r) == semr(So, a.u, 'sem2'))),
                             ('same-sign', (r > 0) == (a.u > 0)),
                             ('memo', copy_memo_valid(So1, S1, c.muts['cache'][1])), memo_grows(c), flags(S0, S1),
                             ('order-kept', M.keep(S0, S1, list(M.ORDER_FIELDS)))]


COPYREC = reg(Contract('dd.bdd._copy_bdd', [('u', 'int'), ('level_map', 'dict:int->int'), ('old_bdd', 'mgr'), ('bdd', 'mgr'),
                                           ('cache', 'dict:int->int')],
                       pre=copy_pre, post=copy_post, modifies=REC_MOD, ret='int', mgr='bdd',
                       uses={'cache', 'rc', 'sem2', 'sem1'}, mutates=['cache'], raises=REC_RAISES))
COPYREC.call_skip = {'level_map-total', 'A2-is-A-after-level_map'}


def empty_means_no_member(d):
    from vlib.vc.symex import nonempty
    key = n_ if d.kkind == 'name' else l_
    return ForAll([key], Implies(d.has[key], nonempty(d)), patterns=[d.has[key]])


def rename_pre(c):
    S, a = c.S, c.a
    dv = a.dvars
    tgt = lambda nm: If(dv.has[nm], dv.val[nm], nm)  # noqa
    return wf(S, c.uses) + [
        ('targets-declared', ForAll([n_], Implies(And(dv.has[n_], S.vin[n_]), S.vin[dv.val[n_]]), patterns=[dv.has[n_]])),
        ('A2-is-A-after-renaming', ForAll([l_], A2[l_] == If(S.lin[l_], A[S.v2l[tgt(S.l2v[l_])]], A[l_]), patterns=[A2[l_]])),
        ('dict-truth', empty_means_no_member(dv)), ('quiet', guard(S))]


def rename_post(c):
    S0, S1, a, r = c.S0, c.S1, c.a, c.r
    return wf(S1, c.uses) + [('Ext', Ext(S0, S1, c.uses)),
                             ('renamed', And(isref(S1, r), semr(S1, r) == semr(S0, a.u, 'sem2'))), flags(S0, S1),
                             ('order-kept', M.keep(S0, S1, list(M.ORDER_FIELDS)))]


RENAME_USES = {'cache', 'rc', 'sem2', 'sem1', 'order', 'agree:sem2'}
RENAME = reg(Contract('dd.bdd.rename', [('u', 'int'), ('bdd', 'mgr'), ('dvars', 'dict:name->name')], mgr='bdd',
                      pre=rename_pre, post=rename_post, modifies=REC_MOD, ret='int', uses=RENAME_USES,
                      raises=dict(REC_RAISES, ValueError=Raise(when=lambda c: Not(isref(c.S0, c.a.u)), must=True))))
RENAME_BODY = reg(Contract('dd.bdd.BDD.rename!body', [('self', 'mgr'), ('u', 'int'), ('dvars', 'dict:name->name')],
                           pre=lambda c: rename_pre(c) + in_context(c), post=rename_post, modifies=REC_MOD, ret='int', uses=RENAME_USES,
                           raises=RENAME.raises))
RENAME_DEC = reg(decorate(RENAME_BODY, 'dd.bdd.BDD.rename'))


# ---- copy between managers (C11) -----------------------------------------------------------------------------------
def copy_bdd_pre(c):
    a = c.a
    Sf, St = c.mgrs[a.from_bdd_key], c.S
    out = wf(St, c.uses)
    if a.from_bdd_key != a.to_bdd_key:
        out += [('from:' + nm, g) for nm, g in wf(Sf, c.uses)]
        out += [('every-source-variable-declared-in-target', ForAll([n_], Implies(Sf.vin[n_], St.vin[n_]), patterns=[Sf.vin[n_]])),
                ('A2-is-A-by-name', ForAll([l_], Implies(Sf.lin[l_], A2[l_] == A[St.v2l[Sf.l2v[l_]]]), patterns=[Sf.lin[l_]]))]
    out.append(('ref', isref(Sf, a.u)))
    return out


def copy_bdd_post(c):
    a, S0, S1, r = c.a, c.S0, c.S1, c.r
    if a.from_bdd_key == a.to_bdd_key:
        return [('same-manager-returns-u', And(r == a.u, M.keep(S0, S1)))]
    Sf = c.mgrs[a.from_bdd_key]
    return wf(S1, c.uses) + [('Ext', Ext(S0, S1, c.uses)),
                             ('same-function-by-name', And(isref(S1, r), semr(S1, r) == semr(Sf, a.u, 'sem2'))),
                             ('reordering-setting-kept', And(S1.lastlen == S0.lastlen, S1.ctx == S0.ctx)),
                             ('order-kept', M.keep(S0, S1, list(M.ORDER_FIELDS)))]


COPY_USES = {'cache', 'rc', 'sem2', 'sem1', 'order'}
COPYBDD = reg(Contract('dd.bdd.copy_bdd', [('u', 'int'), ('from_bdd', 'mgr'), ('to_bdd', 'mgr')], mgr='to_bdd',
                       pre=copy_bdd_pre, post=copy_bdd_post, modifies=REC_MOD + ['lastlen'], ret='int', uses=COPY_USES,
                       raises={'RuntimeError': Raise(when=lambda c: BoolVal(True))},
                       note='the source manager is not in `modifies`: it is untouched (frame)'))
reg(Contract('dd.bdd.BDD.copy', [('self', 'mgr'), ('u', 'int'), ('other', 'mgr')], mgr='other',
             pre=lambda c: copy_bdd_pre(type(c)(**{**c.__dict__, 'a': type(c)(u=c.a.u, from_bdd=c.a.self, from_bdd_key=c.a.self_key,
                                                                             to_bdd=c.a.other, to_bdd_key=c.a.other_key)})),
             post=lambda c: copy_bdd_post(type(c)(**{**c.__dict__, 'a': type(c)(u=c.a.u, from_bdd=c.a.self, from_bdd_key=c.a.self_key,
                                                                               to_bdd=c.a.other, to_bdd_key=c.a.other_key)})),
             modifies=REC_MOD + ['lastlen'], ret='int', uses=COPY_USES, raises=COPYBDD.raises))


# ---------------------------------------------------------------------------------------------------------------
# reordering plumbing (C09, C17): context manager, decorators
from vlib.vc.symex import BoolV, MgrV, ObjV, ExcClassV, truth, is_none  # noqa: E402


def _obj(c):
    return c.path.env['self']


reg(Contract('dd.bdd._ReorderingContext.__init__', [('self', 'obj:dd.bdd._ReorderingContext'), ('bdd', 'mgr')], mgr='bdd',
             pre=lambda c: [], ret='none',
             post=lambda c: [('fields', BoolVal(isinstance(_obj(c).attrs.get('bdd'), MgrV) and _obj(c).attrs['bdd'].key == c.a.bdd_key)),
                             ('nested-unset', is_none(_obj(c).attrs['nested'])), ('state-kept', M.keep(c.S0, c.S1))]))
reg(Contract('dd.bdd._ReorderingContext.__enter__', [('self', 'rcobj')], mgr='bdd', pre=lambda c: [], ret='none',
             post=lambda c: [('nested-records-flag', truth(_obj(c).attrs['nested']) == c.S0.ctx), ('flag-set', c.S1.ctx),
                             ('rest-kept', M.keep(c.S0, c.S1, [f for f in M.ALLF if f != 'ctx']))]))


def exit_post(c):
    nested = z3.Bool('nested0')
    is_nr = isinstance(c.path.env['ex_type'], ExcClassV) and c.path.env['ex_type'].name == '_NeedsReordering'
    return [('flag-restored', c.S1.ctx == nested), ('rest-kept', M.keep(c.S0, c.S1, [f for f in M.ALLF if f != 'ctx'])),
            ('swallows-only-top-level-signal', c.r == (And(BoolVal(is_nr), Not(nested))))]


import z3  # noqa: E402
reg(Contract('dd.bdd._ReorderingContext.__exit__', [('self', 'rcobj'), ('ex_type', 'exc:None'), ('ex_value', 'optint'), ('tb', 'optint')],
             mgr='bdd', pre=lambda c: [], post=exit_post, ret='bool'))

# ---- abstract function under the decorators ------------------------------------------------------------------------
_FSTATE = [f for f in M.FIELDS] + ['minfree', 'nvars', 'maxnodes', 'nsucc']


def _fs(S):
    return [getattr(S, f) for f in _FSTATE]


_sorts = [M.Array('x', *M.FIELDS[f]).sort() if f in M.FIELDS else M.SCALARS[f] for f in _FSTATE]
FPRE = z3.Function('FPRE', *(_sorts + [B]))
FPOST = z3.Function('FPOST', *(_sorts + _sorts + [I, B]))
FNRP = z3.Function('FNRP', *(_sorts + _sorts + [B]))
FEXC = z3.Function('FEXC', *(_sorts + _sorts + [B]))
_FMOD = [f for f in M.ALLF if f not in ('lastlen', 'ctx')]


def _flags_kept(c):
    return And(c.S1.lastlen == c.S0.lastlen, c.S1.ctx == c.S0.ctx)


reg(Contract('FUNC', [('bdd', 'mgr'), ('args', 'opaque'), ('kwargs', 'opaque')], mgr='bdd',
             pre=lambda c: [('FPRE', FPRE(*_fs(c.S))), ('in-context', c.S.ctx)],
             post=lambda c: [('FPOST', FPOST(*(_fs(c.S0) + _fs(c.S1) + [c.r]))), ('flags-kept', _flags_kept(c)), ('enc', c.S1.lastlen >= -1)],
             modifies=_FMOD, ret='int',
             raises={'_NeedsReordering': Raise(when=lambda c: c.S0.lastlen >= 0,
                                               post=lambda c: [('FNRP', FNRP(*(_fs(c.S0) + _fs(c.S1)))), ('flags', _flags_kept(c)),
                                                               ('precondition-survives-the-aborted-attempt', FPRE(*_fs(c.S1)))]),
                     'OtherError': Raise(when=lambda c: BoolVal(True), post=lambda c: [('FEXC', FEXC(*(_fs(c.S0) + _fs(c.S1)))), ('flags', _flags_kept(c))])},
             assumed=True, note='abstract decorated function: uninterpreted pre/postconditions FPRE/FPOST (schema for every @_try_to_reorder '
                                'method); schema requirement: when the body raises the signal its precondition still holds afterwards (the '
                                'bodies under contract give WF and Ext on that exit, and their preconditions are stable under Ext)'))

reg(Contract('dd.bdd.reorder', [('bdd', 'mgr'), ('order', 'optint')], mgr='bdd',
             pre=lambda c: [], ret='none', modifies=_FMOD,
             post=lambda c: [('precondition-of-the-retried-call-survives', Implies(FPRE(*_fs(c.S0)), FPRE(*_fs(c.S1)))),
                             ('flags-kept', _flags_kept(c))],
             assumed=True, note='ASSUMED (C07 bounded): reorder() keeps every referenced node (identity, function, count), hence the '
                                'precondition of the call being retried; it does not touch the reordering switch or the nesting flag'))


def wrap_post(c):
    S0, S1 = c.S0, c.S1
    g0 = guard(S0)
    return [('ctx-restored', S1.ctx == S0.ctx), ('enc-lastlen', S1.lastlen >= -1),
            ('reordering-still-enabled', (S1.lastlen >= 0) == (S0.lastlen >= 0)),
            ('quiet-call-is-the-function', Implies(g0, And(FPOST(*(_fs(S0) + _fs(S1) + [c.r])), S1.lastlen == S0.lastlen)))]


reg(Contract('dd.bdd._store_iterator', [('value', 'opaque')], pre=lambda c: [], post=lambda c: [], ret='opaque', mgr='-', assumed=True,
             note='assumed: returns the list of the items of a one-shot iterator, any other value unchanged; no manager is involved. It is what '
                  'makes the arguments of a decorated call *values* (the abstract function FUNC is a function of the manager state only: the '
                  'retried call sees the same arguments as the first attempt)'))
reg(Contract('dd.bdd._try_to_reorder._wrapper', [('bdd', 'mgr'), ('args', 'opaque'), ('kwargs', 'opaque')], mgr='bdd',
             pre=lambda c: [('FPRE', FPRE(*_fs(c.S))), ('enc-lastlen', c.S.lastlen >= -1)], post=wrap_post, modifies=M.ALLF, ret='int',
             raises={'_NeedsReordering': Raise(when=lambda c: And(c.S0.ctx, c.S0.lastlen >= 0),
                                               post=lambda c: [('FNRP', FNRP(*(_fs(c.S0) + _fs(c.S1)))), ('flags', _flags_kept(c))]),
                     'OtherError': Raise(when=lambda c: BoolVal(True),
                                         post=lambda c: [('ctx-restored', c.S1.ctx == c.S0.ctx),
                                                         ('reordering-still-enabled', (c.S1.lastlen >= 0) == (c.S0.lastlen >= 0))])}))

reg(Contract('dd.bdd._suspend_reordering._wrapper', [('bdd', 'mgr'), ('args', 'opaque'), ('kwargs', 'opaque')], mgr='bdd',
             pre=lambda c: [('FPRE', FPRE(*_fs(c.S))), ('enc-lastlen', c.S.lastlen >= -1), ('in-context-or-not', BoolVal(True))],
             post=lambda c: [('setting-restored', _flags_kept(c))], modifies=M.ALLF, ret='int',
             raises={'OtherError': Raise(when=lambda c: BoolVal(True), post=lambda c: [('setting-restored', _flags_kept(c))])},
             note='the signal cannot be raised inside: requests are off for the duration (FUNCQ is called with lastlen = -1)'))
# inside _suspend_reordering the wrapped function is called with ctx arbitrary: a second abstract function without `in-context`
reg(Contract('FUNCQ', [('bdd', 'mgr'), ('args', 'opaque'), ('kwargs', 'opaque')], mgr='bdd',
             pre=lambda c: [('FPRE', FPRE(*_fs(c.S))), ('requests-off', c.S.lastlen < 0)],
             post=lambda c: [('FPOST', FPOST(*(_fs(c.S0) + _fs(c.S1) + [c.r]))), ('flags-kept', _flags_kept(c))],
             modifies=_FMOD, ret='int',
             raises={'_NeedsReordering': Raise(when=lambda c: c.S0.lastlen >= 0, post=lambda c: [('flags', _flags_kept(c))]),
                     'OtherError': Raise(when=lambda c: BoolVal(True), post=lambda c: [('flags', _flags_kept(c))])},
             assumed=True, note='abstract function under @_suspend_reordering'))


# ---------------------------------------------------------------------------------------------------------------
# collect_garbage (C06, C02)
KEPT_FIELDS = ['lvl', 'lo', 'hi', 'sem', 'sem2', 'sem3', 'sem1', 'qex', 'qfa', 'hl', 'rt', 'ext']


def survivors_kept(E, S):
    return ForAll([x_], Implies(S.dom[x_], And(E.dom[x_], *[getattr(S, f)[x_] == getattr(E, f)[x_] for f in KEPT_FIELDS])),
                  patterns=[S.dom[x_]])


def gc_common(E, S):
    return [('survivors-kept', survivors_kept(E, S)),
            ('removed-had-no-holder', ForAll([x_], Implies(And(E.dom[x_], Not(S.dom[x_])), E.ext[x_] == 0), patterns=[E.dom[x_]])),
            ('external-counts-untouched', S.ext == E.ext),
            ('order-kept', M.keep(E, S, list(M.ORDER_FIELDS) + ['nvars', 'lastlen', 'ctx', 'maxnodes'])),
            ('never-grows', And(S.minfree <= E.minfree, S.nsucc <= E.nsucc))]


def gc_inv(full):
    def inv(c):
        S, E = c.mgrs['self'], c.entry['self']
        un = c.env['unused']
        base = {k: v for k, v in WF(S, None).items() if not k.startswith('W7')}
        out = list(base.items()) + gc_common(E, S) + [
            ('unused-are-dead', ForAll([x_], Implies(un.has[x_], And(S.dom[x_], S.ref[x_] == 0, x_ > 1)), patterns=[un.has[x_]])),
            ('cache-untouched', And(S.ch == E.ch, S.cv == E.cv))]
        if full:
            out.append(('every-dead-node-is-scheduled', ForAll([x_], Implies(And(S.dom[x_], x_ > 1, S.ref[x_] == 0), un.has[x_]),
                                                               patterns=[S.dom[x_]])))
        return out
    return inv


def gc_post(full):
    def post(c):
        S0, S1 = c.S0, c.S1
        out = wf(S1, None) + gc_common(S0, S1) + [
            ('held-nodes-survive', ForAll([x_], Implies(And(S0.dom[x_], S0.ext[x_] > 0), S1.dom[x_]), patterns=[S0.dom[x_]])),
            # (the code empties the table; what the property needs is that nothing remembered refers to a freed node - clause W7 of
            # WF(S1) above - so a pruning that also checks the operands of an entry would be accepted: only "nothing new" is asked)
            ('computed-table-not-extended', ForAll([M._t], Implies(S1.ch[M._t], And(S0.ch[M._t], S1.cv[M._t] == S0.cv[M._t])),
                                                   patterns=[S1.ch[M._t]]))]
        if full:
            out.append(('no-unreferenced-node-left', ForAll([x_], Implies(And(S1.dom[x_], x_ > 1), S1.ref[x_] > 0), patterns=[S1.dom[x_]])))
        return out
    return post


GC_MOD = ['dom', 'ref', 'indeg', 'ph', 'pv', 'minfree', 'ch', 'cv', 'nsucc']
for _full, _nm, _kind in ((True, 'dd.bdd.BDD.collect_garbage', 'none'), (False, 'dd.bdd.BDD.collect_garbage!roots', 'set:int')):
    reg(Contract(_nm, [('self', 'mgr'), ('roots', _kind)],
                 pre=lambda c, _k=_kind: wf(c.S, None) + ([('roots-are-refs', ForAll([x_], Implies(c.a.roots.has[x_], isref(c.S, x_)),
                                                                                         patterns=[c.a.roots.has[x_]]))] if _k != 'none' else []),
                 post=gc_post(_full), modifies=GC_MOD, ret='none', uses=None,
                 loops={0: dict(inv=gc_inv(_full), modifies_sets=['unused'], modifies_mgr=[('self', GC_MOD)])}))


# ---------------------------------------------------------------------------------------------------------------
# entry bodies (C03, C04): quantify / forall / exist / cofactor
# (an undeclared name in qvars makes _map_to_level raise ValueError; the precondition `qvars-declared` excludes it)


def quant_entry(name, forall_value):
    def pre(c):
        return wf(c.S, c.uses) + [('ref', isref(c.S, c.a.u))] + q_is_levels_of(c.S, c.a.qvars)

    def post(c):
        S0, S1, a, r = c.S0, c.S1, c.a, c.r
        g0 = guard(S0)
        want = qfar(S0, a.u) if forall_value else qexr(S0, a.u)
        return [(nm, Implies(g0, cl)) for nm, cl in wf(S1, c.uses)] + [
            ('closure', Implies(g0, And(isref(S1, r), semr(S1, r) == want))), ('Ext', Implies(g0, Ext(S0, S1, c.uses))),
            ('ctx-kept', S1.ctx == S0.ctx), ('reordering-still-enabled', (S1.lastlen >= 0) == (S0.lastlen >= 0))]
    return reg(Contract(name, [('self', 'mgr'), ('qvars', 'set:name'), ('u', 'int')], pre=pre, post=post, modifies=M.ALLF, ret='int',
                        uses={'cache', 'rc', 'qe', 'order'},
                        raises={'_NeedsReordering': Raise(when=lambda c: And(c.S0.ctx, c.S0.lastlen >= 0), post=nr_post()),
                                'RuntimeError': Raise(when=lambda c: BoolVal(True))}))


quant_entry('dd.bdd.BDD.forall', True)
quant_entry('dd.bdd.BDD.exist', False)


def cofactor_body_pre(c):
    S, a = c.S, c.a
    vals = a.values
    return wf(S, c.uses) + in_context(c) + [
        ('A2-is-A-overridden-by-the-constants', ForAll([l_], A2[l_] == If(And(S.lin[l_], vals.has[S.l2v[l_]]), vals.val[S.l2v[l_]], A[l_]),
                                                       patterns=[A2[l_]]))]


def cofactor_body_post(c):
    S0, S1, a, r = c.S0, c.S1, c.a, c.r
    return wf(S1, c.uses) + [('Ext', Ext(S0, S1, c.uses)), ('substitution', And(isref(S1, r), semr(S1, r) == semr(S0, a.u, 'sem2'))),
                             flags(S0, S1), ('order-kept', M.keep(S0, S1, list(M.ORDER_FIELDS)))]


COFACTOR_BODY = reg(Contract('dd.bdd.BDD.cofactor!body', [('self', 'mgr'), ('u', 'int'), ('values', 'dict:name->bool')],
                             pre=cofactor_body_pre, post=cofactor_body_post, modifies=M.NODE_MOD, ret='int',
                             uses={'rc', 'sem2', 'agree:sem2', 'order'},
                             raises={'ValueError': Raise(when=lambda c: BoolVal(True)), '_NeedsReordering': NR(nr_post()),
                                     'KeyError': Raise(when=lambda c: Not(all_declared(c.S0, c.a.values))),
                                     'RuntimeError': Raise(when=lambda c: BoolVal(True))}))
COFACTOR_DEC = reg(decorate(COFACTOR_BODY, 'dd.bdd.BDD.cofactor'))


# ---- compose entry (two contracts: exactly one variable / several variables at once) ---------------------------
def compose_common_pre(c):
    S, a = c.S, c.a
    vs = a.var_sub
    return wf(S, c.uses) + in_context(c) + [
        ('ref', isref(S, a.f)),
        ('replacements-are-refs', ForAll([n_], Implies(vs.has[n_], isref(S, vs.val[n_])), patterns=[vs.has[n_]]))]


def compose1_pre(c):
    S, a = c.S, c.a
    vs = a.var_sub
    return compose_common_pre(c) + [
        ('exactly-one-variable', vs._len == 1),
        ('A2-A3-set-and-clear-the-variable', ForAll([n_, l_], Implies(vs.has[n_], And(
            A2[l_] == If(l_ == S.v2l[n_], True, A[l_]), A3[l_] == If(l_ == S.v2l[n_], False, A[l_]))),
            patterns=[MultiPattern(vs.has[n_], A2[l_]), MultiPattern(vs.has[n_], A3[l_])]))]


def compose1_post(c):
    S0, S1, a, r = c.S0, c.S1, c.a, c.r
    vs = a.var_sub
    return wf(S1, c.uses) + [('Ext', Ext(S0, S1, c.uses)),
                             ('substitution', And(isref(S1, r), ForAll([n_], Implies(vs.has[n_], semr(S1, r) == comp_val(S0, a.f, vs.val[n_])),
                                                                     patterns=[vs.has[n_]]))),
                             flags(S0, S1), ('order-kept', M.keep(S0, S1, list(M.ORDER_FIELDS)))]


def composeN_pre(c):
    S, a = c.S, c.a
    vs = a.var_sub
    return compose_common_pre(c) + [
        ('several-variables', vs._len != 1),
        ('A2-is-simultaneous-substitution', ForAll([l_], A2[l_] == If(And(S.lin[l_], vs.has[S.l2v[l_]]), semr(S, vs.val[S.l2v[l_]]), A[l_]),
                                                  patterns=[A2[l_]]))]


def composeN_post(c):
    S0, S1, a, r = c.S0, c.S1, c.a, c.r
    return wf(S1, c.uses) + [('Ext', Ext(S0, S1, c.uses)), ('substitution', And(isref(S1, r), semr(S1, r) == semr(S0, a.f, 'sem2'))),
                             flags(S0, S1), ('order-kept', M.keep(S0, S1, list(M.ORDER_FIELDS)))]


COMPOSE_RAISES = {'ValueError': Raise(when=lambda c: BoolVal(True)), '_NeedsReordering': NR(nr_post()),
                  'RuntimeError': Raise(when=lambda c: BoolVal(True))}
reg(Contract('dd.bdd.BDD.compose!body:one', [('self', 'mgr'), ('f', 'int'), ('var_sub', 'dict:name->int')],
             pre=compose1_pre, post=compose1_post, modifies=REC_MOD, ret='int',
             uses={'cache', 'rc', 'sem2', 'sem3', 'agree:sem2', 'agree:sem3', 'order'}, raises=COMPOSE_RAISES))
reg(Contract('dd.bdd.BDD.compose!body:several', [('self', 'mgr'), ('f', 'int'), ('var_sub', 'dict:name->int')],
             pre=composeN_pre, post=composeN_post, modifies=REC_MOD, ret='int', uses={'cache', 'rc', 'sem2', 'order'}, raises=COMPOSE_RAISES))


# ---- decorated compose as seen by callers: case split on the number of substituted variables ------------------------
def _merge(cond, c1, cN, name):
    def pre(c):
        k = cond(c)
        return [(nm, Implies(k, g)) for nm, g in c1.pre(c) if nm != 'exactly-one-variable'] + \
               [(nm, Implies(Not(k), g)) for nm, g in cN.pre(c) if nm != 'several-variables']

    def post(c):
        k = cond(c)
        return [(nm + '[one]', Implies(k, g)) for nm, g in c1.post(c)] + [(nm + '[several]', Implies(Not(k), g)) for nm, g in cN.post(c)]
    return Contract(name, c1.params, pre, post, modifies=c1.modifies, ret=c1.ret, raises=c1.raises,
                    uses=c1.uses | cN.uses, mutates=c1.mutates)


COMPOSE_BODY = reg(_merge(lambda c: c.a.var_sub._len == 1, REG['dd.bdd.BDD.compose!body:one'], REG['dd.bdd.BDD.compose!body:several'],
                          'dd.bdd.BDD.compose!body'))
COMPOSE_DEC = reg(decorate(COMPOSE_BODY, 'dd.bdd.BDD.compose'))


# ---- let: dispatch on the kind of the values (three variants of one function) ------------------------------------------
def let_contract(kind, inner, dparam):
    """BDD.let(definitions, u) for a dict of the given value kind delegates to `inner` (decorated)"""
    def conv(c):
        a = type(c.a)(**{**c.a.__dict__})
        setattr(a, dparam, c.a.definitions)
        if inner is COMPOSE_DEC:
            a.f = c.a.u
        return type(c)(**{**c.__dict__, 'a': a})

    def pre(c):
        return inner.pre(conv(c)) + [('dict-truth', empty_means_no_member(c.a.definitions))]

    def post(c):
        from vlib.vc.symex import nonempty
        ne = nonempty(c.a.definitions)
        return [('empty-definitions-change-nothing', Implies(Not(ne), And(c.r == c.a.u, M.keep(c.S0, c.S1))))] + \
               [(nm, Implies(ne, g)) for nm, g in inner.post(conv(c))]
    return reg(Contract(f'dd.bdd.BDD.let:{kind}', [('self', 'mgr'), ('definitions', f'dict:name->{kind}'), ('u', 'int')],
                        pre=pre, post=post, modifies=M.ALLF, ret='int', uses=inner.uses,
                        raises={exc: Raise(when=(lambda c, rs=rs: And(__import__('vlib.vc.symex', fromlist=['nonempty']).nonempty(c.a.definitions),
                                                                       rs.when(conv(c)))), post=rs.post, must=rs.must)
                                for exc, rs in inner.raises.items()}))


LET_BOOL = let_contract('bool', COFACTOR_DEC, 'values')
LET_INT = let_contract('int', COMPOSE_DEC, 'var_sub')
LET_NAME = let_contract('name', RENAME_DEC, 'dvars')


# ---------------------------------------------------------------------------------------------------------------
# support (C10): pointwise in the arbitrary level HL (family HASLVL); "depends on the variable" is lemma L-ESS
def supp_closed(S, nodes, levels, from_level):
    """visited nodes at or below `from_level` are finished: whatever they reach at level HL is recorded"""
    return ForAll([x_], Implies(And(nodes.has[x_], S.lvl[x_] >= from_level), And(S.dom[x_], x_ >= 1, Implies(S.hl[x_], levels.has[HL]))),
                  patterns=[nodes.has[x_]])


def in_range(S, levels):
    return ForAll([l_], Implies(levels.has[l_], And(0 <= l_, l_ < S.nvars)), patterns=[levels.has[l_]])


def _support_pre(c):
    S, a = c.S, c.a
    return wf(S, c.uses) + [('ref', isref(S, a.u)), ('levels-in-range', in_range(S, a.levels)),
                            ('visited-closed', supp_closed(S, a.nodes, a.levels, lv(S, a.u)))]


def _support_post(c):
    S, a = c.S0, c.a
    l0, l1 = c.muts['levels']
    n0, n1 = c.muts['nodes']
    return [('complete', Implies(S.hl[absz(a.u)], l1.has[HL])),
            ('sound', Implies(l1.has[HL], Or(l0.has[HL], S.hl[absz(a.u)]))),
            ('levels-grow', ForAll([l_], Implies(l0.has[l_], l1.has[l_]), patterns=[l0.has[l_], l1.has[l_]])),
            ('levels-in-range', in_range(S, l1)),
            ('visited-grow', ForAll([x_], Implies(n0.has[x_], n1.has[x_]), patterns=[n0.has[x_], n1.has[x_]])),
            ('new-visited-closed', ForAll([x_], Implies(And(n1.has[x_], Not(n0.has[x_])),
                                                        And(S.dom[x_], x_ >= 1, S.lvl[x_] >= lv(S, a.u), Implies(S.hl[x_], l1.has[HL]))),
                                          patterns=[n1.has[x_]]))]


reg(Contract('dd.bdd.BDD._support', [('self', 'mgr'), ('u', 'int'), ('levels', 'set:int'), ('nodes', 'set:int')],
             pre=_support_pre, post=_support_post, ret='none', uses={'hl', 'order'}, mutates=['levels', 'nodes']))


def support_post(c):
    S, a, r = c.S0, c.a, c.r
    if isinstance(r, SetV) and r.kkind == 'int':
        return [('levels-of-the-support', r.has[HL] == S.hl[absz(a.u)])]
    return [('variable-at-HL-in-support-iff-reachable', ForAll([n_], Implies(And(S.vin[n_], S.v2l[n_] == HL), r.has[n_] == S.hl[absz(a.u)]),
                                                               patterns=[r.has[n_]])),
            ('only-declared-names', ForAll([n_], Implies(r.has[n_], S.vin[n_]), patterns=[r.has[n_]]))]


for _flag, _ret in ((False, 'set:name'), (True, 'set:int')):
    reg(Contract('dd.bdd.BDD.support!proved:' + ('levels' if _flag else 'names'), [('self', 'mgr'), ('u', 'int'), ('as_levels', 'bool')],
                 pre=lambda c, _f=_flag: wf(c.S, c.uses) + [('ref', isref(c.S, c.a.u)), ('as_levels', c.a.as_levels == BoolVal(_f))],
                 post=support_post, ret=_ret, uses={'hl', 'order'}))


# ---------------------------------------------------------------------------------------------------------------
# helpers of swap (C07) and the argument validation of swap (C17). The body of swap itself is bounded (DESIGN 12.2).
def low_high_post(c):
    S, a = c.S0, c.a
    i, lo_, hi_ = c.r
    k = absz(a.u)
    return [('level', i == S.lvl[k]),
            ('children', If(k == 1, And(lo_ == a.u, hi_ == a.u), And(lo_ == S.lo[k], hi_ == S.hi[k])))]


reg(Contract('dd.bdd.BDD._low_high', [('self', 'mgr'), ('u', 'int')], pre=lambda c: wf(c.S, c.uses) + [('ref', isref(c.S, c.a.u))],
             post=low_high_post, ret='triple', uses=set()))


def swap_cofactor_post(c):
    S, a = c.S0, c.a
    i, lo_, hi_ = c.r
    k = absz(a.u)
    return [('below-y', Implies(a.y < S.lvl[k], And(i == S.lvl[k], lo_ == a.u, hi_ == a.u))),
            ('at-or-above-y', Implies(Not(a.y < S.lvl[k]), And(i == a.y, lo_ == S.lo[k], hi_ == S.hi[k])))]


reg(Contract('dd.bdd.BDD._swap_cofactor', [('self', 'mgr'), ('u', 'int'), ('y', 'int')],
             pre=lambda c: wf(c.S, c.uses) + [('ref', isref(c.S, c.a.u)), ('y-is-a-level', And(0 <= c.a.y, c.a.y < c.S.nvars))],
             post=swap_cofactor_post, ret='triple', uses=set()))


def swap_levels(S, a, names):
    if names:
        return If(S.vin[a.x], S.v2l[a.x], -1), If(S.vin[a.y], S.v2l[a.y], -1), And(S.vin[a.x], S.vin[a.y])
    return a.x, a.y, BoolVal(True)


def swap_bad(names):
    def bad(c):
        S = c.S0
        lx, ly, ok = swap_levels(S, c.a, names)
        inr = lambda l: And(0 <= l, l < S.nvars)  # noqa
        return Or(Not(ok), Not(inr(lx)), Not(inr(ly)), lx == ly, And(lx - ly != 1, ly - lx != 1))
    return bad


for _names in (False, True):
    _k = reg(Contract('dd.bdd.BDD.swap!validation:' + ('names' if _names else 'levels'),
                      [('self', 'mgr'), ('x', 'name' if _names else 'int'), ('y', 'name' if _names else 'int'), ('all_levels', 'opaque')],
                      pre=lambda c: wf(c.S, c.uses), post=lambda c: [], ret='pair', uses=ORD,
                      raises={'ValueError': Raise(when=swap_bad(_names), must=True)},
                      note='only the argument validation of swap: execution is cut where the body starts (`oldsize = len(self._succ)`); '
                           'proved: ValueError is raised, with nothing modified, iff the arguments are not two adjacent levels '
                           '(or declared names at adjacent levels); otherwise the body is reached with x < y = x + 1'))
    _k.stop_at = lambda st: isinstance(st, ast.Assign) and isinstance(st.targets[0], ast.Name) and st.targets[0].id == 'oldsize'
    _k.stop_post = lambda c, _n=_names: [('body-reached-with-adjacent-levels', And(c.env_x + 1 == c.env_y, 0 <= c.env_x, c.env_y < c.S0.nvars)),
                                         ('nothing-modified', And(*[M.keep(c.mgrs0[k], c.mgrs[k]) for k in c.mgrs0]))]


# ---------------------------------------------------------------------------------------------------------------
# reorder to a given order (C07): `_sort_to_order` against the ASSUMED caller-view contract of swap (its order effect; the observed
# contract of swap, vlib/vc/contracts_reorder.py, is what the cross-check evaluates on real executions)
def swap_order_effect(S0, S1, x, y):
    return And(S1.nvars == S0.nvars, S1.l2v[x] == S0.l2v[y], S1.l2v[y] == S0.l2v[x],
               ForAll([l_], Implies(And(l_ != x, l_ != y), S1.l2v[l_] == S0.l2v[l_]), patterns=[S1.l2v[l_]]),
               ForAll([l_], S1.lin[l_] == S0.lin[l_], patterns=[S1.lin[l_]]), ForAll([n_], S1.vin[n_] == S0.vin[n_], patterns=[S1.vin[n_]]),
               # the same exchange read through the inverse map (follows from the line above and W8; stated for the callers)
               ForAll([n_], Implies(S0.vin[n_], S1.v2l[n_] == If(S0.v2l[n_] == x, y, If(S0.v2l[n_] == y, x, S0.v2l[n_]))),
                      patterns=[S1.v2l[n_], S0.v2l[n_]]))


reg(Contract('dd.bdd.BDD.swap', [('self', 'mgr'), ('x', 'int'), ('y', 'int'), ('all_levels', 'opaque')],
             pre=lambda c: wf(c.S, ORD) + [('adjacent-levels', And(0 <= c.a.x, 0 <= c.a.y, c.a.x < c.S.nvars, c.a.y < c.S.nvars,
                                                                  Or(c.a.y == c.a.x + 1, c.a.x == c.a.y + 1)))],
             post=lambda c: wf(c.S1, ORD) + [('levels-exchanged', swap_order_effect(c.S0, c.S1, c.a.x, c.a.y)),
                                             ('switches-kept', And(c.S1.lastlen == c.S0.lastlen, c.S1.ctx == c.S0.ctx))],
             modifies=M.ALLF, ret='pair', uses=ORD, assumed=True,
             note='ASSUMED caller view of swap (order effect only): its body is outside the VC generator; the observed contract '
                  'dd.bdd.BDD.swap!observed states the same effect and is evaluated on real executions by the cross-check'))
reg(Contract('dd.bdd.BDD._levels', [('self', 'mgr')], pre=lambda c: [], post=lambda c: [], ret='opaque', assumed=True,
             note='assumed: returns the partition of the nodes by level (only handed on to swap)'))
reg(Contract('dd.bdd.BDD.assert_consistent', [('self', 'mgr')], pre=lambda c: [], post=lambda c: [], ret='none', assumed=True,
             note='assumed: debugging aid (run only at log levels below DEBUG), no effect on a well-formed manager'))


def shift_map(a, l):
    """level at which the variable of level l (before) sits after shifting `start` to `end`"""
    up = And(a.start < a.end, a.start < l, l <= a.end)
    down = And(a.end < a.start, a.end <= l, l < a.start)
    return If(l == a.start, a.end, If(up, l - 1, If(down, l + 1, l)))


def shift_effect(S0, S1, a, upto):
    """after `upto` swaps the variable of level `start` has moved `upto` levels towards `end`"""
    cur = If(a.start < a.end, a.start + upto, a.start - upto)
    b = type(a)(start=a.start, end=cur)
    return And(ForAll([l_], Implies(S0.lin[l_], S1.l2v[shift_map(b, l_)] == S0.l2v[l_]), patterns=[S0.l2v[l_]]),
               ForAll([n_], Implies(S0.vin[n_], S1.v2l[n_] == shift_map(b, S0.v2l[n_])), patterns=[S1.v2l[n_], S0.v2l[n_]]))


def shift_inv(c):
    S, E = c.mgrs['bdd'], c.entry['bdd']
    a = type(c)(start=c.env0['start'].z, end=c.env0['end'].z)
    return wf(S, ORD) + [('same-variables', And(S.nvars == E.nvars, ForAll([n_], S.vin[n_] == E.vin[n_], patterns=[S.vin[n_]]),
                                                ForAll([l_], S.lin[l_] == E.lin[l_], patterns=[S.lin[l_]]))),
                         ('moved-so-far', shift_effect(E, S, a, c.idx)), ('switches-kept', And(S.lastlen == E.lastlen, S.ctx == E.ctx)),
                         ('idx', c.idx >= 0), ('sizes-keys-between-start-and-end', shift_sizes(a, c.env['sizes']))]


def shift_sizes(a, sizes):
    """the recorded sizes are indexed by levels between `start` and `end`, and there are none when start == end"""
    return ForAll([l_], Implies(sizes.has[l_], And(a.start != a.end, min2(a.start, a.end) <= l_, l_ <= If(a.start >= a.end, a.start, a.end))),
                  patterns=[sizes.has[l_]])


reg(Contract('dd.bdd._shift', [('bdd', 'mgr'), ('start', 'int'), ('end', 'int'), ('levels', 'opaque')], mgr='bdd',
             pre=lambda c: wf(c.S, ORD) + [('levels-in-range', And(0 <= c.a.start, c.a.start < c.S.nvars, 0 <= c.a.end, c.a.end < c.S.nvars))],
             post=lambda c: wf(c.S1, ORD) + [
                 ('variable-moved-others-shifted-by-one', ForAll([l_], Implies(c.S0.lin[l_], c.S1.l2v[shift_map(c.a, l_)] == c.S0.l2v[l_]),
                                                                 patterns=[c.S0.l2v[l_]])),
                 ('the-same-by-name', ForAll([n_], Implies(c.S0.vin[n_], c.S1.v2l[n_] == shift_map(c.a, c.S0.v2l[n_])),
                                             patterns=[c.S1.v2l[n_], c.S0.v2l[n_]])),
                 ('same-variables', And(c.S1.nvars == c.S0.nvars, ForAll([n_], c.S1.vin[n_] == c.S0.vin[n_], patterns=[c.S1.vin[n_]]))),
                 ('switches-kept', And(c.S1.lastlen == c.S0.lastlen, c.S1.ctx == c.S0.ctx)),
                 ('sizes-keys-between-start-and-end', shift_sizes(c.a, c.r))],
             modifies=M.ALLF, ret='dict:int->int', uses=ORD, loops={0: dict(inv=shift_inv, modifies_mgr=[('bdd', M.ALLF)], modifies_dicts=['sizes'])},
             note='rests on the ASSUMED order effect of swap'))


# sifting (C07): `_reorder_var`, `_apply_sifting` and the sifting branch of `reorder` against the ASSUMED order effect of swap:
# whatever positions sifting chooses, afterwards the same variables occupy the same contiguous levels one-to-one (WF order clauses),
# and the switches of dynamic reordering are as before. That no function changes rests on the assumed/observed contract of swap;
# that the table does not grow is checked by the code itself (AssertionError) and by the observed contract dd.bdd.reorder!observed.
def sift_kept(S0, S1):
    return [('same-variables', And(S1.nvars == S0.nvars, ForAll([n_], S1.vin[n_] == S0.vin[n_], patterns=[S1.vin[n_]]),
                                   ForAll([l_], S1.lin[l_] == S0.lin[l_], patterns=[S1.lin[l_]]))),
            ('switches-kept', And(S1.lastlen == S0.lastlen, S1.ctx == S0.ctx))]


reg(Contract('dd.bdd._reorder_var', [('bdd', 'mgr'), ('var', 'name'), ('levels', 'opaque')], mgr='bdd',
             pre=lambda c: wf(c.S, ORD), post=lambda c: wf(c.S1, ORD) + sift_kept(c.S0, c.S1) + [
                 ('returns-a-level', And(0 <= c.r, c.r < c.S1.nvars))],
             modifies=M.ALLF, ret='int', uses=ORD,
             raises={'ValueError': Raise(when=lambda c: Not(c.S0.vin[c.a.var]), must=True, post=lambda c: [('nothing-modified', M.keep(c.S0, c.S1))]),
                     'AssertionError': Raise(when=lambda c: c.S0.vin[c.a.var], post=lambda c: wf(c.S1, ORD) + sift_kept(c.S0, c.S1))},
             note='rests on the ASSUMED order effect of swap (through _shift); the AssertionError is the code\'s own check that the '
                  'table did not grow'))


def sift_inv(c):
    S, E = c.mgrs['bdd'], c.entry['bdd']
    names = c.env['names']
    return wf(S, ORD) + sift_kept(E, S) + [('names-are-declared', ForAll([n_], Implies(names.has[n_], E.vin[n_]), patterns=[names.has[n_]]))]


def sift_post(c):
    return wf(c.S1, ORD) + sift_kept(c.S0, c.S1)


SIFT_RAISES = {'AssertionError': Raise(when=lambda c: BoolVal(True), post=sift_post)}
reg(Contract('dd.bdd._apply_sifting', [('bdd', 'mgr')], mgr='bdd', pre=lambda c: wf(c.S, None), post=sift_post,
             modifies=M.ALLF, ret='none', uses=ORD, raises=SIFT_RAISES,
             loops={0: dict(inv=sift_inv, modifies=['k', 'm'], modifies_mgr=[('bdd', M.ALLF)])},
             note='every declared variable is sifted once; rests on the ASSUMED order effect of swap'))
reg(Contract('dd.bdd.reorder!sifting', [('bdd', 'mgr'), ('order', 'none')], mgr='bdd', pre=lambda c: wf(c.S, None), post=sift_post,
             modifies=M.ALLF, ret='none', uses=ORD, raises=SIFT_RAISES,
             note='reorder(bdd): the sifting branch (order=None)'))


def adjacent(S, x, y):
    return Or(S.v2l[x] == S.v2l[y] + 1, S.v2l[y] == S.v2l[x] + 1)


def pairs_pre(S, pairs):
    n2 = M.Const('n2!pr', M.Name)
    return [('names-declared', ForAll([n_], Implies(pairs.has[n_], And(S.vin[n_], S.vin[pairs.val[n_]])), patterns=[pairs.has[n_]])),
            ('all-names-in-the-pairs-distinct', And(
                ForAll([n_], Implies(pairs.has[n_], pairs.val[n_] != n_), patterns=[pairs.has[n_]]),
                ForAll([n_, n2], Implies(And(pairs.has[n_], pairs.has[n2], n_ != n2),
                                         And(pairs.val[n_] != pairs.val[n2], pairs.val[n_] != n2, pairs.val[n2] != n_)),
                       patterns=[MultiPattern(pairs.has[n_], pairs.has[n2])])))]


def rtp_inv(c):
    S, E = c.mgrs['bdd'], c.entry['bdd']
    pairs = c.env['pairs']
    En = c.env['%enum:pairs']
    return wf(S, ORD) + [('same-variables', And(S.nvars == E.nvars, ForAll([n_], S.vin[n_] == E.vin[n_], patterns=[S.vin[n_]]))),
                         ('pairs-so-far-adjacent', ForAll([k_], Implies(And(0 <= k_, k_ < c.idx), adjacent(S, En.arr[k_], pairs.val[En.arr[k_]])),
                                                          patterns=[En.arr[k_]])),
                         ('switches-kept', And(S.lastlen == E.lastlen, S.ctx == E.ctx))]


reg(Contract('dd.bdd.reorder_to_pairs', [('bdd', 'mgr'), ('pairs', 'dict:name->name')], mgr='bdd',
             pre=lambda c: wf(c.S, ORD) + pairs_pre(c.S, c.a.pairs),
             post=lambda c: wf(c.S1, ORD) + [
                 ('every-requested-pair-adjacent', ForAll([n_], Implies(c.a.pairs.has[n_], adjacent(c.S1, n_, c.a.pairs.val[n_])),
                                                         patterns=[c.a.pairs.has[n_]])),
                 ('same-variables', And(c.S1.nvars == c.S0.nvars, ForAll([n_], c.S1.vin[n_] == c.S0.vin[n_], patterns=[c.S1.vin[n_]]))),
                 ('switches-kept', And(c.S1.lastlen == c.S0.lastlen, c.S1.ctx == c.S0.ctx))],
             modifies=M.ALLF, ret='none', uses=ORD, loops={0: dict(inv=rtp_inv, modifies=['m'], modifies_mgr=[('bdd', M.ALLF)])},
             note='precondition: the names occurring in the pairs are pairwise distinct (otherwise making one pair adjacent can separate '
                  'another); rests on _shift and thereby on the ASSUMED order effect of swap'))


# ---------------------------------------------------------------------------------------------------------------
# undeclare_vars (C14, C17): the refusals, as a prefix contract (the rebuilding of the tables by comprehensions is outside the generator;
# its effect is the observed contract in contracts_reorder.py)
def und_in_use(S, l):
    u2 = Int('u!und')
    return Exists([u2], And(S.dom[u2], S.lvl[u2] == l))


def und_refused(c):
    S, a = c.S0, c.a
    kk = Int('k!und')
    return Exists([kk], And(0 <= kk, kk < a.vrs.n, Or(Not(S.vin[a.vrs.arr[kk]]), und_in_use(S, S.v2l[a.vrs.arr[kk]]))))


def und_inv0(c):
    S, a = c.mgrs['self'], c.env['vrs']
    return [('declared-so-far', ForAll([k_], Implies(And(0 <= k_, k_ < c.idx), S.vin[a.arr[k_]]), patterns=[a.arr[k_]])),
            ('nothing-modified', M.keep(c.entry['self'], S))]


def und_inv1(c):
    S, a = c.mgrs['self'], c.env['vrs']
    return [('all-declared', ForAll([k_], Implies(And(0 <= k_, k_ < a.n), S.vin[a.arr[k_]]), patterns=[a.arr[k_]])),
            ('unused-so-far', ForAll([k_], Implies(And(0 <= k_, k_ < c.idx), Not(und_in_use(S, S.v2l[a.arr[k_]]))), patterns=[a.arr[k_]])),
            ('nothing-modified', M.keep(c.entry['self'], S))]


_k = reg(Contract('dd.bdd.BDD.undeclare_vars!refusals', [('self', 'mgr'), ('vrs', 'list:name')],
                  pre=lambda c: wf(c.S, ORD), post=lambda c: [], ret='set:name', uses=ORD,
                  raises={'ValueError': Raise(when=und_refused, must=True)}, loops={0: dict(inv=und_inv0), 1: dict(inv=und_inv1)},
                  note='only the refusals of undeclare_vars: execution is cut at `if vrs:` (before anything is rebuilt); proved: ValueError with '
                       'nothing modified iff a named variable is undeclared or its level still holds a node; otherwise the rebuilding is '
                       'reached with every named variable declared and unused'))
_k.stop_at = lambda st: isinstance(st, ast.If) and isinstance(st.test, ast.Name) and st.test.id == 'vrs'
_k.stop_post = lambda c: [('nothing-modified', And(*[M.keep(c.mgrs0[k], c.mgrs[k]) for k in c.mgrs0])),
                          ('named-variables-declared-and-unused', Not(und_refused(c)))]


def P_of(S, order, l):
    """target position of the variable that sits at level l"""
    return order.val[S.l2v[l]]


def order_valid(S, order):
    n2 = M.Const('n2!ord', M.Name)
    return [('order-names-are-the-variables', ForAll([n_], order.has[n_] == S.vin[n_], patterns=[order.has[n_]])),
            ('order-length', order._len == S.nvars)]


def dominates(S, order, j):
    """position j holds a target at least as large as every earlier position"""
    j2 = Int('j2!ord')
    return ForAll([j2], Implies(And(0 <= j2, j2 < j), P_of(S, order, j2) <= P_of(S, order, j)), patterns=[S.l2v[j2]])


def sto_common(c, S):
    E = c.entry['bdd']
    return wf(S, ORD) + [('same-variables', And(S.nvars == E.nvars, ForAll([n_], S.vin[n_] == E.vin[n_], patterns=[S.vin[n_]]))),
                         ('switches-kept', And(S.lastlen == E.lastlen, S.ctx == E.ctx))]


def sto_outer_inv(c):
    S = c.mgrs['bdd']
    order = c.env['order']
    n = S.nvars
    j = Int('j!ord')
    return sto_common(c, S) + [('k-range', And(0 <= c.idx, Or(c.idx <= n, n == 0))),
                               ('suffix-dominates', ForAll([j], Implies(And(n - c.idx <= j, j < n, 0 <= j), dominates(S, order, j)), patterns=[S.l2v[j]]))]


def sto_inner_inv(c):
    S = c.mgrs['bdd']
    order = c.env['order']
    n = S.nvars
    k = c.env['k'].z
    j = Int('j!ord')
    i = c.idx
    return sto_common(c, S) + [('i-range', And(0 <= i, i <= If(n >= 1, n - 1, 0))), ('k-range', And(0 <= k, k < n)),
                               ('suffix-dominates', ForAll([j], Implies(And(n - k <= j, j < n, 0 <= j), dominates(S, order, j)), patterns=[S.l2v[j]])),
                               ('prefix-maximum-at-i', Implies(i < n, dominates(S, order, i))),
                               ('new-suffix-element', Implies(And(i >= n - 1 - k, n - 1 - k >= 0), dominates(S, order, n - 1 - k)))]


def sto_post(c):
    S0, S1, a = c.S0, c.S1, c.a
    j, j2 = Int('j!ord'), Int('j2!ord')
    return wf(S1, ORD) + [('levels-sorted-by-target-position', ForAll([j2, j], Implies(And(0 <= j2, j2 < j, j < S1.nvars),
                                                                               P_of(S1, a.order, j2) <= P_of(S1, a.order, j)),
                                                                  patterns=[MultiPattern(S1.l2v[j2], S1.l2v[j])])),
                          ('same-variables', And(S1.nvars == S0.nvars, ForAll([n_], S1.vin[n_] == S0.vin[n_], patterns=[S1.vin[n_]]))),
                          ('switches-kept', And(S1.lastlen == S0.lastlen, S1.ctx == S0.ctx))]


reg(Contract('dd.bdd._sort_to_order', [('bdd', 'mgr'), ('order', 'dict:name->int')], mgr='bdd',
             pre=lambda c: wf(c.S, ORD) + order_valid(c.S, c.a.order), post=sto_post, modifies=M.ALLF, ret='none', uses=ORD,
             raises={'ValueError': Raise(when=lambda c: BoolVal(True), post=lambda c: wf(c.S1, ORD) + [
                 ('same-variables', And(c.S1.nvars == c.S0.nvars, ForAll([n_], c.S1.vin[n_] == c.S0.vin[n_], patterns=[c.S1.vin[n_]])))])},
             loops={0: dict(inv=sto_outer_inv, modifies=['m'], modifies_mgr=[('bdd', M.ALLF)]),
                    1: dict(inv=sto_inner_inv, modifies=['m'], modifies_mgr=[('bdd', M.ALLF)]),
                    2: dict(inv=lambda c: [])},
             note='bubble sort over adjacent levels: afterwards the levels are sorted by the requested positions; with the requested '
                  'positions a permutation of 0..n-1 (checked by _assert_valid_ordering in reorder()) sortedness is equality (pigeonhole: '
                  'not derived in the SMT layer). Rests on the ASSUMED order effect of swap'))


reg(Contract('dd.bdd.reorder!order', [('bdd', 'mgr'), ('order', 'dict:name->int')], mgr='bdd',
             pre=lambda c: wf(c.S, ORD) + order_valid(c.S, c.a.order), post=lambda c: sto_post(c), modifies=M.ALLF, ret='none', uses=ORD,
             raises=REG['dd.bdd._sort_to_order'].raises if False else {'ValueError': Raise(when=lambda c: BoolVal(True), post=lambda c: [])},
             note='reorder(bdd, order): delegates to _sort_to_order (the sifting branch, order=None, stays bounded / observed)'))


# ---------------------------------------------------------------------------------------------------------------
# relational product (C13): `_image` against the ghost functions IMG / FIMG on *pairs* of references.
# For the fixed arbitrary assignment A, with B = A o umap (term A2), IMG(u, v) is "some choice of values for the levels in Q
# makes u (under B) and v (read through vmap) both true", FIMG the universal dual. Their recursion equations over the frozen
# entry heap E (lemma L-IMG, lean/BddImage.lean: they hold for the semantic definitions when vmap keeps the order of v's
# levels, which is what the documented adjacency precondition is for) are ASSUMED here as the definition of the ghost.
EI = State('Eimg')
IMG = M.z3.Function('IMG', I, I, B) if hasattr(M, 'z3') else None
from z3 import Function as _Fn  # noqa: E402
IMG = _Fn('IMG', I, I, B)
FIMG = _Fn('FIMG', I, I, B)
UNF = _Fn('UNFOLD', I, I, B)     # trigger: the recursion equations are instantiated for the pair of the call only
u2_, v2_ = Int('u!img'), Int('v!img')


def _mapped(mp, z):
    from vlib.vc.symex import DictV
    return If(mp.has[z], mp.val[z], z) if isinstance(mp, DictV) else z


def img_terms(E, a, u, v):
    iu, jv = E.lvl[absz(u)], E.lvl[absz(v)]
    iv = _mapped(a.vmap, jv)
    z = min2(iu, iv)
    cof = lambda x, hit: (If(hit, If(x > 0, E.lo[absz(x)], -E.lo[absz(x)]), x), If(hit, If(x > 0, E.hi[absz(x)], -E.hi[absz(x)]), x))  # noqa
    u0, u1 = cof(u, iu == z)
    v0, v1 = cof(v, iv == z)
    return z, u0, u1, v0, v1


def img_axioms(E, a):
    z, u0, u1, v0, v1 = img_terms(E, a, u2_, v2_)
    live = And(isref(E, u2_), isref(E, v2_), u2_ != -1, v2_ != -1, Not(And(u2_ == 1, v2_ == 1)))
    return [('IMG-base', ForAll([u2_], And(Not(IMG(-1, u2_)), Not(IMG(u2_, -1)), Not(FIMG(-1, u2_)), Not(FIMG(u2_, -1))),
                                patterns=[IMG(-1, u2_), IMG(u2_, -1), FIMG(-1, u2_), FIMG(u2_, -1)])),
            ('IMG-one', And(IMG(1, 1), FIMG(1, 1))),
            ('IMG-rec', ForAll([u2_, v2_], Implies(live, IMG(u2_, v2_) == If(Q[z], Or(IMG(u0, v0), IMG(u1, v1)),
                                                                             If(A2[z], IMG(u1, v1), IMG(u0, v0)))),
                               patterns=[UNF(u2_, v2_)])),
            ('FIMG-rec', ForAll([u2_, v2_], Implies(live, FIMG(u2_, v2_) == If(Q[z], And(FIMG(u0, v0), FIMG(u1, v1)),
                                                                               If(A2[z], FIMG(u1, v1), FIMG(u0, v0)))),
                                patterns=[UNF(u2_, v2_)])),
            ('unfold-everywhere', ForAll([u2_, v2_], UNF(u2_, v2_), patterns=[UNF(u2_, v2_)])),
            ('A2-is-A-after-umap', ForAll([l_], A2[l_] == A[_mapped(a.umap, l_)], patterns=[A2[l_]]))]


def img_val(a, u, v):
    return If(a.forall, FIMG(u, v), IMG(u, v))


def img_memo_valid(E, S, a, cache):
    t = M._t
    return ForAll([t], Implies(cache.has[t], And(isref(E, Fork.l(t)), isref(E, Fork.lo(t)), Fork.hi(t) == 0, isref(S, cache.val[t]),
                                                 semr(S, cache.val[t]) == img_val(a, Fork.l(t), Fork.lo(t)))), patterns=[cache.has[t]])


def img_pre(c):
    S, a = c.S, c.a
    return wf(S, c.uses) + [('extends-entry-heap', Ext(EI, S, c.uses)), ('refs', And(isref(EI, a.u), isref(EI, a.v))),
                            ('requests-off', S.lastlen < 0),
                            ('Q-is-qvars', ForAll([l_], Q[l_] == a.qvars.has[l_], patterns=[Q[l_]])),
                            ('entry-heap-closed', And(EI.dom[1], EI.lo[1] == 0, EI.hi[1] == 0, ForAll([x_], Implies(And(EI.dom[x_], x_ > 1), And(
                                EI.hi[x_] > 0, EI.dom[EI.hi[x_]], EI.lo[x_] != 0, EI.dom[absz(EI.lo[x_])])), patterns=[EI.dom[x_]]))),
                            ('umap-targets-are-levels', BoolVal(True) if not hasattr(a.umap, 'has') else ForAll(
                                [l_], Implies(And(a.umap.has[l_], 0 <= l_, l_ < S.nvars), And(0 <= a.umap.val[l_], a.umap.val[l_] < S.nvars)),
                                patterns=[a.umap.has[l_]])),
                            ('vmap-maps-levels-to-levels', BoolVal(True) if not hasattr(a.vmap, 'has') else ForAll(
                                [l_], Implies(a.vmap.has[l_], And(0 <= l_, l_ < S.nvars, 0 <= a.vmap.val[l_], a.vmap.val[l_] < S.nvars)),
                                patterns=[a.vmap.has[l_]])),
                            ('memo', img_memo_valid(EI, S, a, a.cache)), ('unfold', UNF(a.u, a.v))] + img_axioms(EI, a)


def img_post(c):
    S0, S1, a, r = c.S0, c.S1, c.a, c.r
    return wf(S1, c.uses) + [('Ext', Ext(S0, S1, c.uses)), ('extends-entry-heap', Ext(EI, S1, c.uses)),
                             ('relational-product', And(isref(S1, r), semr(S1, r) == img_val(a, a.u, a.v))),
                             ('memo', img_memo_valid(EI, S1, a, c.muts['cache'][1])), flags(S0, S1),
                             ('order-kept', M.keep(S0, S1, list(M.ORDER_FIELDS)))]


IMAGE_PARAMS = [('u', 'int'), ('v', 'int'), ('umap', 'any'), ('vmap', 'any'), ('qvars', 'set:int'), ('bdd', 'mgr'), ('forall', 'bool'),
                ('cache', 'dict:fork->int')]
IMGREC = reg(Contract('dd.bdd._image', IMAGE_PARAMS, pre=img_pre, post=img_post, modifies=REC_MOD, ret='int', mgr='bdd',
                      uses={'cache', 'rc'}, mutates=['cache'], raises=REC_RAISES))
reg(Contract('dd.bdd._image_root', IMAGE_PARAMS, pre=lambda c: [(n, g) for n, g in img_pre(c) if n not in ('requests-off', 'unfold')],
             post=img_post, modifies=REC_MOD + ['lastlen'], ret='int', mgr='bdd', uses={'cache', 'rc'}, mutates=['cache'],
             raises={'RuntimeError': Raise(when=lambda c: BoolVal(True))},
             note='requests are switched off around the recursion and restored in `finally`: the signal cannot escape'))
IMGREC.case_split = lambda c: [c.a.forall, EI.lvl[absz(c.a.u)] <= _mapped(c.a.vmap, EI.lvl[absz(c.a.v)])]
IMGREC.call_skip = {'Q-is-qvars', 'umap-targets-are-levels', 'vmap-maps-levels-to-levels', 'entry-heap-closed', 'IMG-base', 'IMG-one', 'IMG-rec', 'FIMG-rec', 'A2-is-A-after-umap', 'unfold-everywhere'}


# ---------------------------------------------------------------------------------------------------------------
# model counting recursion (C10): `_sat_len` against the ghost count CNTF on nodes, defined by its recursion over the diagram for the
# given compression `map_level` of the levels (ASSUMED here as the definition of the ghost, like IMG: that it is the number of
# satisfying assignments over the compressed levels below a node is the textbook counting argument; the C10 driver compares `count`
# with truth tables exhaustively for <= 5 variables)
CNTF = _Fn('CNTF', I, I) if '_Fn' in globals() else None


def _cnt_decl():
    global CNTF, UNFC
    from z3 import Function as F_
    CNTF = F_('CNTF', I, I)
    UNFC = F_('UNFOLD_CNT', I, B)


_cnt_decl()


def ml_of(S, ml, x):
    return ml.val[S.lvl[x]]


def cntr(S, ml, r):
    """count read through a signed reference: the complement has the remaining assignments below the node's level"""
    N = ml.extra['all']
    return If(r > 0, CNTF(absz(r)), M.P2(N - ml_of(S, ml, absz(r))) - CNTF(absz(r)))


RS = M.Array('RS', I, B)     # ghost: a set of nodes closed under children that contains the argument (the nodes the count is about)


def cnt_axioms(S, ml):
    N = ml.extra['all']
    inR = lambda x: And(RS[x], S.dom[x])  # noqa
    return [('P2-zero', M.P2(0) == 1), ('CNT-terminal', CNTF(1) == 1),
            ('CNT-rec', ForAll([x_], Implies(And(inR(x_), x_ > 1), CNTF(x_) ==
                                            M.mul(cntr(S, ml, S.lo[x_]), M.P2(ml_of(S, ml, absz(S.lo[x_])) - ml_of(S, ml, x_) - 1)) +
                                            M.mul(cntr(S, ml, S.hi[x_]), M.P2(ml_of(S, ml, S.hi[x_]) - ml_of(S, ml, x_) - 1))),
                               patterns=[UNFC(x_)])),
            ('unfold-everywhere', ForAll([x_], UNFC(x_), patterns=[UNFC(x_)])),
            ('nodes-of-interest-closed-under-children', ForAll([x_], Implies(RS[x_], And(
                S.dom[x_], x_ >= 1, Implies(x_ > 1, And(RS[absz(S.lo[x_])], RS[S.hi[x_]])))), patterns=[RS[x_]])),
            ('map_level-total-and-increasing-along-edges', ForAll([x_], Implies(RS[x_], And(
                ml.has[S.lvl[x_]], ml_of(S, ml, x_) <= N, Implies(x_ > 1, And(ml_of(S, ml, x_) < ml_of(S, ml, absz(S.lo[x_])),
                                                                            ml_of(S, ml, x_) < ml_of(S, ml, S.hi[x_]))))),
                patterns=[RS[x_]])),
            ('terminal-maps-to-all', ml_of(S, ml, IntVal(1)) == N)]


def cnt_memo_valid(S, d):
    return ForAll([x_], Implies(d.has[x_], And(RS[x_], S.dom[x_], x_ > 1, d.val[x_] == CNTF(x_))), patterns=[d.has[x_]])


reg(Contract('dd.bdd.BDD._assert_int', [('self', 'mgr'), ('number', 'int')], pre=lambda c: [], post=lambda c: [('identity', c.r == c.a.number)], ret='int',
             assumed=True, note='assumed: returns its argument when it is an int (`match number: case int()`); the engine only produces ints'))
reg(Contract('dd.bdd.BDD._sat_len', [('self', 'mgr'), ('u', 'int'), ('map_level', 'dict:int->int'), ('d', 'dict:int->int')],
             pre=lambda c: wf(c.S, set()) + [('ref', And(isref(c.S, c.a.u), RS[absz(c.a.u)])), ('memo', cnt_memo_valid(c.S, c.a.d)), ('unfold', UNFC(absz(c.a.u)))]
             + cnt_axioms(c.S, c.a.map_level),
             post=lambda c: [('count', c.r == cntr(c.S0, c.a.map_level, c.a.u)), ('memo', cnt_memo_valid(c.S0, c.muts['d'][1])),
                             ('memo-keys-grow', ForAll([x_], Implies(c.muts['d'][0].has[x_], c.muts['d'][1].has[x_]), patterns=[c.muts['d'][0].has[x_]])),
                             ('state-unchanged', M.keep(c.S0, c.S1))],
             ret='int', uses=set(), mutates=['d']))
REG['dd.bdd.BDD._sat_len'].call_skip = {'P2-zero', 'CNT-terminal', 'CNT-rec', 'unfold-everywhere', 'map_level-total-and-increasing-along-edges',
                                         'terminal-maps-to-all', 'nodes-of-interest-closed-under-children'}


# ---------------------------------------------------------------------------------------------------------------
# descendants (C18): pointwise in the arbitrary node RT (family REACH); "reachable" as an inductive relation is lemma L-REACH
def desc_complete(S, vis, from_level=None):
    """every visited node (at or below `from_level`) is finished: it is a stored node and, if RT is reachable from it, RT is
    visited. Nodes above `from_level` may be in progress (this makes the contract independent of whether a node is recorded
    before or after its children)."""
    g = vis.has[x_] if from_level is None else And(vis.has[x_], S.lvl[x_] >= from_level)
    return ForAll([x_], Implies(g, And(S.dom[x_], x_ >= 1, Implies(S.rt[x_], vis.has[RT]))), patterns=[vis.has[x_]])


def _desc_pre(c):
    S, a = c.S, c.a
    return wf(S, c.uses) + [('ref', isref(S, a.u)), ('terminal-visited', a.visited.has[1]),
                            ('visited-complete', desc_complete(S, a.visited, lv(S, a.u)))]


def _desc_post(c):
    S, a = c.S0, c.a
    v0, v1 = c.muts['visited']
    return [('visited-grow', ForAll([x_], Implies(v0.has[x_], v1.has[x_]), patterns=[v0.has[x_], v1.has[x_]])),
            ('contains-u', v1.has[absz(a.u)]),
            ('complete', Implies(S.rt[absz(a.u)], v1.has[RT])),
            ('sound', Implies(v1.has[RT], Or(v0.has[RT], S.rt[absz(a.u)]))),
            ('new-visited-complete', ForAll([x_], Implies(And(v1.has[x_], Not(v0.has[x_])),
                                                          And(S.dom[x_], x_ >= 1, S.lvl[x_] >= lv(S, a.u), Implies(S.rt[x_], v1.has[RT]))),
                                            patterns=[v1.has[x_]]))]


reg(Contract('dd.bdd.BDD._descendants', [('self', 'mgr'), ('u', 'int'), ('visited', 'set:int')],
             pre=_desc_pre, post=_desc_post, ret='none', uses={'rt'}, mutates=['visited']))


def desc_inv(c):
    from z3 import Exists
    S = c.mgrs['self']
    vis = c.env['visited']
    E = c.env['%enum:abs_roots']
    kk = Int('k!desc')
    return [('visited-complete', desc_complete(S, vis)),
            ('terminal-visited', Implies(c.idx > c.lo, vis.has[1])),
            ('processed-roots-visited', ForAll([k_], Implies(And(0 <= k_, k_ < c.idx), vis.has[E.arr[k_]]), patterns=[E.arr[k_]])),
            ('sound', Implies(vis.has[RT], Exists([kk], And(0 <= kk, kk < c.idx, Or(RT == 1, S.rt[E.arr[kk]])))))]


def desc_post(c):
    from z3 import Exists
    S, a, r = c.S0, c.a, c.r
    y = Int('y!desc')
    return [('contains-what-the-roots-reach', ForAll([x_], Implies(And(a.roots.has[x_], Or(RT == 1, S.rt[absz(x_)])), r.has[RT]),
                                                     patterns=[a.roots.has[x_]])),
            ('only-what-the-roots-reach', Implies(r.has[RT], Exists([y], And(a.roots.has[y], Or(RT == 1, S.rt[absz(y)]))))),
            ('stored-nodes-only', ForAll([x_], Implies(r.has[x_], And(S.dom[x_], x_ >= 1)), patterns=[r.has[x_]]))]


reg(Contract('dd.bdd.BDD.descendants', [('self', 'mgr'), ('roots', 'set:int')],
             pre=lambda c: wf(c.S, c.uses) + [('roots-are-refs', ForAll([x_], Implies(c.a.roots.has[x_], isref(c.S, x_)),
                                                                       patterns=[c.a.roots.has[x_]]))],
             post=desc_post, ret='set:int', uses={'rt'}, loops={0: dict(inv=desc_inv, modifies_sets=['visited'])}))


# ---------------------------------------------------------------------------------------------------------------
# pickle loader recursion (C12): `succ` is the node table stored in the file, modelled as a second heap F
def load_memo_valid(F_, S, umap):
    return ForAll([x_], Implies(umap.has[x_], And(x_ > 1, F_.dom[x_], umap.val[x_] > 0, S.dom[umap.val[x_]],
                                                  S.sem[umap.val[x_]] == F_.sem2[x_])), patterns=[umap.has[x_]])


def load_pre(c):
    S, a = c.S, c.a
    F_ = c.mgrs[a.succ_key]
    lm = a.level_map
    return wf(S, c.uses) + [('file:' + nm, g) for nm, g in wf(F_, c.uses)] + [
        ('ref', isref(F_, a.u)),
        ('level_map-total', ForAll([l_], Implies(And(0 <= l_, l_ < F_.nvars), And(lm.has[l_], 0 <= lm.val[l_], lm.val[l_] < S.nvars)),
                                   patterns=[lm.has[l_]])),
        ('A2-is-A-after-level_map', ForAll([l_], Implies(lm.has[l_], A2[l_] == A[lm.val[l_]]), patterns=[lm.has[l_]])),
        ('memo', load_memo_valid(F_, S, a.umap))]


def load_post(c):
    S0, S1, a, r = c.S0, c.S1, c.a, c.r
    F_ = c.mgrs[a.succ_key]
    return wf(S1, c.uses) + [('Ext', Ext(S0, S1, c.uses)),
                             ('same-function', And(isref(S1, r), semr(S1, r) == semr(F_, a.u, 'sem2'))),
                             ('same-sign', (r > 0) == (a.u > 0)),
                             ('memo', load_memo_valid(F_, S1, c.muts['umap'][1])),
                             # (a complemented reference is never found in the memo - `u in umap` tests the signed key - and is
                             # recomputed; the entry is then overwritten with an equal value, which only canonicity shows: keys only)
                             ('memo-keys-grow', ForAll([x_], Implies(c.muts['umap'][0].has[x_], c.muts['umap'][1].has[x_]),
                                                       patterns=[c.muts['umap'][0].has[x_]])), flags(S0, S1),
                             ('order-kept', M.keep(S0, S1, list(M.ORDER_FIELDS)))]


LOADREC = reg(Contract('dd.bdd.BDD._load', [('self', 'mgr'), ('u', 'int'), ('succ', 'heap:F'), ('umap', 'dict:int->int'),
                                           ('level_map', 'dict:int->int')],
                       pre=load_pre, post=load_post, modifies=REC_MOD, ret='int', uses={'cache', 'rc', 'sem2', 'sem1'},
                       mutates=['umap'], raises={'_NeedsReordering': NR(nr_post()), 'RuntimeError': Raise(when=lambda c: BoolVal(True))},
                       note='the node table read from the file is assumed to be a well-formed diagram (it was dumped by a WF manager)'))
LOADREC.call_skip = {'level_map-total', 'A2-is-A-after-level_map'} | {'file:' + k for k in ()}
