"""Sidecar contracts for dd/bdd.py (DESIGN.md Appendix A). Derived from the code and its call sites; the
top-level postconditions come from the property statements. Nothing here is executed by the repository.

A contract clause is a function of a context `c`:
  c.S0 / c.S1  entry / exit state of the primary manager (c.S = the state the clause is evaluated in)
  c.a          arguments as z3 terms (containers as symbolic values)
  c.r          return value (z3 term or tuple)
  c.uses       ghost families in force for the function under verification
  c.muts       {name: (container at entry, container at exit)} for mutated container arguments
"""
from z3 import And, BoolVal, Exists, ForAll, If, Implies, Int, IntVal, MultiPattern, Not, Or, Store

from vlib.vc.model import *  # noqa
from vlib.vc import model as M
from vlib.vc.symex import Contract, Raise, DictV, ListV, SetV, IntV

REG = {}
TARGETS = {}      # property id -> list of targets


def reg(c):
    REG[c.name] = c
    return c


def wf(S, uses):
    return list(WF(S, uses).items())


def NR(post=None):
    """may raise the internal signal only if reordering requests are enabled"""
    return Raise(when=lambda c: c.S0.lastlen >= 0, post=post, must=False)


def nr_post(uses_extra=()):
    def post(c):
        return wf(c.S1, c.uses) + [('Ext', Ext(c.S0, c.S1, c.uses)), ('flags', And(c.S1.lastlen == c.S0.lastlen, c.S1.ctx == c.S0.ctx))]
    return post


k_, k2_, l_, x_ = Int('k!b'), Int('k2!b'), Int('l!b'), Int('x!b')

# ---------------------------------------------------------------------------------------------------------------
# reordering plumbing
reg(Contract('dd.bdd._request_reordering', [('bdd', 'mgr')], mgr='bdd',
             pre=lambda c: [], post=lambda c: [], ret='none',
             raises={'_NeedsReordering': NR()}))

# ---------------------------------------------------------------------------------------------------------------
# node table
reg(Contract('dd.bdd.BDD.succ', [('self', 'mgr'), ('u', 'int')],
             pre=lambda c: [('ref', isref(c.S, c.a.u))],
             post=lambda c: [('fork', And(c.r[0] == lv(c.S0, c.a.u), c.r[1] == c.S0.lo[absz(c.a.u)], c.r[2] == c.S0.hi[absz(c.a.u)]))],
             ret='triple'))

reg(Contract('dd.bdd.BDD.incref', [('self', 'mgr'), ('u', 'int')],
             pre=lambda c: [('ref', isref(c.S, c.a.u))],
             post=lambda c: [('count', c.S1.ref == Store(c.S0.ref, absz(c.a.u), c.S0.ref[absz(c.a.u)] + 1))],
             modifies=['ref'], ret='none'))

reg(Contract('dd.bdd.BDD.decref', [('self', 'mgr'), ('u', 'int')],
             pre=lambda c: [('ref', isref(c.S, c.a.u))],
             post=lambda c: [('count', c.S1.ref == If(c.S0.ref[absz(c.a.u)] <= 0, c.S0.ref,
                                                     Store(c.S0.ref, absz(c.a.u), c.S0.ref[absz(c.a.u)] - 1)))],
             modifies=['ref'], ret='none'))

reg(Contract('dd.bdd.BDD.ref', [('self', 'mgr'), ('u', 'int')],
             pre=lambda c: [('ref', isref(c.S, c.a.u))],
             post=lambda c: [('count', c.r == c.S0.ref[absz(c.a.u)])], ret='int'))


def topcof_post(c):
    S, u_, i_ = c.S0, c.a.u, c.a.i
    r0, r1 = c.r
    out = [('shannon', semr(S, u_) == If(A[i_], semr(S, r1), semr(S, r0))),
           ('refs', And(isref(S, r0), isref(S, r1))),
           ('deeper', And(lv(S, r0) > i_, lv(S, r1) > i_)),
           ('not-above', And(lv(S, r0) >= lv(S, u_), lv(S, r1) >= lv(S, u_)))]
    for fam, arr in (('sem2', A2), ('sem3', A3)):
        if c.uses is None or fam in c.uses:
            out.append((f'shannon[{fam}]', semr(S, u_, fam) == If(arr[i_], semr(S, r1, fam), semr(S, r0, fam))))
    if c.uses is None or 'sem1' in c.uses:
        out.append(('shannon[ones]', semr(S, u_, 'sem1') == semr(S, r1, 'sem1')))
    return out


reg(Contract('dd.bdd.BDD._top_cofactor', [('self', 'mgr'), ('u', 'int'), ('i', 'int')],
             pre=lambda c: wf(c.S, c.uses) + [('ref', isref(c.S, c.a.u)),
                                              ('level', And(0 <= c.a.i, c.a.i < c.S.nvars, c.a.i <= lv(c.S, c.a.u)))],
             post=topcof_post, ret='pair', uses=None))

reg(Contract('dd.bdd.BDD._next_free_int', [('self', 'mgr'), ('start', 'int')],
             pre=lambda c: [],
             post=lambda c: [('free', And(c.r >= c.a.start, Not(c.S0.dom[c.r]))),
                             ('least', ForAll([k_], Implies(And(c.a.start <= k_, k_ < c.r), c.S0.dom[k_]), patterns=[c.S0.dom[k_]]))],
             ret='int',
             loops={0: dict(inv=lambda c: [('scanned', ForAll([k_], Implies(And(c.lo <= k_, k_ < c.idx), c.mgrs['self'].dom[k_]),
                                                             patterns=[c.mgrs['self'].dom[k_]]))])},
             raises={'ValueError': Raise(when=lambda c: c.a.start < 1, must=True),
                     'RuntimeError': Raise(when=lambda c: BoolVal(True))}))


def foa_valid(S, a):
    return And(0 <= a.i, a.i < S.nvars, isref(S, a.v), isref(S, a.w))


def foa_ordered(S, a):
    return And(lv(S, a.v) > a.i, lv(S, a.w) > a.i)


def foa_post(c):
    S0, S1, a, r = c.S0, c.S1, c.a, c.r
    out = wf(S1, c.uses) + [
        ('Ext', Ext(S0, S1, c.uses)),
        ('denotation', And(isref(S1, r), semr(S1, r) == If(A[a.i], semr(S0, a.w), semr(S0, a.v)))),
        ('level', lv(S1, r) >= a.i),
        ('cache-kept', And(S1.ch == S0.ch, S1.cv == S0.cv)),
        ('flags-kept', And(S1.lastlen == S0.lastlen, S1.ctx == S0.ctx, S1.nvars == S0.nvars)),
        ('order-kept', M.keep(S0, S1, list(M.ORDER_FIELDS))),
        ('size', And(S1.nsucc >= S0.nsucc, S1.nsucc <= S0.nsucc + 1)),
    ]
    for fam, arr in (('sem2', A2), ('sem3', A3)):
        if c.uses is None or fam in c.uses:
            out.append((f'denotation[{fam}]', semr(S1, r, fam) == If(arr[a.i], semr(S0, a.w, fam), semr(S0, a.v, fam))))
    if c.uses is None or 'sem1' in c.uses:
        out.append(('denotation[ones]', semr(S1, r, 'sem1') == semr(S0, a.w, 'sem1')))
    if c.uses is None or 'qe' in c.uses:
        out.append(('denotation[qe]', Implies(Not(Q[a.i]), And(
            qexr(S1, r) == If(A[a.i], qexr(S0, a.w), qexr(S0, a.v)),
            qfar(S1, r) == If(A[a.i], qfar(S0, a.w), qfar(S0, a.v))))))
    if c.uses is None or 'hl' in c.uses:
        out.append(('denotation[hl]', Implies(a.v != a.w, S1.hl[absz(r)] == Or(a.i == HL, S0.hl[absz(a.v)], S0.hl[absz(a.w)]))))
    return out


def foa_own_post(c):
    """own verification: everything is proved under `ordered`, which the code does not check (call-site obligation)"""
    g = foa_ordered(c.S0, c.a)
    return [(nm, Implies(g, cl)) for nm, cl in foa_post(c)]


FOA = reg(Contract('dd.bdd.BDD.find_or_add', [('self', 'mgr'), ('i', 'int'), ('v', 'int'), ('w', 'int')],
                   pre=lambda c: wf(c.S, c.uses),
                   post=foa_own_post, modifies=M.NODE_MOD, ret='int', uses=None,
                   raises={'_NeedsReordering': NR(),
                           'ValueError': Raise(when=lambda c: Not(foa_valid(c.S0, c.a)), must=True),
                           'RuntimeError': Raise(when=lambda c: BoolVal(True))}))
# the form used at call sites: `ordered` is an obligation of the caller, then the post is unconditional
FOA.call_pre = lambda c: [('ordered', foa_ordered(c.S, c.a))]
FOA.call_post = foa_post


def ite_post(c):
    S0, S1, a, r = c.S0, c.S1, c.a, c.r
    out = wf(S1, c.uses) + [
        ('Ext', Ext(S0, S1, c.uses)),
        ('denotation', And(isref(S1, r), semr(S1, r) == If(semr(S0, a.g), semr(S0, a.u), semr(S0, a.v)))),
        ('level', lv(S1, r) >= min2(lv(S0, a.g), min2(lv(S0, a.u), lv(S0, a.v)))),
        ('flags-kept', And(S1.lastlen == S0.lastlen, S1.ctx == S0.ctx, S1.nvars == S0.nvars)),
        ('order-kept', M.keep(S0, S1, list(M.ORDER_FIELDS))),
    ]
    if c.uses is None or 'sem1' in c.uses:
        out.append(('denotation[ones]', semr(S1, r, 'sem1') == If(semr(S0, a.g, 'sem1'), semr(S0, a.u, 'sem1'), semr(S0, a.v, 'sem1'))))
    return out


ITE_MOD = M.NODE_MOD + ['ch', 'cv']
ITE = reg(Contract('dd.bdd.BDD._ite', [('self', 'mgr'), ('g', 'int'), ('u', 'int'), ('v', 'int')],
                   pre=lambda c: wf(c.S, c.uses) + [('refs', And(isref(c.S, c.a.g), isref(c.S, c.a.u), isref(c.S, c.a.v)))],
                   post=ite_post, modifies=ITE_MOD, ret='int', uses={'cache', 'rc', 'sem1'},
                   raises={'_NeedsReordering': NR(nr_post()), 'RuntimeError': Raise(when=lambda c: BoolVal(True))}))
