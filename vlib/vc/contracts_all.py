"""All sidecar contracts and the per-property target lists."""
from vlib.vc import contracts_bdd as CB
from vlib.vc.contracts_bdd import REG, SPELLINGS  # noqa

_installed = False


def install():
    global _installed
    if _installed:
        return
    from vlib.vc import run
    CB.OPSETS.update(run.load_opsets())
    _installed = True


def T(function, contract=None, variant=None, **kw):
    d = dict(function=function)
    if contract:
        d['contract'] = contract
    if variant:
        d['variant'] = variant
    d.update(kw)
    return d


B = 'dd.bdd.BDD.'
CORE = [T(B + '_top_cofactor'), T(B + '_next_free_int'), T(B + 'find_or_add'), T(B + '_ite'), T(B + 'ite', B + 'ite!body')]


def apply_targets(classes):
    out = []
    for cls in classes:
        for sp in SPELLINGS[cls]:
            out.append(T(B + 'apply', variant=sp, args={'op': 'op:' + sp}))
    return out


R = 'dd.bdd._ReorderingContext.'
PLUMBING = [T('dd.bdd._request_reordering', consts_spec={'REORDER_FACTOR': 2}),
            T(R + '__init__'), T(R + '__enter__'), T(R + '__exit__', variant='no-exception'),
            T(R + '__exit__', variant='signal', args={'ex_type': 'exc:_NeedsReordering'}),
            T(R + '__exit__', variant='other-exception', args={'ex_type': 'exc:ValueError'}),
            T('dd.bdd._try_to_reorder._wrapper', env={'func': 'callable:FUNC'}, consts_spec={'GROWTH_FACTOR': 2}),
            T('dd.bdd._suspend_reordering._wrapper', env={'func': 'callable:FUNCQ'})]
GC = [T(B + 'collect_garbage', variant='all'), T(B + 'collect_garbage', B + 'collect_garbage!roots', variant='roots')]

TARGETS = {
    'C01': CORE + apply_targets(['not', 'and', 'or', 'xor', 'implies', 'equiv', 'diff', 'ite']),
    'C02': [T(B + 'find_or_add'), T(B + '_ite'), T(B + '_init_terminal'), T(B + 'add_var'), T(B + 'declare'), T(B + 'incref'), T(B + 'decref'),
            T(B + 'var', B + 'var!body')] + GC,
    'C03': [T(B + '_quantify'), T(B + 'quantify', B + 'quantify!body'), T(B + 'forall'), T(B + 'exist')] + apply_targets(['forall', 'exists']),
    'C04': [T(B + '_cofactor'), T(B + '_compose'), T(B + '_vector_compose'),
            T('dd.bdd._copy_bdd', variant='same-manager', alias={'old_bdd': 'bdd'}), T('dd.bdd.rename'),
            T(B + 'rename', B + 'rename!body'), T(B + 'cofactor', B + 'cofactor!body'),
            T(B + 'compose', B + 'compose!body:one', variant='one-variable'),
            T(B + 'compose', B + 'compose!body:several', variant='several-variables'),
            T(B + 'let', B + 'let:bool', variant='constants', args={'definitions': 'dict:name->bool'}),
            T(B + 'let', B + 'let:int', variant='functions', args={'definitions': 'dict:name->int'}),
            T(B + 'let', B + 'let:name', variant='names', args={'definitions': 'dict:name->name'})],
    'C06': [T(B + 'incref'), T(B + 'decref'), T(B + 'ref'), T(B + 'find_or_add')] + GC,
    'C09': PLUMBING + [T(B + 'ite', B + 'ite!body'), T(B + 'var', B + 'var!body'), T(B + 'rename', B + 'rename!body'),
                       T('dd.bdd.copy_bdd', variant='two-managers')],
    'C10': [T(B + 'is_essential')],
    'C11': [T('dd.bdd._copy_bdd', variant='two-managers'), T('dd.bdd.copy_bdd', variant='two-managers'),
            T('dd.bdd.copy_bdd', variant='same-manager', alias={'from_bdd': 'to_bdd'}), T(B + 'copy', variant='two-managers')],
    'C14': [T(B + 'add_var'), T(B + '_check_var'), T(B + '_next_free_level'), T(B + '_init_terminal'), T(B + 'declare'),
            T(B + 'var_at_level'), T(B + 'level_of_var'), T(B + 'var_levels'), T(B + 'var', B + 'var!body')],
    'C17': [T(B + 'find_or_add'), T(B + 'add_var'), T(B + '_check_var'), T(B + '_next_free_level'), T(B + 'var_at_level'),
            T(B + 'level_of_var'), T(B + 'var', B + 'var!body'), T('dd.bdd.rename'), T(B + '_next_free_int')]
    + apply_targets(['not', 'and', 'ite', 'forall']) + PLUMBING[1:6],
    'C18': [T(B + 'succ')],
}
