"""All sidecar contracts and the per-property target lists."""
from vlib.vc import contracts_bdd as CB
from vlib.vc import contracts_autoref as CA_  # noqa: F401 (registers contracts)
from vlib.vc import contracts_parser as CP_
from vlib.vc import contracts_reorder as CR_  # noqa: F401 (observed contracts, cross-checked only)
from vlib.vc.contracts_bdd import REG, SPELLINGS  # noqa

_installed = False


def install():
    global _installed
    if _installed:
        return
    from vlib.vc import run
    CB.OPSETS.update(run.load_opsets())
    _installed = True


def T(function, contract=None, variant=None, **kw):
    d = dict(function=function)
    if contract:
        d['contract'] = contract
    if variant:
        d['variant'] = variant
    d.update(kw)
    return d


B = 'dd.bdd.BDD.'
CORE = [T(B + '_top_cofactor'), T(B + '_next_free_int'), T(B + 'find_or_add'), T(B + '_ite'), T(B + 'ite', B + 'ite!body')]


def apply_targets(classes):
    out = []
    for cls in classes:
        for sp in SPELLINGS[cls]:
            out.append(T(B + 'apply', variant=sp, args={'op': 'op:' + sp}))
    return out


R = 'dd.bdd._ReorderingContext.'
PLUMBING = [T('dd.bdd._request_reordering'),
            T(R + '__init__'), T(R + '__enter__'), T(R + '__exit__', variant='no-exception'),
            T(R + '__exit__', variant='signal', args={'ex_type': 'exc:_NeedsReordering'}),
            T(R + '__exit__', variant='other-exception', args={'ex_type': 'exc:ValueError'}),
            T('dd.bdd._try_to_reorder._wrapper', env={'func': 'callable:FUNC'}),
            T('dd.bdd._suspend_reordering._wrapper', env={'func': 'callable:FUNCQ'})]
GC = [T(B + 'collect_garbage', variant='all'), T(B + 'collect_garbage', B + 'collect_garbage!roots', variant='roots')]

AF, ABD = 'dd.autoref.Function.', 'dd.autoref.BDD.'


def aapply_targets(ops):
    return [T(ABD + 'apply', variant=o, args={'op': 'op:' + o}) for o in ops]


HANDLES = [T(AF + '__init__'), T(AF + '__del__'), T(ABD + '_wrap'), T(ABD + '_add_int'), T(ABD + 'true'), T(ABD + 'false')]
AOPS = [T(AF + '_apply', variant='and', args={'op': 'op:and'}), T(AF + '_apply', variant='not', args={'op': 'op:not'}),
        T(AF + '__invert__'), T(AF + '__and__'), T(AF + '__or__'), T(AF + 'implies'), T(AF + 'equiv'), T(AF + '__eq__'), T(AF + '__ne__'), T(AF + '__le__'), T(AF + '__lt__')]
AVIEWS = [T(ABD + 'succ'), T(AF + 'low'), T(AF + 'high'), T(AF + 'var'), T(AF + 'level'), T(AF + 'negated'), T(AF + 'ref')]

ARITY = [T('dd._utils.assert_operator_arity', variant=o, args={'op': 'op:' + o, 'diagram_type': 'op:bdd'})
         for o in sorted({sp for cls in SPELLINGS.values() for sp in cls}) + ['nonsense']]
EXTREF = [T(B + 'incref', B + 'incref!external', variant='external'), T(B + 'decref', B + 'decref!external', variant='external')]

M2L = [T(B + '_map_to_level', B + '_map_to_level:set', variant='set', args={'d': 'set:name'}),
       T(B + '_map_to_level', B + '_map_to_level:dict', variant='dict', args={'d': 'dict:name->bool'})]

IMAGE = [T('dd.bdd._image', variant='image', args={'umap': 'dict:int->int', 'vmap': 'none'}),
         T('dd.bdd._image', variant='preimage', args={'umap': 'none', 'vmap': 'dict:int->int'}),
         T('dd.bdd._image_root', variant='image', args={'umap': 'dict:int->int', 'vmap': 'none'}),
         T('dd.bdd._image_root', variant='preimage', args={'umap': 'none', 'vmap': 'dict:int->int'})]

AWRAP = [T(ABD + 'add_var'), T(ABD + 'var_at_level'), T(ABD + 'level_of_var'), T(ABD + 'collect_garbage'), T(ABD + 'incref'), T(ABD + 'decref'),
         T(ABD + 'find_or_add')]

SWAPV = [T(B + '_low_high'), T(B + '_swap_cofactor'), T(B + 'swap', B + 'swap!validation:levels', variant='levels', args={'x': 'int', 'y': 'int'}),
         T(B + 'swap', B + 'swap!validation:names', variant='names', args={'x': 'name', 'y': 'name'})]

INIT = [T(B + '_init_terminal', B + '_init_terminal!empty', variant='empty'), T(B + '__init__', B + '__init__!empty', variant='empty', args={'levels': 'none'}, calls={B + '_init_terminal': B + '_init_terminal!empty'})]

ALET = [T(ABD + 'let', ABD + 'let:bool', variant='constants', args={'definitions': 'dict:name->bool'}, calls={B + 'let': B + 'let:bool'}),
        T(ABD + 'let', ABD + 'let:name', variant='names', args={'definitions': 'dict:name->name'}, calls={B + 'let': B + 'let:name'})]

ASUPP = [T(ABD + 'support', ABD + 'support:names', variant='names', calls={B + 'support': B + 'support!proved:names'}),
         T(ABD + 'support', ABD + 'support:levels', variant='levels', calls={B + 'support': B + 'support!proved:levels'})]

UNDECL = [T(B + 'undeclare_vars', B + 'undeclare_vars!refusals', variant='refusals')]

TARGETS = {
    'C01': CORE + apply_targets(['not', 'and', 'or', 'xor', 'implies', 'equiv', 'diff', 'ite']) + AOPS
    + [T(ABD + 'ite')] + aapply_targets(['~', 'and', '\\/', '#', '=>', '<->', '-', 'ite']) + ARITY,
    'C02': [T(B + 'find_or_add'), T(B + '_ite'), T(B + '_init_terminal'), T(B + 'add_var'), T(B + 'declare'), T(B + 'incref'), T(B + 'decref'),
            T(B + 'var', B + 'var!body')] + GC + INIT,
    'C03': M2L[:1] + [T(B + '_quantify'), T(B + 'quantify', B + 'quantify!body'), T(B + 'forall'), T(B + 'exist')] + apply_targets(['forall', 'exists'])
    + [T(ABD + 'quantify'), T(ABD + 'forall'), T(ABD + 'exist')] + aapply_targets(['\\A', 'exists']),
    'C04': M2L[1:] + [T(B + '_cofactor'), T(B + '_compose'), T(B + '_vector_compose'),
            T('dd.bdd._copy_bdd', variant='same-manager', alias={'old_bdd': 'bdd'}), T('dd.bdd.rename'),
            T(B + 'rename', B + 'rename!body'), T(B + 'cofactor', B + 'cofactor!body'),
            T(B + 'compose', B + 'compose!body:one', variant='one-variable'),
            T(B + 'compose', B + 'compose!body:several', variant='several-variables'),
            T(B + 'let', B + 'let:bool', variant='constants', args={'definitions': 'dict:name->bool'}),
            T(B + 'let', B + 'let:int', variant='functions', args={'definitions': 'dict:name->int'}),
            T(B + 'let', B + 'let:name', variant='names', args={'definitions': 'dict:name->name'})] + ALET,
    'C05': list(CP_.TARGETS),
    'C06': [T(B + 'incref'), T(B + 'decref'), T(B + 'ref'), T(B + 'find_or_add')] + GC,
    'C07': SWAPV + [T('dd.bdd._sort_to_order'), T('dd.bdd._shift'), T('dd.bdd.reorder_to_pairs'),
            T('dd.bdd.reorder', 'dd.bdd.reorder!order', variant='order', args={'order': 'dict:name->int'}),
            T('dd.bdd._reorder_var'), T('dd.bdd._apply_sifting'),
            T('dd.bdd.reorder', 'dd.bdd.reorder!sifting', variant='sifting', args={'order': 'none'})],
    'C08': HANDLES + [T(ABD + 'var'), T(ABD + 'ite'), T(ABD + 'quantify'), T(ABD + 'forall'), T(ABD + 'exist'), T(ABD + 'succ'),
                      T(AF + 'low'), T(AF + 'high')] + aapply_targets(['not', '&', 'ite', 'forall']) + AOPS[:7]
           + [T(B + '_init_terminal'), T(B + 'add_var')]   # declarations keep every count
           + EXTREF + [T(B + '_add_int'), T(ABD + '__contains__')] + AWRAP + ALET,
    'C09': PLUMBING + [T(B + 'ite', B + 'ite!body'), T(B + 'var', B + 'var!body'), T(B + 'rename', B + 'rename!body'),
                       T('dd.bdd.copy_bdd', variant='two-managers'), T(ABD + 'find_or_add')] + IMAGE[2:],
    'C10': [T(B + 'is_essential'), T(B + '_support'), T(B + 'support', B + 'support!proved:names', variant='names'),
            T(B + 'support', B + 'support!proved:levels', variant='levels'), T(B + '_sat_len')] + ASUPP,
    'C11': [T('dd.bdd._copy_bdd', variant='two-managers'), T('dd.bdd.copy_bdd', variant='two-managers'),
            T('dd.bdd.copy_bdd', variant='same-manager', alias={'from_bdd': 'to_bdd'}), T(B + 'copy', variant='two-managers')],
    'C12': [T(B + '_load')],
    'C13': IMAGE,
    'C14': [T(B + 'add_var'), T(B + '_check_var'), T(B + '_next_free_level'), T(B + '_init_terminal'), T(B + 'declare'),
            T(B + 'var_at_level'), T(B + 'level_of_var'), T(B + 'var_levels'), T(B + 'var', B + 'var!body')] + UNDECL,
    'C17': [T(B + 'find_or_add'), T(B + 'add_var'), T(B + '_check_var'), T(B + '_next_free_level'), T(B + 'var_at_level'),
            T(B + 'level_of_var'), T(B + 'var', B + 'var!body'), T('dd.bdd.rename'), T(B + '_next_free_int')]
    + apply_targets(['not', 'and', 'ite', 'forall']) + PLUMBING[1:]
    + [T(AF + '__init__'), T(ABD + '_wrap'), T(ABD + '_add_int'), T(ABD + 'var'), T(ABD + 'ite'), T(ABD + 'quantify')] + aapply_targets(['!', '||', 'ite']) + ARITY + [T(ABD + '__contains__'), T(B + '_add_int')] + M2L + SWAPV[2:] + UNDECL,
    'C18': [T(B + 'succ'), T(B + '__len__'), T(B + '__contains__')] + AVIEWS + [T(B + '_descendants'), T(B + 'descendants')],
}
