"""Input generators for vlib/vc/concrete.py: one entry per contract that is cross-checked on real executions."""
import random

from z3 import BoolVal, IntVal, K, Store

from vlib.vc import model as M
from vlib.vc.concrete import NAMES, NAMEZ, Case, arr, conc_state
from vlib.vc.symex import DictV, ListV, SetV

I, B = M.I, M.B


def new_manager(rnd, nvars=None, held=None, reordering=False):
    import dd.bdd as D
    n = nvars or rnd.randint(2, 4)
    b = D.BDD()
    names = NAMES[:n]
    order = list(names)
    rnd.shuffle(order)
    for nm in order:
        b.add_var(nm)
    refs = []
    big = rnd.random() < .25      # a quarter of the managers are larger (slower for the solver)
    for _ in range(rnd.randint(1, 4)):
        u = b.var(rnd.choice(names))
        for _ in range(rnd.randint(0, 5 if big else 3)):
            v = b.var(rnd.choice(names))
            if rnd.random() < .3:
                v = -v
            u = b.apply(rnd.choice(['and', 'or', 'xor', '=>']), u, v)
            if rnd.random() < .2:
                u = -u
        refs.append(u)
    k = rnd.randint(0, len(refs)) if held is None else min(held, len(refs))
    keep = refs[:k]
    for u in keep:
        b.incref(u)
    if rnd.random() < .5:
        b.collect_garbage()
    if rnd.random() < .5:
        b._ite_table = dict()
    if reordering:
        b.configure(reordering=True)
    return dict(b=b, names=names, refs=refs, held=keep, rnd=rnd)


def _shuffled(d, rnd):
    items = list(d.items())
    rnd.shuffle(items)
    return dict(items)


def any_ref(env, rnd):
    b = env['b']
    u = rnd.choice(list(b._succ))
    return u if rnd.random() < .5 else -u


def zint(x):
    return IntVal(x)


def zset_int(xs):
    return SetV(arr([(IntVal(x), BoolVal(True)) for x in xs], I, BoolVal(False)))


def zset_name(xs):
    return SetV(arr([(NAMEZ[x], BoolVal(True)) for x in xs], M.Name, BoolVal(False)), 'name')


def zdict(d, kk, vk):
    ks = {'int': I, 'name': M.Name}[kk]
    vs = {'int': I, 'bool': B, 'name': M.Name}[vk]
    kz = (lambda k: NAMEZ[k]) if kk == 'name' else IntVal
    vz = {'int': IntVal, 'bool': lambda v: BoolVal(bool(v)), 'name': lambda v: NAMEZ[v]}[vk]
    dflt = {'int': IntVal(0), 'bool': BoolVal(False), 'name': NAMEZ['zz']}[vk]
    v = DictV(arr([(kz(k), BoolVal(True)) for k in d], ks, BoolVal(False)), arr([(kz(k), vz(x)) for k, x in d.items()], ks, dflt), vk, kk,
              ne=BoolVal(bool(d)))
    v._len = IntVal(len(d))
    return v


def with_len(v, n):
    v._ne = BoolVal(n > 0)
    v._len = IntVal(n)
    return v


CASES = {}


def case(contract, variant=''):
    def deco(fn):
        CASES[contract + (f'[{variant}]' if variant else '')] = (contract, fn)
        return fn
    return deco


# ---------------------------------------------------------------------------------------------------------------------
@case('dd.bdd.BDD.find_or_add')
def c_find_or_add(seed):
    def build(rnd):
        env = new_manager(rnd)
        b = env['b']
        i = rnd.randrange(0, len(b.vars))
        # children: mostly below level i (ordered), sometimes arbitrary (the code does not check the order)
        cands = [u for u, t in b._succ.items() if t[0] > i] or [1]
        v = rnd.choice(cands) * rnd.choice([1, -1])
        w = rnd.choice(cands) * rnd.choice([1, -1])
        if rnd.random() < .1:
            v = rnd.choice([0, 9999, any_ref(env, rnd)])
        if rnd.random() < .1:
            i = rnd.choice([-1, len(b.vars), len(b.vars) + 3])
        env.update(i=i, v=v, w=w)
        return env
    return Case('dd.bdd.BDD.find_or_add', seed, build, lambda e: e['b'].find_or_add(e['i'], e['v'], e['w']),
                lambda e: dict(self=None, i=zint(e['i']), v=zint(e['v']), w=zint(e['w']), i_none=BoolVal(False), v_none=BoolVal(False), w_none=BoolVal(False)),
                lambda e: dict(call='find_or_add', i=e['i'], v=e['v'], w=e['w']))


@case('dd.bdd.BDD._ite')
def c_ite(seed):
    def build(rnd):
        env = new_manager(rnd)
        env.update(g=any_ref(env, rnd), u=any_ref(env, rnd), v=any_ref(env, rnd))
        return env
    return Case('dd.bdd.BDD._ite', seed, build, lambda e: e['b']._ite(e['g'], e['u'], e['v']),
                lambda e: dict(self=None, g=zint(e['g']), u=zint(e['u']), v=zint(e['v'])),
                lambda e: dict(call='_ite', g=e['g'], u=e['u'], v=e['v']))


@case('dd.bdd.BDD._top_cofactor')
def c_topcof(seed):
    def build(rnd):
        env = new_manager(rnd)
        b = env['b']
        u = any_ref(env, rnd)
        lu = b._succ[abs(u)][0]
        env.update(u=u, i=rnd.randint(-1, min(lu, len(b.vars) - 1)))
        return env
    return Case('dd.bdd.BDD._top_cofactor', seed, build, lambda e: e['b']._top_cofactor(e['u'], e['i']),
                lambda e: dict(self=None, u=zint(e['u']), i=zint(e['i'])), lambda e: dict(call='_top_cofactor', u=e['u'], i=e['i']))


for _nm in ('incref', 'decref'):
    def _mk(nm=_nm):
        @case('dd.bdd.BDD.' + nm)
        def c_(seed):
            def build(rnd):
                env = new_manager(rnd)
                env.update(u=any_ref(env, rnd))
                return env
            return Case('dd.bdd.BDD.' + nm, seed, build, lambda e: getattr(e['b'], nm)(e['u']),
                        lambda e: dict(self=None, u=zint(e['u'])), lambda e: dict(call=nm, u=e['u']))
    _mk()


@case('dd.bdd.BDD.add_var')
def c_add_var(seed):
    def build(rnd):
        env = new_manager(rnd)
        b = env['b']
        nm = rnd.choice(NAMES)
        level = rnd.choice([None, None, len(b.vars), rnd.randrange(0, len(b.vars) + 1)])
        env.update(var=nm, level=level)
        return env
    return Case('dd.bdd.BDD.add_var', seed, build, lambda e: e['b'].add_var(e['var'], e['level']),
                lambda e: dict(self=None, var=NAMEZ[e['var']], level=zint(e['level'] if e['level'] is not None else 0),
                               level_none=BoolVal(e['level'] is None)),
                lambda e: dict(call='add_var', var=e['var'], level=e['level']))


@case('dd.bdd.BDD.collect_garbage', 'all')
def c_gc(seed):
    def build(rnd):
        return new_manager(rnd)
    return Case('dd.bdd.BDD.collect_garbage', seed, build, lambda e: e['b'].collect_garbage(),
                lambda e: dict(self=None, roots=None), lambda e: dict(call='collect_garbage'))


@case('dd.bdd.BDD.is_essential')
def c_is_essential(seed):
    def build(rnd):
        env = new_manager(rnd)
        env.update(u=any_ref(env, rnd), var=rnd.choice(NAMES[:5]))
        return env
    return Case('dd.bdd.BDD.is_essential', seed, build, lambda e: e['b'].is_essential(e['u'], e['var']),
                lambda e: dict(self=None, u=zint(e['u']), var=NAMEZ[e['var']]), lambda e: dict(call='is_essential', u=e['u'], var=e['var']))


@case('dd.bdd.BDD.descendants')
def c_descendants(seed):
    def build(rnd):
        env = new_manager(rnd)
        env.update(roots=[any_ref(env, rnd) for _ in range(rnd.randint(0, 3))])
        return env
    return Case('dd.bdd.BDD.descendants', seed, build, lambda e: e['b'].descendants(e['roots']),
                lambda e: dict(self=None, roots=with_len(zset_int(e['roots']), len(set(e['roots'])))),
                lambda e: dict(call='descendants', roots=e['roots']))


for _flag in (False, True):
    def _mk(flag=_flag):
        key = 'dd.bdd.BDD.support!proved:' + ('levels' if flag else 'names')

        @case(key)
        def c_(seed):
            def build(rnd):
                env = new_manager(rnd)
                env.update(u=any_ref(env, rnd))
                return env
            return Case(key, seed, build, lambda e: e['b'].support(e['u'], as_levels=flag),
                        lambda e: dict(self=None, u=zint(e['u']), as_levels=BoolVal(flag)), lambda e: dict(call='support', u=e['u'], as_levels=flag))
    _mk()


@case('dd.bdd.BDD.level_of_var')
def c_level_of_var(seed):
    def build(rnd):
        env = new_manager(rnd)
        env.update(var=rnd.choice(NAMES[:5]))
        return env
    return Case('dd.bdd.BDD.level_of_var', seed, build, lambda e: e['b'].level_of_var(e['var']),
                lambda e: dict(self=None, var=NAMEZ[e['var']]), lambda e: dict(call='level_of_var', var=e['var']))


@case('dd.bdd.BDD.var_at_level')
def c_var_at_level(seed):
    def build(rnd):
        env = new_manager(rnd)
        env.update(level=rnd.randint(-1, len(env['b'].vars) + 1))
        return env
    return Case('dd.bdd.BDD.var_at_level', seed, build, lambda e: e['b'].var_at_level(e['level']),
                lambda e: dict(self=None, level=zint(e['level'])), lambda e: dict(call='var_at_level', level=e['level']))


# ---------------------------------------------------------------------------------------------------------------------
# public (decorated) methods: the contract seen by callers; dynamic reordering is switched on for a third of the inputs
def maybe_reordering(rnd):
    return rnd.random() < .33


def pub_manager(rnd):
    """manager for the public operations: in a quarter of the inputs dynamic reordering is on with a threshold low enough to fire
    inside the call; the operands are then referenced nodes (documented precondition of dd.bdd under dynamic reordering)"""
    dyn = rnd.random() < .25
    env = new_manager(rnd, held=4 if dyn else None)
    env['dyn'] = dyn
    if dyn:
        b = env['b']
        b.configure(reordering=True)
        b._last_len = rnd.choice([1, 2, 3, max(1, len(b) // 2)])
    return env


def op_ref(env, rnd):
    return held_ref(env, rnd) if env.get('dyn') else any_ref(env, rnd)


def held_ref(env, rnd):
    """a referenced node (the documented precondition of dd.bdd operations under dynamic reordering)"""
    b = env['b']
    if env['held'] and rnd.random() < .8:
        u = rnd.choice(env['held'])
    else:
        u = rnd.choice([1, -1])
    return u


@case('dd.bdd.BDD.ite')
def c_pub_ite(seed):
    def build(rnd):
        env = pub_manager(rnd)
        env.update(g=op_ref(env, rnd), u=op_ref(env, rnd), v=op_ref(env, rnd))
        return env
    return Case('dd.bdd.BDD.ite', seed, build, lambda e: e['b'].ite(e['g'], e['u'], e['v']),
                lambda e: dict(self=None, g=zint(e['g']), u=zint(e['u']), v=zint(e['v'])), lambda e: dict(call='ite', g=e['g'], u=e['u'], v=e['v']))


@case('dd.bdd.BDD.var')
def c_pub_var(seed):
    def build(rnd):
        env = new_manager(rnd, reordering=maybe_reordering(rnd))
        env.update(var=rnd.choice(NAMES[:5]))
        return env
    return Case('dd.bdd.BDD.var', seed, build, lambda e: e['b'].var(e['var']),
                lambda e: dict(self=None, var=NAMEZ[e['var']]), lambda e: dict(call='var', var=e['var']))


OPS2 = ['and', '/\\', '&', '&&', 'or', '\\/', '|', '||', '#', 'xor', '^', '=>', '->', 'implies', '<=>', '<->', 'equiv', 'diff', '-']


@case('dd.bdd.BDD.apply')
def c_apply(seed):
    def build(rnd):
        env = pub_manager(rnd)
        kind = rnd.random()
        if kind < .15:
            op, u, v, w = rnd.choice(['~', 'not', '!']), op_ref(env, rnd), None, None
        elif kind < .75:
            op, u, v, w = rnd.choice(OPS2), op_ref(env, rnd), op_ref(env, rnd), None
        elif kind < .9:
            op, u, v, w = 'ite', op_ref(env, rnd), op_ref(env, rnd), op_ref(env, rnd)
        else:
            # wrong arity / unknown operator
            op, u, v, w = rnd.choice(['and', 'not', 'ite', 'nand']), op_ref(env, rnd), rnd.choice([None, op_ref(env, rnd)]), \
                rnd.choice([None, op_ref(env, rnd)])
        env.update(op=op, u=u, v=v, w=w)
        return env

    def za(e):
        return dict(self=None, op=e['op'], u=zint(e['u']), v=zint(e['v'] or 0), w=zint(e['w'] or 0), u_none=BoolVal(False),
                    v_none=BoolVal(e['v'] is None), w_none=BoolVal(e['w'] is None))
    return Case('dd.bdd.BDD.apply', seed, build, lambda e: e['b'].apply(e['op'], e['u'], e['v'], e['w']), za,
                lambda e: dict(call='apply', op=e['op'], u=e['u'], v=e['v'], w=e['w']))


for _nm, _fa in (('forall', True), ('exist', False)):
    def _mk(nm=_nm):
        @case('dd.bdd.BDD.' + nm)
        def c_(seed):
            def build(rnd):
                env = pub_manager(rnd)
                names = env['names']
                env.update(u=op_ref(env, rnd), qvars=set(rnd.sample(names, rnd.randint(0, len(names)))))
                return env
            return Case('dd.bdd.BDD.' + nm, seed, build, lambda e: getattr(e['b'], nm)(e['qvars'], e['u']),
                        lambda e: dict(self=None, u=zint(e['u']), qvars=with_len(zset_name(e['qvars']), len(e['qvars']))),
                        lambda e: dict(call=nm, qvars=sorted(e['qvars']), u=e['u']))
    _mk()


@case('dd.bdd.BDD.quantify')
def c_quantify(seed):
    def build(rnd):
        env = pub_manager(rnd)
        names = env['names']
        env.update(u=op_ref(env, rnd), qvars=set(rnd.sample(names, rnd.randint(0, len(names)))), forall=rnd.random() < .5)
        return env
    return Case('dd.bdd.BDD.quantify', seed, build, lambda e: e['b'].quantify(e['u'], e['qvars'], e['forall']),
                lambda e: dict(self=None, u=zint(e['u']), qvars=with_len(zset_name(e['qvars']), len(e['qvars'])), forall=BoolVal(e['forall'])),
                lambda e: dict(call='quantify', qvars=sorted(e['qvars']), u=e['u'], forall=e['forall']))


@case('dd.bdd.BDD.cofactor')
def c_cofactor(seed):
    def build(rnd):
        env = pub_manager(rnd)
        names = env['names'] + (['zz'] if rnd.random() < .1 else [])
        vals = {nm: rnd.random() < .5 for nm in rnd.sample(names, rnd.randint(1, len(names)))}
        env.update(u=op_ref(env, rnd), values=vals)
        return env
    return Case('dd.bdd.BDD.cofactor', seed, build, lambda e: e['b'].cofactor(e['u'], e['values']),
                lambda e: dict(self=None, u=zint(e['u']), values=zdict(e['values'], 'name', 'bool')),
                lambda e: dict(call='cofactor', u=e['u'], values=e['values']))




def _compose_case(contract, nsub):
    def c_(seed):
        def build(rnd):
            env = pub_manager(rnd)
            names = env['names']
            k = 1 if nsub == 1 else rnd.randint(2, max(2, len(names)))
            k = min(k, len(names))
            sub = {nm: op_ref(env, rnd) for nm in rnd.sample(names, k)}
            env.update(f=op_ref(env, rnd), var_sub=sub)
            return env
        return Case(contract, seed, build, lambda e: e['b'].compose(e['f'], e['var_sub']),
                    lambda e: dict(self=None, f=zint(e['f']), var_sub=zdict(e['var_sub'], 'name', 'int')),
                    lambda e: dict(call='compose', f=e['f'], var_sub=e['var_sub']))
    return c_


@case('dd.bdd.BDD.rename')
def c_rename(seed):
    def build(rnd):
        env = pub_manager(rnd)
        b = env['b']
        names = env['names']
        u = op_ref(env, rnd)
        # a renaming accepted by the documented precondition: targets outside the support unless renamed themselves
        k = rnd.randint(0, len(names))
        src = rnd.sample(names, k)
        dst = rnd.sample(names, k)
        env.update(u=u, dvars=dict(zip(src, dst)))
        return env
    return Case('dd.bdd.BDD.rename', seed, build, lambda e: e['b'].rename(e['u'], e['dvars']),
                lambda e: dict(self=None, u=zint(e['u']), dvars=zdict(e['dvars'], 'name', 'name')),
                lambda e: dict(call='rename', u=e['u'], dvars=e['dvars']))


@case('dd.bdd.BDD.let:bool')
def c_let_bool(seed):
    def build(rnd):
        env = pub_manager(rnd)
        names = env['names']
        vals = {nm: rnd.random() < .5 for nm in rnd.sample(names, rnd.randint(0, len(names)))}
        env.update(u=op_ref(env, rnd), d=vals)
        return env
    return Case('dd.bdd.BDD.let:bool', seed, build, lambda e: e['b'].let(e['d'], e['u']),
                lambda e: dict(self=None, u=zint(e['u']), definitions=zdict(e['d'], 'name', 'bool')), lambda e: dict(call='let', u=e['u'], d=e['d']))


@case('dd.bdd.BDD.let:int')
def c_let_int(seed):
    def build(rnd):
        env = pub_manager(rnd)
        names = env['names']
        sub = {nm: op_ref(env, rnd) for nm in rnd.sample(names, rnd.randint(0, len(names)))}
        env.update(u=op_ref(env, rnd), d=sub)
        return env
    return Case('dd.bdd.BDD.let:int', seed, build, lambda e: e['b'].let(e['d'], e['u']),
                lambda e: dict(self=None, u=zint(e['u']), definitions=zdict(e['d'], 'name', 'int')), lambda e: dict(call='let', u=e['u'], d=e['d']))


@case('dd.bdd.BDD.let:name')
def c_let_name(seed):
    def build(rnd):
        env = pub_manager(rnd)
        names = env['names']
        k = rnd.randint(0, len(names))
        env.update(u=op_ref(env, rnd), d=dict(zip(rnd.sample(names, k), rnd.sample(names, k))))
        return env
    return Case('dd.bdd.BDD.let:name', seed, build, lambda e: e['b'].let(e['d'], e['u']),
                lambda e: dict(self=None, u=zint(e['u']), definitions=zdict(e['d'], 'name', 'name')), lambda e: dict(call='let', u=e['u'], d=e['d']))


for _k in ('set', 'dict'):
    def _mk(k=_k):
        @case('dd.bdd.BDD._map_to_level:' + k)
        def c_(seed):
            def build(rnd):
                env = new_manager(rnd)
                names = env['names'] + (['zz', 'yy'] if rnd.random() < .25 else [])
                pick = rnd.sample(names, rnd.randint(0, len(names)))
                env.update(d=set(pick) if k == 'set' else {nm: rnd.random() < .5 for nm in pick})
                return env
            return Case('dd.bdd.BDD._map_to_level:' + k, seed, build, lambda e: e['b']._map_to_level(e['d']),
                        lambda e: dict(self=None, d=with_len(zset_name(e['d']), len(e['d'])) if k == 'set' else zdict(e['d'], 'name', 'bool')),
                        lambda e: dict(call='_map_to_level', d=sorted(e['d']) if k == 'set' else e['d']),
                        ret=(lambda e, r: zset_int(r)) if k == 'set' else (lambda e, r: zdict(r, 'int', 'bool')))
    _mk()


for _nm in ('_low_high',):
    @case('dd.bdd.BDD._low_high')
    def c_low_high(seed):
        def build(rnd):
            env = new_manager(rnd)
            env.update(u=any_ref(env, rnd))
            return env
        return Case('dd.bdd.BDD._low_high', seed, build, lambda e: e['b']._low_high(e['u']),
                    lambda e: dict(self=None, u=zint(e['u'])), lambda e: dict(call='_low_high', u=e['u']))


@case('dd.bdd.BDD.succ')
def c_succ(seed):
    def build(rnd):
        env = new_manager(rnd)
        env.update(u=any_ref(env, rnd))
        return env
    return Case('dd.bdd.BDD.succ', seed, build, lambda e: e['b'].succ(e['u']),
                lambda e: dict(self=None, u=zint(e['u'])), lambda e: dict(call='succ', u=e['u']))


@case('dd.bdd.BDD.declare')
def c_declare(seed):
    def build(rnd):
        env = new_manager(rnd)
        vs = [rnd.choice(NAMES) for _ in range(rnd.randint(0, 4))]
        if rnd.random() < .4:
            # one call that names the same variable twice (a new one if there is one)
            new = [nm for nm in NAMES if nm not in env['b'].vars]
            x = rnd.choice(new) if new else rnd.choice(NAMES)
            for _ in range(2):
                vs.insert(rnd.randrange(len(vs) + 1), x)
        env.update(variables=vs)
        return env

    def za(e):
        vs = e['variables']
        a_ = arr([(IntVal(k), NAMEZ[nm]) for k, nm in enumerate(vs)], I, NAMEZ['zz'])
        return dict(self=None, variables=ListV(a_, IntVal(len(vs)), 'name'))
    return Case('dd.bdd.BDD.declare', seed, build, lambda e: e['b'].declare(*e['variables']), za, lambda e: dict(call='declare', variables=e['variables']))


CASES['dd.bdd.BDD.compose[one]'] = ('dd.bdd.BDD.compose', _compose_case('dd.bdd.BDD.compose', 1))
CASES['dd.bdd.BDD.compose[several]'] = ('dd.bdd.BDD.compose', _compose_case('dd.bdd.BDD.compose', 2))


# ---------------------------------------------------------------------------------------------------------------------
# internal recursions, called the way their public wrappers call them (fresh memo, j = 0)
def zlist_int(xs):
    return ListV(arr([(IntVal(k), IntVal(x)) for k, x in enumerate(xs)], I, IntVal(0)), IntVal(len(xs)))


def zdict_fork(d):
    from vlib.vc.model import Fork
    from vlib.vc.concrete import fk
    v = DictV(arr([(fk(t + (0,) if len(t) == 2 else t), BoolVal(True)) for t in d], Fork, BoolVal(False)),
              arr([(fk(t + (0,) if len(t) == 2 else t), IntVal(x)) for t, x in d.items()], Fork, IntVal(0)), 'int', 'fork', ne=BoolVal(bool(d)))
    v._len = IntVal(len(d))
    return v


def memo_muts(name, conv):
    """(before, after) views of a memo dict that the callee fills"""
    def muts(env, a0):
        return {name: (a0[name], conv(env[name]))}
    return muts


@case('dd.bdd.BDD._quantify')
def c_quantify_rec(seed):
    def build(rnd):
        env = new_manager(rnd)
        b = env['b']
        lv = sorted(rnd.sample(range(len(b.vars)), rnd.randint(0, len(b.vars))))
        env.update(u=any_ref(env, rnd), ordvar=lv, qvars=set(lv), forall=rnd.random() < .5, cache=dict())
        return env
    return Case('dd.bdd.BDD._quantify', seed, build,
                lambda e: e['b']._quantify(e['u'], 0, e['ordvar'], e['qvars'], e['forall'], e['cache']),
                lambda e: dict(self=None, u=zint(e['u']), j=zint(0), ordvar=zlist_int(e['ordvar']), qvars=with_len(zset_int(e['qvars']), len(e['qvars'])),
                               forall=BoolVal(e['forall']), cache=zdict({}, 'int', 'int')),
                lambda e: dict(call='_quantify', u=e['u'], ordvar=e['ordvar'], forall=e['forall']),
                muts=memo_muts('cache', lambda d: zdict(d, 'int', 'int')))


@case('dd.bdd.BDD._cofactor')
def c_cofactor_rec(seed):
    def build(rnd):
        env = new_manager(rnd)
        b = env['b']
        lv = sorted(rnd.sample(range(len(b.vars)), rnd.randint(0, len(b.vars))))
        env.update(u=any_ref(env, rnd), ordvar=lv, values={l: rnd.random() < .5 for l in lv}, cache=dict())
        return env
    return Case('dd.bdd.BDD._cofactor', seed, build, lambda e: e['b']._cofactor(e['u'], 0, e['ordvar'], e['values'], e['cache']),
                lambda e: dict(self=None, u=zint(e['u']), j=zint(0), ordvar=zlist_int(e['ordvar']), values=zdict(e['values'], 'int', 'bool'),
                               cache=zdict({}, 'int', 'int')),
                lambda e: dict(call='_cofactor', u=e['u'], values=e['values']), muts=memo_muts('cache', lambda d: zdict(d, 'int', 'int')))


@case('dd.bdd.BDD._compose')
def c_compose_rec(seed):
    def build(rnd):
        env = new_manager(rnd)
        b = env['b']
        env.update(f=any_ref(env, rnd), j=rnd.randrange(0, len(b.vars)), g=any_ref(env, rnd), cache=dict())
        return env
    return Case('dd.bdd.BDD._compose', seed, build, lambda e: e['b']._compose(e['f'], e['j'], e['g'], e['cache']),
                lambda e: dict(self=None, f=zint(e['f']), j=zint(e['j']), g=zint(e['g']), cache=zdict_fork({})),
                lambda e: dict(call='_compose', f=e['f'], j=e['j'], g=e['g']), muts=memo_muts('cache', zdict_fork))


@case('dd.bdd.BDD._vector_compose')
def c_vcompose_rec(seed):
    def build(rnd):
        env = new_manager(rnd)
        b = env['b']
        lv = rnd.sample(range(len(b.vars)), rnd.randint(0, len(b.vars)))
        env.update(f=any_ref(env, rnd), level_sub={l: any_ref(env, rnd) for l in lv}, cache=dict())
        return env
    return Case('dd.bdd.BDD._vector_compose', seed, build, lambda e: e['b']._vector_compose(e['f'], e['level_sub'], e['cache']),
                lambda e: dict(self=None, f=zint(e['f']), level_sub=zdict(e['level_sub'], 'int', 'int'), cache=zdict({}, 'int', 'int')),
                lambda e: dict(call='_vector_compose', f=e['f'], level_sub=e['level_sub']), muts=memo_muts('cache', lambda d: zdict(d, 'int', 'int')))


@case('dd.bdd.BDD._support')
def c_support_rec(seed):
    def build(rnd):
        env = new_manager(rnd)
        env.update(u=any_ref(env, rnd), levels=set(), nodes=set())
        return env

    def muts(env, a0):
        return dict(levels=(a0['levels'], zset_int(env['levels'])), nodes=(a0['nodes'], zset_int(env['nodes'])))
    return Case('dd.bdd.BDD._support', seed, build, lambda e: e['b']._support(e['u'], e['levels'], e['nodes']),
                lambda e: dict(self=None, u=zint(e['u']), levels=with_len(zset_int(set()), 0), nodes=with_len(zset_int(set()), 0)),
                lambda e: dict(call='_support', u=e['u']), muts=muts)


@case('dd.bdd.BDD._descendants')
def c_descendants_rec(seed):
    def build(rnd):
        env = new_manager(rnd)
        env.update(u=any_ref(env, rnd), visited={1})
        return env

    def muts(env, a0):
        return dict(visited=(a0['visited'], zset_int(env['visited'])))
    return Case('dd.bdd.BDD._descendants', seed, build, lambda e: e['b']._descendants(e['u'], e['visited']),
                lambda e: dict(self=None, u=zint(e['u']), visited=with_len(zset_int({1}), 1)),
                lambda e: dict(call='_descendants', u=e['u']), muts=muts)


@case('dd.bdd.BDD.collect_garbage!roots', 'roots')
def c_gc_roots(seed):
    def build(rnd):
        env = new_manager(rnd)
        env.update(roots={any_ref(env, rnd) for _ in range(rnd.randint(0, 3))})
        return env
    return Case('dd.bdd.BDD.collect_garbage!roots', seed, build, lambda e: e['b'].collect_garbage(e['roots']),
                lambda e: dict(self=None, roots=with_len(zset_int(e['roots']), len(e['roots']))), lambda e: dict(call='collect_garbage', roots=sorted(e['roots'])))


@case('dd.bdd.BDD.ref')
def c_ref(seed):
    def build(rnd):
        env = new_manager(rnd)
        env.update(u=any_ref(env, rnd))
        return env
    return Case('dd.bdd.BDD.ref', seed, build, lambda e: e['b'].ref(e['u']), lambda e: dict(self=None, u=zint(e['u'])), lambda e: dict(call='ref', u=e['u']))


@case('dd.bdd.BDD._swap_cofactor')
def c_swap_cofactor(seed):
    def build(rnd):
        env = new_manager(rnd)
        env.update(u=any_ref(env, rnd), y=rnd.randrange(0, len(env['b'].vars)))
        return env
    return Case('dd.bdd.BDD._swap_cofactor', seed, build, lambda e: e['b']._swap_cofactor(e['u'], e['y']),
                lambda e: dict(self=None, u=zint(e['u']), y=zint(e['y'])), lambda e: dict(call='_swap_cofactor', u=e['u'], y=e['y']))


@case('dd.bdd.BDD._next_free_int')
def c_next_free_int(seed):
    def build(rnd):
        env = new_manager(rnd)
        env.update(start=rnd.randint(1, max(env['b']._succ) + 2))
        return env
    return Case('dd.bdd.BDD._next_free_int', seed, build, lambda e: e['b']._next_free_int(e['start']),
                lambda e: dict(self=None, start=zint(e['start'])), lambda e: dict(call='_next_free_int', start=e['start']))


@case('dd.bdd.BDD._check_var')
def c_check_var(seed):
    def build(rnd):
        env = new_manager(rnd)
        env.update(var=rnd.choice(NAMES[:5]), level=rnd.choice([None, 0, 1, 2, 3]))
        return env
    return Case('dd.bdd.BDD._check_var', seed, build, lambda e: e['b']._check_var(e['var'], e['level']),
                lambda e: dict(self=None, var=NAMEZ[e['var']], level=zint(e['level'] or 0), level_none=BoolVal(e['level'] is None)),
                lambda e: dict(call='_check_var', var=e['var'], level=e['level']))


@case('dd.bdd.BDD._next_free_level')
def c_next_free_level(seed):
    def build(rnd):
        env = new_manager(rnd)
        env.update(var=rnd.choice(NAMES), level=rnd.choice([None, 0, 1, 2, 3, 4, 5]))
        return env
    return Case('dd.bdd.BDD._next_free_level', seed, build, lambda e: e['b']._next_free_level(e['var'], e['level']),
                lambda e: dict(self=None, var=NAMEZ[e['var']], level=zint(e['level'] or 0), level_none=BoolVal(e['level'] is None)),
                lambda e: dict(call='_next_free_level', var=e['var'], level=e['level']))


# ---------------------------------------------------------------------------------------------------------------------
# two managers: copy by variable name
def second_manager(rnd, names):
    import dd.bdd as D
    t = D.BDD()
    order = list(names) + [nm for nm in NAMES[:5] if nm not in names and rnd.random() < .4]
    rnd.shuffle(order)
    for nm in order:
        t.add_var(nm)
    for _ in range(rnd.randint(0, 2)):
        u = t.var(rnd.choice(order))
        v = t.var(rnd.choice(order))
        w = t.apply(rnd.choice(['and', 'xor', 'or']), u, -v)
        if rnd.random() < .5:
            t.incref(w)
    return t


def two_mgr_case(contract, call, zargs, describe):
    def c_(seed):
        def build(rnd):
            env = new_manager(rnd)
            env['t'] = second_manager(rnd, env['names'])
            env.update(u=any_ref(env, rnd))
            return env

        def mgrs(env, tag):
            return {}
        return Case(contract, seed, build, call, zargs, describe)
    return c_


def _copy_case(contract, call, zargs):
    def c_(seed):
        def build(rnd):
            env = new_manager(rnd)
            env['t'] = second_manager(rnd, env['names'])
            env.update(u=any_ref(env, rnd))
            return env
        return Case(contract, seed, build, call, zargs, lambda e: dict(call=contract.split('.')[-1], u=e['u'], source_vars=dict(e['b'].vars), target_vars=dict(e['t'].vars)),
                    managers=lambda e: {'from': e['b'], 'to': e['t']}, primary='to')
    return c_


def _dd():
    import dd.bdd as D
    return D


CASES['dd.bdd.copy_bdd[two-managers]'] = ('dd.bdd.copy_bdd', _copy_case(
    'dd.bdd.copy_bdd', lambda e: _dd().copy_bdd(e['u'], e['b'], e['t']),
    lambda e, st: dict(u=zint(e['u']), from_bdd=st['from'], from_bdd_key='from', to_bdd=st['to'], to_bdd_key='to')))
CASES['dd.bdd.BDD.copy[two-managers]'] = ('dd.bdd.BDD.copy', _copy_case(
    'dd.bdd.BDD.copy', lambda e: e['b'].copy(e['u'], e['t']),
    lambda e, st: dict(u=zint(e['u']), self=st['from'], self_key='from', other=st['to'], other_key='to')))


# ---------------------------------------------------------------------------------------------------------------------
# relational product recursion
def _image_case(variant):
    def c_(seed):
        def build(rnd):
            env = new_manager(rnd, nvars=rnd.randint(2, 4))
            b = env['b']
            n = len(b.vars)
            ren = {}
            for l in rnd.sample(range(n), rnd.randint(0, min(2, n))):
                ren[l] = rnd.randrange(0, n)
            env.update(u=any_ref(env, rnd), v=any_ref(env, rnd), ren=ren, qvars=set(rnd.sample(range(n), rnd.randint(0, n))),
                       forall=rnd.random() < .5, cache=dict())
            return env

        def call(e):
            D = _dd()
            um, vm = (e['ren'], None) if variant == 'image' else (None, e['ren'])
            return D._image(e['u'], e['v'], um, vm, e['qvars'], e['b'], e['forall'], e['cache'])

        def za(e):
            ren = zdict(e['ren'], 'int', 'int')
            none = IntVal(0)
            um, vm = (ren, none) if variant == 'image' else (none, ren)
            return dict(u=zint(e['u']), v=zint(e['v']), umap=um, vmap=vm, umap_none=BoolVal(variant != 'image'), vmap_none=BoolVal(variant == 'image'),
                        qvars=with_len(zset_int(e['qvars']), len(e['qvars'])), bdd=None, forall=BoolVal(e['forall']), cache=zdict_fork({}))

        def extra(e, st):
            from vlib.vc.contracts_bdd import EI
            S0 = st['self']
            return [EI.dom == S0.dom, EI.lvl == S0.lvl, EI.lo == S0.lo, EI.hi == S0.hi, EI.nvars == S0.nvars]
        return Case('dd.bdd._image', seed, build, call, za,
                    lambda e: dict(call='_image', variant=variant, u=e['u'], v=e['v'], rename=e['ren'], qvars=sorted(e['qvars']), forall=e['forall']),
                    muts=memo_muts('cache', zdict_fork), extra=extra)
    return c_


CASES['dd.bdd._image[image]'] = ('dd.bdd._image', _image_case('image'))
CASES['dd.bdd._image[preimage]'] = ('dd.bdd._image', _image_case('preimage'))


# ---------------------------------------------------------------------------------------------------------------------
# dd.autoref: handles are real Function objects kept alive in env; the ledger (ext = live handles) is what W6 determines
from vlib.vc.symex import ObjV  # noqa: E402


def new_autoref(rnd, reordering=False):
    import dd.autoref as AR
    m = AR.BDD()
    n = rnd.randint(2, 4)
    names = NAMES[:n]
    order = list(names)
    rnd.shuffle(order)
    for nm in order:
        m.add_var(nm)
    hs = []
    u = v = None
    for _ in range(rnd.randint(1, 4)):
        u = m.var(rnd.choice(names))
        for _ in range(rnd.randint(0, 3)):
            v = m.var(rnd.choice(names))
            if rnd.random() < .3:
                v = ~v
            u = m.apply(rnd.choice(['and', 'or', 'xor', '=>']), u, v)
        hs.append(u)
    del u, v
    import gc
    gc.collect()
    if rnd.random() < .5:
        m.collect_garbage()
    if reordering:
        m.configure(reordering=True)
    return dict(m=m, b=m._bdd, names=names, handles=hs, rnd=rnd)


OWNER = ObjV('dd.autoref.BDD', {}, ident=IntVal(1))
OTHER = ObjV('dd.autoref.BDD', {}, ident=IntVal(2))


def zhandle(name, h, foreign=False):
    """contract view of a handle argument: node, object with owner identity, not None"""
    return {name: IntVal(h.node), name + '_obj': ObjV('dd.autoref.Function', {'bdd': OTHER if foreign else OWNER}), name + '_none': BoolVal(False)}


def znohandle(name):
    return {name: IntVal(0), name + '_obj': ObjV('dd.autoref.Function', {'bdd': OWNER}), name + '_none': BoolVal(True)}


def handle_ret(env, r):
    env['result_handle'] = r      # keep it alive until the exit state has been read
    return IntVal(r.node)


def aref_case(contract, build_extra, call, zargs, describe, ret=handle_ret):
    def c_(seed):
        def build(rnd):
            env = new_autoref(rnd)
            if rnd.random() < .25:
                # dynamic reordering on, threshold low enough to fire inside the call (every operand is a live handle)
                env['m'].configure(reordering=True)
                env['b']._last_len = rnd.choice([1, 2, 3])
            build_extra(env, rnd)
            return env
        return Case(contract, seed, build, call, zargs, describe, ret=ret)
    return c_


def pick_h(env, rnd):
    return rnd.choice(env['handles'])


CASES['dd.autoref.BDD.var'] = ('dd.autoref.BDD.var', aref_case(
    'dd.autoref.BDD.var', lambda e, r: e.update(var=r.choice(NAMES[:5])), lambda e: e['m'].var(e['var']),
    lambda e: dict(self=OWNER, var=NAMEZ[e['var']]), lambda e: dict(call='autoref.var', var=e['var'])))
CASES['dd.autoref.BDD.ite'] = ('dd.autoref.BDD.ite', aref_case(
    'dd.autoref.BDD.ite', lambda e, r: e.update(g=pick_h(e, r), u=pick_h(e, r), v=pick_h(e, r)), lambda e: e['m'].ite(e['g'], e['u'], e['v']),
    lambda e: dict(self=OWNER, **zhandle('g', e['g']), **zhandle('u', e['u']), **zhandle('v', e['v'])),
    lambda e: dict(call='autoref.ite', g=e['g'].node, u=e['u'].node, v=e['v'].node)))


def _aapply_build(e, r):
    k = r.random()
    if k < .2:
        e.update(op=r.choice(['~', 'not', '!']), u=pick_h(e, r), v=None, w=None)
    elif k < .8:
        e.update(op=r.choice(OPS2), u=pick_h(e, r), v=pick_h(e, r), w=None)
    else:
        e.update(op='ite', u=pick_h(e, r), v=pick_h(e, r), w=pick_h(e, r))


CASES['dd.autoref.BDD.apply'] = ('dd.autoref.BDD.apply', aref_case(
    'dd.autoref.BDD.apply', _aapply_build, lambda e: e['m'].apply(e['op'], e['u'], e['v'], e['w']),
    lambda e: dict(self=OWNER, op=e['op'], **zhandle('u', e['u']), **(zhandle('v', e['v']) if e['v'] is not None else znohandle('v')),
                   **(zhandle('w', e['w']) if e['w'] is not None else znohandle('w'))),
    lambda e: dict(call='autoref.apply', op=e['op'], u=e['u'].node, v=e['v'] and e['v'].node, w=e['w'] and e['w'].node)))

for _nm in ('forall', 'exist'):
    CASES['dd.autoref.BDD.' + _nm] = ('dd.autoref.BDD.' + _nm, aref_case(
        'dd.autoref.BDD.' + _nm, lambda e, r: e.update(u=pick_h(e, r), qvars=set(r.sample(e['names'], r.randint(0, len(e['names']))))),
        (lambda nm: lambda e: getattr(e['m'], nm)(e['qvars'], e['u']))(_nm),
        lambda e: dict(self=OWNER, qvars=with_len(zset_name(e['qvars']), len(e['qvars'])), **zhandle('u', e['u'])),
        (lambda nm: lambda e: dict(call='autoref.' + nm, qvars=sorted(e['qvars']), u=e['u'].node))(_nm)))

for _nm, _op in (('__and__', 'and'), ('__or__', 'or'), ('implies', 'implies'), ('equiv', 'equiv')):
    CASES['dd.autoref.Function.' + _nm] = ('dd.autoref.Function.' + _nm, aref_case(
        'dd.autoref.Function.' + _nm, lambda e, r: e.update(x=pick_h(e, r), y=pick_h(e, r)),
        (lambda nm: lambda e: getattr(e['x'], nm)(e['y']))(_nm),
        lambda e: dict(self=IntVal(e['x'].node), self_obj=ObjV('dd.autoref.Function', {'bdd': OWNER}), **zhandle('other', e['y'])),
        (lambda nm: lambda e: dict(call='Function.' + nm, self=e['x'].node, other=e['y'].node))(_nm)))
CASES['dd.autoref.Function.__invert__'] = ('dd.autoref.Function.__invert__', aref_case(
    'dd.autoref.Function.__invert__', lambda e, r: e.update(x=pick_h(e, r)), lambda e: ~e['x'],
    lambda e: dict(self=IntVal(e['x'].node), self_obj=ObjV('dd.autoref.Function', {'bdd': OWNER})), lambda e: dict(call='Function.__invert__', self=e['x'].node)))
for _nm in ('__le__', '__lt__'):
    CASES['dd.autoref.Function.' + _nm] = ('dd.autoref.Function.' + _nm, aref_case(
        'dd.autoref.Function.' + _nm, lambda e, r: e.update(x=pick_h(e, r), y=pick_h(e, r)),
        (lambda nm: lambda e: getattr(e['x'], nm)(e['y']))(_nm),
        lambda e: dict(self=IntVal(e['x'].node), self_obj=ObjV('dd.autoref.Function', {'bdd': OWNER}), **zhandle('other', e['y'])),
        (lambda nm: lambda e: dict(call='Function.' + nm, self=e['x'].node, other=e['y'].node))(_nm), ret=None))


@case('dd._utils.assert_operator_arity')
def c_arity(seed):
    def build(rnd):
        env = new_manager(rnd, nvars=2)
        ops = OPS2 + ['~', 'not', '!', 'ite', '\\A', '\\E', 'forall', 'exists', 'nand', '']
        env.update(op=rnd.choice(ops), v=rnd.choice([None, 1, -1]), w=rnd.choice([None, None, 1]))
        return env

    def call(e):
        import dd._utils as U
        return U.assert_operator_arity(e['op'], e['v'], e['w'], 'bdd')
    return Case('dd._utils.assert_operator_arity', seed, build, call,
                lambda e: dict(op=e['op'], v=zint(e['v'] or 0), w=zint(e['w'] or 0), v_none=BoolVal(e['v'] is None), w_none=BoolVal(e['w'] is None),
                               diagram_type='bdd'),
                lambda e: dict(call='assert_operator_arity', op=e['op'], v=e['v'], w=e['w']))


# ---------------------------------------------------------------------------------------------------------------------
# reordering primitives against their observed contracts (vlib/vc/contracts_reorder.py)
@case('dd.bdd.BDD.swap!observed')
def c_swap(seed):
    def build(rnd):
        env = new_manager(rnd, nvars=rnd.randint(2, 4), held=rnd.randint(0, 4))
        n = len(env['b'].vars)
        x = rnd.randrange(0, n - 1)
        x, y = (x, x + 1) if rnd.random() < .5 else (x + 1, x)
        if rnd.random() < .1:
            y = rnd.choice([x, x + 2, -1, n])
        if rnd.random() < .3:
            env['b'].configure(reordering=True)
            env['b']._last_len = rnd.choice([1, 2, 3])
        env.update(x=x, y=y)
        return env
    return Case('dd.bdd.BDD.swap!observed', seed, build, lambda e: e['b'].swap(e['x'], e['y']),
                lambda e: dict(self=None, x=zint(e['x']), y=zint(e['y']), all_levels=None), lambda e: dict(call='swap', x=e['x'], y=e['y']))


def _reorder_case(with_order):
    def c_(seed):
        def build(rnd):
            env = new_manager(rnd, nvars=rnd.randint(2, 4), held=rnd.randint(0, 4))
            names = list(env['b'].vars)
            rnd.shuffle(names)
            env['order'] = _shuffled({nm: k for k, nm in enumerate(names)}, rnd) if with_order else None
            if rnd.random() < .3:
                env['b'].configure(reordering=True)
                env['b']._last_len = rnd.choice([1, 2, 3])
            return env

        def za(e):
            if e['order'] is None:
                return dict(bdd=None, order=IntVal(0), order_none=BoolVal(True))
            inv = arr([(IntVal(l), NAMEZ[nm]) for nm, l in e['order'].items()], I, NAMEZ['zz'])
            return dict(bdd=None, order=zdict(e['order'], 'name', 'int'), order_inv=inv, order_none=BoolVal(False))
        return Case('dd.bdd.reorder!observed', seed, build, lambda e: _dd().reorder(e['b'], e['order']), za,
                    lambda e: dict(call='reorder', order=e['order'], vars=dict(e['b'].vars)))
    return c_


CASES['dd.bdd.reorder!observed[sifting]'] = ('dd.bdd.reorder!observed', _reorder_case(False))
CASES['dd.bdd.reorder!observed[order]'] = ('dd.bdd.reorder!observed', _reorder_case(True))


@case('dd.bdd.BDD.undeclare_vars!observed')
def c_undeclare(seed):
    def build(rnd):
        import dd.bdd as D
        b = D.BDD()
        n = rnd.randint(3, 6)
        names = NAMES[:n]
        order = list(names)
        rnd.shuffle(order)
        for nm in order:
            b.add_var(nm)
        used = rnd.sample(names, rnd.randint(0, n - 1))
        held = []
        for _ in range(rnd.randint(0, 3)):
            if not used:
                break
            u = b.var(rnd.choice(used))
            for _ in range(rnd.randint(0, 2)):
                u = b.apply(rnd.choice(['and', 'or', 'xor']), u, b.var(rnd.choice(used)))
            if rnd.random() < .7:
                b.incref(u)
                held.append(u)
        if rnd.random() < .6:
            b.collect_garbage()
        k = rnd.random()
        if k < .35:
            vrs = []
        else:
            vrs = rnd.sample(names + ['zz'], rnd.randint(1, 3))
        return dict(b=b, names=names, held=held, vrs=vrs, rnd=rnd)
    return Case('dd.bdd.BDD.undeclare_vars!observed', seed, build, lambda e: e['b'].undeclare_vars(*e['vrs']),
                lambda e: dict(self=None, vrs=with_len(zset_name(e['vrs']), len(set(e['vrs'])))),
                lambda e: dict(call='undeclare_vars', vrs=e['vrs'], vars_before=dict(e['names'] and {})))


@case('dd.bdd.BDD.pick_iter!observed')
def c_pick_iter(seed):
    def build(rnd):
        env = new_manager(rnd)
        b = env['b']
        u = any_ref(env, rnd) if rnd.random() < .8 else rnd.choice([1, -1])      # the constants are corner cases of pick
        supp = b.support(u)
        k = rnd.random()
        if k < .4:
            care = None
        else:
            extra = [nm for nm in env['names'] if nm not in supp]
            care = set(supp) | set(rnd.sample(extra, rnd.randint(0, len(extra))))
        env.update(u=u, care=care, supp=supp)
        return env

    def za(e):
        care = e['care'] if e['care'] is not None else e['supp']
        return dict(self=None, u=zint(e['u']), care_vars=with_len(zset_name(care), len(care)))
    return Case('dd.bdd.BDD.pick_iter!observed', seed, build, lambda e: list(e['b'].pick_iter(e['u'], e['care'])), za,
                lambda e: dict(call='pick_iter', u=e['u'], care_vars=sorted(e['care']) if e['care'] is not None else None),
                ret=lambda e, r: [zdict(d, 'name', 'bool') for d in r])


@case('dd.bdd.BDD.cube!observed')
def c_cube(seed):
    def build(rnd):
        env = new_manager(rnd)
        names = env['names']
        env.update(dvars={nm: rnd.random() < .5 for nm in rnd.sample(names, rnd.randint(0, len(names)))})
        return env
    return Case('dd.bdd.BDD.cube!observed', seed, build, lambda e: e['b'].cube(e['dvars']),
                lambda e: dict(self=None, dvars=zdict(e['dvars'], 'name', 'bool')), lambda e: dict(call='cube', dvars=e['dvars']))


@case('dd.bdd.BDD.pick!observed')
def c_pick(seed):
    inner = c_pick_iter(seed)
    return Case('dd.bdd.BDD.pick!observed', seed, inner.build, lambda e: e['b'].pick(e['u'], e['care']), inner.zargs,
                lambda e: dict(call='pick', u=e['u'], care_vars=sorted(e['care']) if e['care'] is not None else None),
                ret=lambda e, r: None if r is None else zdict(r, 'name', 'bool'))


# ---------------------------------------------------------------------------------------------------------------------
# pickle loader recursion: the dumped node table is the `_succ` of another real manager
@case('dd.bdd.BDD._load')
def c_load(seed):
    def build(rnd):
        env = new_manager(rnd)                        # source: its node table plays the file
        src = env['b']
        t = second_manager(rnd, env['names'])       # receiving manager declares (at least) the same names, other order
        level_map = {src.vars[nm]: t.vars[nm] for nm in src.vars}
        env.update(t=t, u=any_ref(env, rnd), succ=dict(src._succ), umap=dict(), level_map=level_map)
        return env
    return Case('dd.bdd.BDD._load', seed, build, lambda e: e['t']._load(e['u'], e['succ'], e['umap'], e['level_map']),
                lambda e, st: dict(self=st['self'], u=zint(e['u']), succ=st['F'], succ_key='F', umap=zdict({}, 'int', 'int'),
                                   level_map=zdict(e['level_map'], 'int', 'int')),
                lambda e: dict(call='_load', u=e['u'], level_map=e['level_map'], source_vars=dict(e['b'].vars), target_vars=dict(e['t'].vars)),
                muts=memo_muts('umap', lambda d: zdict(d, 'int', 'int')), managers=lambda e: {'self': e['t'], 'F': e['b']}, primary='self')


# ---------------------------------------------------------------------------------------------------------------------
# the order-only callers of swap (C07)
def _order_mgr(rnd):
    env = new_manager(rnd, nvars=rnd.randint(2, 5), held=rnd.randint(0, 3))
    return env


@case('dd.bdd._shift')
def c_shift(seed):
    def build(rnd):
        env = _order_mgr(rnd)
        n = len(env['b'].vars)
        env.update(start=rnd.randrange(n), end=rnd.randrange(n))
        return env
    return Case('dd.bdd._shift', seed, build, lambda e: _dd()._shift(e['b'], e['start'], e['end'], e['b']._levels()),
                lambda e: dict(bdd=None, start=zint(e['start']), end=zint(e['end']), levels=None), lambda e: dict(call='_shift', start=e['start'], end=e['end']))


def _order_args(e):
    inv = arr([(IntVal(l), NAMEZ[nm]) for nm, l in e['order'].items()], I, NAMEZ['zz'])
    return dict(bdd=None, order=zdict(e['order'], 'name', 'int'), order_inv=inv)


def _order_build(rnd):
    env = _order_mgr(rnd)
    names = list(env['b'].vars)
    rnd.shuffle(names)
    env['order'] = _shuffled({nm: k for k, nm in enumerate(names)}, rnd)
    return env


CASES['dd.bdd._sort_to_order'] = ('dd.bdd._sort_to_order', lambda seed: Case(
    'dd.bdd._sort_to_order', seed, _order_build, lambda e: _dd()._sort_to_order(e['b'], e['order']), _order_args,
    lambda e: dict(call='_sort_to_order', order=e['order'])))
CASES['dd.bdd.reorder!order'] = ('dd.bdd.reorder!order', lambda seed: Case(
    'dd.bdd.reorder!order', seed, _order_build, lambda e: _dd().reorder(e['b'], e['order']), _order_args,
    lambda e: dict(call='reorder', order=e['order'])))


@case('dd.bdd._reorder_var')
def c_reorder_var(seed):
    def build(rnd):
        env = _order_mgr(rnd)
        env['var'] = rnd.choice(list(env['b'].vars)) if rnd.random() < .9 else 'zz'
        env['b'].collect_garbage()
        return env
    return Case('dd.bdd._reorder_var', seed, build, lambda e: _dd()._reorder_var(e['b'], e['var'], e['b']._levels()),
                lambda e: dict(bdd=None, var=NAMEZ[e['var']], levels=None), lambda e: dict(call='_reorder_var', var=e['var']))


CASES['dd.bdd._apply_sifting'] = ('dd.bdd._apply_sifting', lambda seed: Case(
    'dd.bdd._apply_sifting', seed, _order_mgr, lambda e: _dd()._apply_sifting(e['b']), lambda e: dict(bdd=None),
    lambda e: dict(call='_apply_sifting')))
CASES['dd.bdd.reorder!sifting'] = ('dd.bdd.reorder!sifting', lambda seed: Case(
    'dd.bdd.reorder!sifting', seed, _order_mgr, lambda e: _dd().reorder(e['b']), lambda e: dict(bdd=None, order=None),
    lambda e: dict(call='reorder')))


@case('dd.bdd.reorder_to_pairs')
def c_reorder_to_pairs(seed):
    def build(rnd):
        env = _order_mgr(rnd)
        names = list(env['b'].vars)
        rnd.shuffle(names)
        k = rnd.randint(0, len(names) // 2)
        env['pairs'] = {names[2 * i]: names[2 * i + 1] for i in range(k)}
        return env
    return Case('dd.bdd.reorder_to_pairs', seed, build, lambda e: _dd().reorder_to_pairs(e['b'], e['pairs']),
                lambda e: dict(bdd=None, pairs=zdict(e['pairs'], 'name', 'name')), lambda e: dict(call='reorder_to_pairs', pairs=e['pairs']))


@case('dd.bdd.BDD._sat_len')
def c_sat_len(seed):
    def build(rnd):
        env = new_manager(rnd)
        b = env['b']
        u = any_ref(env, rnd)
        levels = sorted(b.support(u, as_levels=True))
        slack = rnd.randint(0, 2)
        n = len(levels) + slack
        ml = {old: new + slack for new, old in enumerate(levels)}
        ml[b._succ[1][0]] = n
        env.update(u=u, ml_levels=dict(ml), n=n, d=dict())
        ml['all'] = n
        env['map_level'] = ml
        return env

    def za(e):
        mlz = zdict(e['ml_levels'], 'int', 'int')
        mlz.extra = {'all': IntVal(e['n'])}
        return dict(self=None, u=zint(e['u']), map_level=mlz, d=zdict({}, 'int', 'int'))
    return Case('dd.bdd.BDD._sat_len', seed, build, lambda e: e['b']._sat_len(e['u'], e['map_level'], e['d']), za,
                lambda e: dict(call='_sat_len', u=e['u'], map_level=e['map_level']), muts=memo_muts('d', lambda d: zdict(d, 'int', 'int')))


# ---------------------------------------------------------------------------------------------------------------------
# image / preimage wrappers under their documented preconditions (primed variable adjacent to its partner)
def _img_wrapper_case(direction):
    def c_(seed):
        def build(rnd):
            import dd.bdd as D
            b = D.BDD()
            npairs = rnd.randint(1, 2)
            names = []
            for k in range(npairs):
                pair = [f'{"ab"[k]}', f'{"cd"[k]}']       # unprimed a/b, primed c/d
                if rnd.random() < .5:
                    pair.reverse()
                names += pair
            if rnd.random() < .5:
                names.append('e')
            for nm in names:
                b.add_var(nm)
            unprimed, primed = ['a', 'b'][:npairs], ['c', 'd'][:npairs]
            allv = list(b.vars)

            def rand_fn(vs):
                u = b.var(rnd.choice(vs))
                for _ in range(rnd.randint(0, 3)):
                    v = b.var(rnd.choice(vs))
                    u = b.apply(rnd.choice(['and', 'or', 'xor', '=>']), u, v if rnd.random() < .7 else -v)
                return u
            trans = rand_fn(allv)
            if direction == 'image':
                # the source may mention primed variables too (they are renamed with the rest after the quantification)
                other = rand_fn(unprimed + (['e'] if 'e' in allv else []) + (primed if rnd.random() < .4 else []))
                rename = dict(zip(primed, unprimed))            # primed -> unprimed after quantifying the unprimed
                qvars = set(unprimed)
            else:
                other = rand_fn(unprimed + (['e'] if 'e' in allv else []))
                rename = dict(zip(unprimed, primed))            # target over unprimed, read as primed
                qvars = set(primed)
            b.incref(trans); b.incref(other)
            return dict(b=b, names=allv, trans=trans, other=other, rename=rename, qvars=qvars, forall=rnd.random() < .4, rnd=rnd)

        def call(e):
            D = _dd()
            f = D.image if direction == 'image' else D.preimage
            return f(e['trans'], e['other'], e['rename'], e['qvars'], e['b'], e['forall'])

        def za(e):
            b = e['b']
            lev = {b.vars[k]: b.vars[v] for k, v in e['rename'].items()}
            ren = zdict(lev, 'int', 'int')
            none = IntVal(0)
            um, vm = (ren, none) if direction == 'image' else (none, ren)
            return dict(trans=zint(e['trans']), other=zint(e['other']), u=zint(e['trans']), v=zint(e['other']), rename=None,
                        umap=um, vmap=vm, qvars=with_len(zset_name(e['qvars']), len(e['qvars'])), bdd=None, forall=BoolVal(e['forall']))

        def extra(e, st):
            from vlib.vc.contracts_bdd import EI
            S0 = st['self']
            return [EI.dom == S0.dom, EI.lvl == S0.lvl, EI.lo == S0.lo, EI.hi == S0.hi, EI.nvars == S0.nvars]
        return Case(f'dd.bdd.{direction}!observed', seed, build, call, za,
                    lambda e: dict(call=direction, trans=e['trans'], other=e['other'], rename=e['rename'], qvars=sorted(e['qvars']), forall=e['forall'],
                                   order=dict(e['b'].vars)), extra=extra)
    return c_


CASES['dd.bdd.image!observed'] = ('dd.bdd.image!observed', _img_wrapper_case('image'))
CASES['dd.bdd.preimage!observed'] = ('dd.bdd.preimage!observed', _img_wrapper_case('preimage'))


# ---- dd.autoref views and constants -------------------------------------------------------------------------------------------
def _keep(env, *hs):
    env.setdefault('result_handles', []).extend(h for h in hs if h is not None)


def _succ_ret(env, r):
    i, v, w = r
    _keep(env, v, w)
    hz = lambda h: (IntVal(h.node), BoolVal(False)) if h is not None else (IntVal(0), BoolVal(True))  # noqa
    return (IntVal(i), hz(v), hz(w))


def _opt_handle_ret(env, r):
    _keep(env, r)
    return (IntVal(r.node), BoolVal(False)) if r is not None else (IntVal(0), BoolVal(True))


FSELF = lambda e: dict(self=IntVal(e['x'].node), self_obj=ObjV('dd.autoref.Function', {'bdd': OWNER}))  # noqa

CASES['dd.autoref.BDD.succ'] = ('dd.autoref.BDD.succ', aref_case(
    'dd.autoref.BDD.succ', lambda e, r: e.update(u=pick_h(e, r)), lambda e: e['m'].succ(e['u']),
    lambda e: dict(self=OWNER, **zhandle('u', e['u'])), lambda e: dict(call='autoref.succ', u=e['u'].node), ret=_succ_ret))
for _w in ('low', 'high'):
    CASES['dd.autoref.Function.' + _w] = ('dd.autoref.Function.' + _w, aref_case(
        'dd.autoref.Function.' + _w, lambda e, r: e.update(x=pick_h(e, r)), (lambda w: lambda e: getattr(e['x'], w))(_w),
        FSELF, (lambda w: lambda e: dict(call='Function.' + w, self=e['x'].node))(_w), ret=_opt_handle_ret))
for _w, _conv in (('level', lambda env, r: IntVal(r)), ('ref', lambda env, r: IntVal(r)), ('negated', lambda env, r: BoolVal(bool(r)))):
    CASES['dd.autoref.Function.' + _w] = ('dd.autoref.Function.' + _w, aref_case(
        'dd.autoref.Function.' + _w, lambda e, r: e.update(x=pick_h(e, r)), (lambda w: lambda e: getattr(e['x'], w))(_w),
        FSELF, (lambda w: lambda e: dict(call='Function.' + w, self=e['x'].node))(_w), ret=_conv))
CASES['dd.autoref.Function.var'] = ('dd.autoref.Function.var', aref_case(
    'dd.autoref.Function.var', lambda e, r: e.update(x=pick_h(e, r)), lambda e: e['x'].var, FSELF,
    lambda e: dict(call='Function.var', self=e['x'].node),
    ret=lambda env, r: (NAMEZ[r], BoolVal(False)) if r is not None else (NAMEZ['zz'], BoolVal(True))))
for _nm in ('true', 'false'):
    CASES['dd.autoref.BDD.' + _nm] = ('dd.autoref.BDD.' + _nm, aref_case(
        'dd.autoref.BDD.' + _nm, lambda e, r: None, (lambda nm: lambda e: getattr(e['m'], nm))(_nm),
        lambda e: dict(self=OWNER), (lambda nm: lambda e: dict(call='autoref.' + nm))(_nm)))
CASES['dd.autoref.BDD._add_int'] = ('dd.autoref.BDD._add_int', aref_case(
    'dd.autoref.BDD._add_int', lambda e, r: e.update(i=r.choice([h.node for h in e['handles']] + [-h.node for h in e['handles']] + [1, -1, 9999])),
    lambda e: e['m']._add_int(e['i']), lambda e: dict(self=OWNER, i=zint(e['i'])), lambda e: dict(call='autoref._add_int', i=e['i'])))
