"""Symbolic executor over the real Python AST of /repo (DESIGN.md sections 3, 4.1).

Forward symbolic execution with path splitting. Calls use the callee's *contract*, never its body. Loops are
cut at sidecar invariants. Every `raise AssertionError`, KeyError on a subscript, IndexError, and TypeError on
None arithmetic becomes an obligation. Anything outside the supported subset raises `Unsupported`, which makes
the function *undecided* (never a violation).
"""
import ast

import z3

from z3 import (And, ArraySort, BoolVal, Const, If, Implies, IntVal, K, Not, Or, Store, is_false, is_true, simplify)

from vlib.vc.model import *  # noqa
from vlib.vc import model as M


class Unsupported(Exception):
    pass


class PyRaise(Exception):
    """the expression being evaluated raises a Python exception on this path"""

    def __init__(self, exc, line):
        self.exc, self.line = exc, line


class PathDead(Exception):
    """the current path ends here (an obligation saying it is unreachable has been recorded)"""


# ---------------------------------------------------------------- symbolic values
class IntV:
    def __init__(self, z, none=None):
        self.z = z
        self.none = none          # z3 Bool "is None" (None = certainly not None)


class BoolV:
    def __init__(self, z):
        self.z = z


class StrV:
    def __init__(self, v):
        self.v = v


class NameV:
    def __init__(self, z, none=None):
        self.z = z
        self.none = none


class TupV:
    def __init__(self, items):
        self.items = list(items)


class ListV:
    def __init__(self, arr, n, elem='int'):
        self.arr, self.n, self.elem = arr, n, elem


class DictV:
    """local dict as has/val arrays. vkind in int|bool|name; nonzero: stored ints are never 0/None."""

    def __init__(self, has, val, vkind='int', kkind='int', ne=None):
        self.has, self.val, self.vkind, self.kkind = has, val, vkind, kkind
        self._ne = ne if ne is not None else fresh('nonempty', B)
        self._len = fresh('len')

    def copy(self):
        d = DictV(self.has, self.val, self.vkind, self.kkind, self._ne)
        if hasattr(self, 'extra'):
            d.extra = self.extra
        if hasattr(self, 'origin'):
            d.origin = self.origin
        d._len = self._len
        return d


class SetV:
    def __init__(self, has, kkind='int', ne=None):
        self.has, self.kkind = has, kkind
        self._ne = ne if ne is not None else fresh('nonempty', B)
        self._len = fresh('len')

    def copy(self):
        c = SetV(self.has, self.kkind, self._ne)
        c._len = self._len
        if hasattr(self, 'origin'):
            c.origin = self.origin
        return c


class MgrV:
    """reference to a manager; key indexes path.mgrs"""

    def __init__(self, key, cls='dd.bdd.BDD'):
        self.key, self.cls = key, cls


class ObjV:
    """generic object with symbolic attributes (e.g. _ReorderingContext instance, autoref wrappers)"""

    def __init__(self, cls, attrs=None, ident=None):
        self.cls = cls
        self.attrs = attrs if attrs is not None else {}
        self.ident = ident if ident is not None else fresh('objid')


class FieldV:
    """alias of a manager's dict attribute (e.g. `levels = bdd.vars`)"""

    def __init__(self, mkey, attr):
        self.mkey, self.attr = mkey, attr


class PyV:
    """concrete Python value (module-level constant tables read from the source)"""

    def __init__(self, v):
        self.v = v


class PoisonV:
    """a local that a loop modifies without the loop contract listing it: its value is unknown, any read is out of the subset"""

    def __init__(self, name, line):
        self.name, self.line = name, line


class ExcClassV:
    def __init__(self, name):
        self.name = name


NONE = lambda: IntV(IntVal(0), BoolVal(True))  # noqa


def is_none(v):
    if isinstance(v, (IntV, NameV)):
        return v.none if v.none is not None else BoolVal(False)
    if isinstance(v, ObjV):
        return getattr(v, 'none', BoolVal(False))
    return BoolVal(False)


def truth(v):
    if isinstance(v, BoolV):
        return v.z
    if isinstance(v, IntV):
        t = v.z != 0
        return And(Not(v.none), t) if v.none is not None else t
    if isinstance(v, NameV):
        return Not(v.none) if v.none is not None else BoolVal(True)
    if isinstance(v, ListV):
        return v.n > 0
    if isinstance(v, (DictV, SetV)):
        return nonempty(v)
    if isinstance(v, StrV):
        return BoolVal(bool(v.v))
    if isinstance(v, ObjV):
        return Not(is_none(v))
    if isinstance(v, (MgrV, ExcClassV)):
        return BoolVal(True)
    raise Unsupported(f'truth of {type(v).__name__}')


def nonempty(v):
    """truth value of a dict/set: a ghost Boolean tied to membership by (has[k] -> nonempty); emptiness implies no
    member. The witness direction (nonempty -> some member) is given by `next(iter(d))`."""
    return v._ne


def pred_at_abs(ex, pred, var, y, p, saved):
    """value of a one-argument predicate closure at a term"""
    p.env[var] = IntV(y)
    try:
        return truth(ex.ev(pred.body[0].value, p))
    finally:
        p.env.clear()
        p.env.update(saved)


PAIR = z3.Function('PAIR', I, I, I)
APP = z3.Function('APP', I, I, I, I, I)
SINGLETON = z3.Function('SINGLETON', I, I)
APPEND = z3.Function('APPEND', I, I, I)


class Raise:
    """exceptional clause of a contract: may be raised only when `when`; if must, raised iff `when`."""

    def __init__(self, when, post=None, must=False):
        self.when, self.post, self.must = when, post, must


class Contract:
    def __init__(self, name, params, pre, post, modifies=(), ret='int', raises=None, loops=None, uses=(),
                 mutates=(), assumed=False, note='', mgr='self'):
        self.name, self.params, self.pre, self.post = name, params, pre, post
        self.modifies, self.ret = list(modifies), ret
        self.raises = raises or {}
        self.loops = loops or {}
        self.uses = None if uses is None else set(uses)
        self.mutates = list(mutates)      # names of container parameters the callee may extend
        self.assumed = assumed            # True: contract is used but its function is not verified here
        self.note = note
        self.mgr = mgr                    # name of the parameter that is the primary manager


class Ctx:
    """what contract clauses see"""

    def __init__(this, **kw):
        this.__dict__.update(kw)


class Path:
    def __init__(self, mgrs, env, pc):
        self.mgrs, self.env, self.pc = mgrs, env, pc
        self.status, self.value, self.exc, self.line = 'run', None, None, None
        self.exc_ctx = None
        self.trace = []

    def fork(self, cond=None):
        env = {k: (v.copy() if isinstance(v, (DictV, SetV)) else v) for k, v in self.env.items()}
        p = Path({k: s.copy() for k, s in self.mgrs.items()}, env, self.pc + ([cond] if cond is not None else []))
        p.trace = list(self.trace)
        if getattr(self, 'ref_empty', False):
            p.ref_empty, p.ref_written = True, list(getattr(self, 'ref_written', []))
        return p


def zint(v, ex=None, p=None, what=''):
    if isinstance(v, IntV):
        if v.none is not None and ex is not None:
            ex.oblige(p, f'typeerror:None-used-as-int{what}', Not(v.none))
        return v.z
    if isinstance(v, BoolV):
        return If(v.z, 1, 0)
    raise Unsupported(f'int of {type(v).__name__}{what}')


class Exec:
    def __init__(self, qual, fn, contract, registry, module, cls=None, consts=None):
        self.qual, self.fn, self.c, self.reg = qual, fn, contract, registry
        self.module, self.cls = module, cls
        self.obls = []          # (name, hyps, goal, meta)
        self.consts = consts or {}
        self.loop_ord = 0
        self.paths_out = []
        self.calls = []         # names of contracts used (for trusted-base reporting)
        self.entry_mgrs = {}
        self.side_paths = []
        self.assumed_builtins = set()
        self.finder = None
        self.inlined = set()

    # ------------------------------------------------------------------ obligations
    def oblige(self, p, name, goal, line=None):
        if getattr(self, 'qmode', None):
            bound, guards, _pat = self.qmode
            from z3 import ForAll
            goal = ForAll(bound, Implies(And(*guards), goal))
            name = 'comprehension:' + name
        g = simplify(goal) if not isinstance(goal, bool) else BoolVal(goal)
        if is_true(g):
            self.obls.append((f'{self.qual}#{name}', [], BoolVal(True), dict(line=line, trivial=True)))
            return
        self.obls.append((f'{self.qual}#{name}', list(p.pc), goal, dict(line=line, trace=list(p.trace))))

    # ------------------------------------------------------------------ helpers
    def assume(self, p, fact):
        """add a fact that holds on the continuing path (e.g. key present, else the KeyError obligation fails)"""
        q = getattr(self, 'qmode', None)
        if q:
            from z3 import ForAll
            bound, guards, pat = q
            p.pc.append(ForAll(bound, Implies(And(*guards), fact), patterns=[pat] if pat is not None else []))
        else:
            p.pc.append(fact)

    def code_of(self, v, p):
        """integer code of an opaque value stored in a list (grammar actions): tuples through an uninterpreted pairing"""
        if isinstance(v, TupV) and len(v.items) == 2:
            return PAIR(self.code_of(v.items[0], p), self.code_of(v.items[1], p))
        if isinstance(v, ListV):
            return v.code if hasattr(v, 'code') else zint(v, self, p)
        return zint(v, self, p)

    def refresh_ne(self, v, p):
        """new truth-value ghost of a set after a removal: a set with a member is non-empty (meaning of truthiness)"""
        from z3 import ForAll
        v._ne = fresh('nonempty', B)
        v._len = fresh('len')
        p.pc.append(self.ne_axiom(v))

    @staticmethod
    def ne_axiom(v):
        """meaning of the truth value of a container: one with a member is non-empty"""
        from z3 import ForAll
        x = Const(f'x!ne{next(M._cnt)}', v.has.sort().domain())
        return ForAll([x], Implies(v.has[x], v._ne), patterns=[v.has[x]])

    def name_it(self, p, z, hint='k'):
        """give a compound term a name (fresh constant + equation) so that array stores stay pattern-friendly"""
        if z.num_args() == 0:
            return z
        c = fresh(hint, z.sort())
        p.pc.append(c == z)
        return c

    def state(self, p, v):
        if isinstance(v, MgrV):
            return p.mgrs[v.key]
        raise Unsupported('manager expected')

    def mgr_of_expr(self, e, p):
        """MgrV if expression denotes a manager (self / parameter / self._bdd), else None"""
        if isinstance(e, ast.Name):
            v = p.env.get(e.id)
            return v if isinstance(v, MgrV) else None
        if isinstance(e, ast.Attribute):
            base = self.ev(e.value, p) if not isinstance(e.value, ast.Name) else p.env.get(e.value.id)
            if isinstance(base, ObjV) and e.attr in base.attrs and isinstance(base.attrs[e.attr], MgrV):
                return base.attrs[e.attr]
        return None

    def local_names(self):
        if not hasattr(self, '_locals'):
            self._locals = {t.id for n in ast.walk(self.fn) if isinstance(n, (ast.Assign, ast.AugAssign, ast.AnnAssign))
                            for tt in (n.targets if isinstance(n, ast.Assign) else [n.target]) for t in ast.walk(tt)
                            if isinstance(t, ast.Name)}
        return self._locals

    # ------------------------------------------------------------------ expressions
    def ev(self, e, p):
        m = getattr(self, 'ev_' + type(e).__name__, None)
        if m is None:
            raise Unsupported(f'{type(e).__name__}@{getattr(e, "lineno", "?")}')
        return m(e, p)

    def ev_Constant(self, e, p):
        if e.value is None:
            return NONE()
        if isinstance(e.value, bool):
            return BoolV(BoolVal(e.value))
        if isinstance(e.value, int):
            return IntV(IntVal(e.value))
        if isinstance(e.value, str):
            return StrV(e.value)
        raise Unsupported(f'constant {e.value!r}')

    def ev_JoinedStr(self, e, p):
        return StrV('<f-string>')

    def ev_Name(self, e, p):
        if e.id in p.env:
            v = p.env[e.id]
            if isinstance(v, PoisonV):
                raise Unsupported(f'local {e.id} is modified by the loop at line {v.line} whose contract does not list it@{e.lineno}')
            return v
        if e.id in self.consts:
            return self.consts[e.id]
        if e.id in ('ValueError', 'TypeError', 'KeyError', 'AssertionError', 'RuntimeError', '_NeedsReordering',
                    'NotImplementedError', 'Exception'):
            return ExcClassV(e.id)
        if e.id in self.local_names():
            # read of a local that is not bound on this path: UnboundLocalError, must be unreachable
            self.oblige(p, f'unreachable:UnboundLocalError({e.id})@{e.lineno}', BoolVal(False), e.lineno)
            raise PathDead()
        if getattr(self, "const_finder", None) and e.id.lstrip("_").isupper():
            v = self.const_finder(self.module, e.id)
            return StrV(v) if isinstance(v, str) else IntV(IntVal(v)) if isinstance(v, int) and not isinstance(v, bool) else PyV(v)
        raise Unsupported(f'name {e.id}@{e.lineno}')

    def ev_Dict(self, e, p):
        if not e.keys:
            d = self.empty_dict(e)      # `{}` is `dict()`
            d.fresh_empty = True
            return d
        raise Unsupported(f'Dict@{e.lineno}')

    def ev_List(self, e, p):
        if len(e.elts) == 1:
            return IntV(SINGLETON(self.code_of(self.ev(e.elts[0], p), p)))
        raise Unsupported(f'list literal@{e.lineno}')

    def ev_Tuple(self, e, p):
        return TupV([self.ev(x, p) for x in e.elts])

    def ev_UnaryOp(self, e, p):
        v = self.ev(e.operand, p)
        if isinstance(e.op, ast.USub):
            z = zint(v, self, p, f'@{e.lineno}')
            if z.num_args() == 0 and not z3.is_int_value(z):
                # name the negation and tell the solver that it points to the same node (E-matching hint)
                m = fresh('neg')
                p.pc.append(And(m == -z, absz(m) == absz(z)))
                return IntV(m)
            return IntV(-z)
        if isinstance(e.op, ast.Not):
            return BoolV(Not(truth(v)))
        if isinstance(e.op, ast.Invert) and isinstance(v, ObjV) and f'{v.cls}.__invert__' in self.reg:
            return self.call_contract(f'{v.cls}.__invert__', [v], {}, p, e)
        raise Unsupported(f'unary {type(e.op).__name__}')

    def ev_BinOp(self, e, p):
        a, b = self.ev(e.left, p), self.ev(e.right, p)
        if isinstance(a, ObjV) and isinstance(e.op, (ast.BitOr, ast.BitAnd)):
            m = '__or__' if isinstance(e.op, ast.BitOr) else '__and__'
            if f'{a.cls}.{m}' in self.reg:
                return self.call_contract(f'{a.cls}.{m}', [a, b], {}, p, e)
        if isinstance(e.op, ast.Add) and isinstance(b, StrV):
            if isinstance(a, (StrV, NameV)):
                return StrV('<str>')
            if isinstance(a, (IntV, BoolV)):
                raise PyRaise('TypeError', e.lineno)       # int + str
        za, zb = zint(a, self, p, f'@{e.lineno}'), zint(b, self, p, f'@{e.lineno}')
        if isinstance(e.op, ast.Add):
            return IntV(za + zb)
        if isinstance(e.op, ast.Sub):
            return IntV(za - zb)
        if isinstance(e.op, ast.Mult):
            return IntV(M.mul(simplify(za), simplify(zb)))
        if isinstance(e.op, ast.Pow) and z3.is_int_value(za) and za.as_long() == 2:
            # 2**e: an int only for e >= 0 (a float otherwise); modelled by the uninterpreted P2 with P2(0) = 1, P2(k+1) = 2 P2(k)
            self.oblige(p, f'power-of-two-exponent-nonnegative@{e.lineno}', zb >= 0, e.lineno)
            return IntV(M.P2(zb))
        raise Unsupported(f'binop {type(e.op).__name__}@{e.lineno}')

    def ev_BoolOp(self, e, p):
        # operands without calls are evaluated eagerly (no side effects); Python value semantics of and/or
        # are only needed as truth values at our use sites
        vs, guards = [], []
        for x in e.values:
            # short circuit: operand k is evaluated only if the earlier ones were true (and) / false (or); facts learnt
            # while evaluating it (callee postconditions) hold under that guard only
            n0 = len(p.pc)
            p.pc.extend(guards)
            try:
                t = truth(self.ev(x, p))
            finally:
                new = p.pc[n0 + len(guards):]
                del p.pc[n0:]
            p.pc.extend([Implies(And(*guards), f_) if guards else f_ for f_ in new])
            vs.append(t)
            guards.append(t if isinstance(e.op, ast.And) else Not(t))
        return BoolV(And(*vs) if isinstance(e.op, ast.And) else Or(*vs))

    def ev_IfExp(self, e, p):
        c = truth(self.ev(e.test, p))

        def under(guard, x):
            # each branch is evaluated only when selected: obligations and learnt facts hold under its guard
            n0 = len(p.pc)
            p.pc.append(guard)
            try:
                v = self.ev(x, p)
            finally:
                new = p.pc[n0 + 1:]
                del p.pc[n0:]
            p.pc.extend(Implies(guard, f_) for f_ in new)
            return v
        a, b = under(c, e.body), under(Not(c), e.orelse)

        def merge(a, b):
            if isinstance(a, BoolV) and isinstance(b, BoolV):
                return BoolV(If(c, a.z, b.z))
            if isinstance(a, IntV) and isinstance(b, IntV):
                if a.none is None and b.none is None:
                    return IntV(If(c, a.z, b.z))
                return IntV(If(c, a.z, b.z), If(c, is_none(a), is_none(b)))
            if isinstance(a, NameV) and isinstance(b, NameV) and a.none is None and b.none is None:
                return NameV(If(c, a.z, b.z))
            if isinstance(a, TupV) and isinstance(b, TupV) and len(a.items) == len(b.items):
                return TupV([merge(x, y) for x, y in zip(a.items, b.items)])
            raise Unsupported('ifexp')
        return merge(a, b)

    def ev_Compare(self, e, p):
        if len(e.ops) == 2 and all(isinstance(o, (ast.Lt, ast.LtE)) for o in e.ops):
            a, b, c = (zint(self.ev(x, p), self, p) for x in [e.left] + e.comparators)
            f = lambda o, x, y: x < y if isinstance(o, ast.Lt) else x <= y  # noqa
            return BoolV(And(f(e.ops[0], a, b), f(e.ops[1], b, c)))
        if len(e.ops) != 1:
            raise Unsupported('chained compare')
        op, l, r = e.ops[0], e.left, e.comparators[0]
        if isinstance(op, (ast.In, ast.NotIn)):
            res = self.contains(self.ev(l, p), r, p, e.lineno)
            return BoolV(res if isinstance(op, ast.In) else Not(res))
        if (isinstance(l, ast.BinOp) and isinstance(l.op, ast.Mult) and isinstance(r, ast.Constant) and r.value == 0
                and isinstance(op, (ast.LtE, ast.Lt, ast.Gt, ast.GtE))):
            # sign test of a product, kept linear: x*y <= 0  <=>  x == 0 or y == 0 or signs differ
            x = zint(self.ev(l.left, p), self, p)
            y = zint(self.ev(l.right, p), self, p)
            zero = Or(x == 0, y == 0)
            diff = (x > 0) != (y > 0)
            return BoolV({ast.LtE: Or(zero, diff), ast.Lt: And(Not(zero), diff), ast.Gt: And(Not(zero), Not(diff)),
                          ast.GtE: Or(zero, Not(diff))}[type(op)])
        a, b = self.ev(l, p), self.ev(r, p)
        if isinstance(op, ast.Eq) and isinstance(a, IntV) and isinstance(b, IntV) and (hasattr(a, 'card_of') or hasattr(b, 'card_of')):
            # `len(s) == k`: ASSUMED fact about finite sets (pigeonhole), stated only for the case that the test succeeds:
            # a set of k naturals that are all below k is the whole initial segment 0..k-1
            from z3 import ForAll
            v = getattr(a, 'card_of', None) or getattr(b, 'card_of')
            l1, l2 = Int(f'l!card{next(M._cnt)}'), Int(f'l!card{next(M._cnt)}')
            self.assume(p, Implies(And(a.z == b.z, ForAll([l1], Implies(v.has[l1], And(0 <= l1, l1 < v._len)), patterns=[v.has[l1]])),
                                   ForAll([l2], Implies(And(0 <= l2, l2 < v._len), v.has[l2]), patterns=[v.has[l2]])))
            self.assumed_builtins.add('cardinality (pigeonhole): a set of naturals all below its len() contains every natural below its len()')
        if isinstance(a, ObjV) and isinstance(op, (ast.Eq, ast.NotEq)) and not isinstance(b, IntV):
            m = '__eq__' if isinstance(op, ast.Eq) else '__ne__'
            if f'{a.cls}.{m}' in self.reg:
                return self.call_contract(f'{a.cls}.{m}', [a, b], {}, p, e)
        if isinstance(a, ObjV) and isinstance(b, ObjV) and isinstance(op, (ast.LtE, ast.Lt)):
            m = '__le__' if isinstance(op, ast.LtE) else '__lt__'
            if f'{a.cls}.{m}' in self.reg:
                return self.call_contract(f'{a.cls}.{m}', [a, b], {}, p, e)
        if isinstance(op, (ast.Is, ast.Eq)):
            return BoolV(self.eq(a, b, isinstance(op, ast.Is)))
        if isinstance(op, (ast.IsNot, ast.NotEq)):
            return BoolV(Not(self.eq(a, b, isinstance(op, ast.IsNot))))
        za, zb = zint(a, self, p, f'@{e.lineno}'), zint(b, self, p, f'@{e.lineno}')
        return BoolV({ast.Lt: za < zb, ast.LtE: za <= zb, ast.Gt: za > zb, ast.GtE: za >= zb}[type(op)])

    def eq(self, a, b, identity=False):
        if isinstance(a, TupV) and isinstance(b, TupV):
            if len(a.items) != len(b.items):
                return BoolVal(False)
            return And(*[self.eq(x, y) for x, y in zip(a.items, b.items)])
        if isinstance(a, StrV) and isinstance(b, StrV):
            return BoolVal(a.v == b.v)
        if isinstance(a, MgrV) and isinstance(b, MgrV):
            return BoolVal(a.key == b.key)
        if isinstance(a, ObjV) and isinstance(b, ObjV):
            return BoolVal(True) if a is b else a.ident == b.ident
        if isinstance(a, ExcClassV) and isinstance(b, ExcClassV):
            return BoolVal(a.name == b.name)
        if isinstance(a, ExcClassV) or isinstance(b, ExcClassV):
            return BoolVal(False)
        if isinstance(a, NameV) and isinstance(b, NameV):
            return And(is_none(a) == is_none(b), Or(is_none(a), a.z == b.z))
        if isinstance(a, (IntV, BoolV)) and isinstance(b, (IntV, BoolV)):
            na, nb = is_none(a), is_none(b)
            za = a.z if isinstance(a, IntV) else If(a.z, 1, 0)
            zb = b.z if isinstance(b, IntV) else If(b.z, 1, 0)
            return And(na == nb, Or(na, za == zb))
        if isinstance(a, (NameV, IntV)) and isinstance(b, (NameV, IntV)):
            # comparison with None across kinds
            return And(is_none(a), is_none(b))
        if isinstance(a, ObjV) and isinstance(b, IntV):
            return And(is_none(a), is_none(b))
        if isinstance(b, ObjV) and isinstance(a, IntV):
            return And(is_none(a), is_none(b))
        objs = (DictV, SetV, ListV, MgrV, FieldV, TupV, StrV)
        if (isinstance(a, objs) and isinstance(b, IntV)) or (isinstance(b, objs) and isinstance(a, IntV)):
            # an object is never None / never equal to an int
            return BoolVal(False)
        raise Unsupported(f'eq {type(a).__name__} {type(b).__name__}')

    def contains(self, key, container, p, line):
        # tuple / set literal of constants
        if isinstance(container, (ast.Tuple, ast.Set, ast.List)):
            items = [self.ev(x, p) for x in container.elts]
            return Or(*[self.eq(key, it) for it in items]) if items else BoolVal(False)
        if isinstance(container, (ast.Name, ast.Subscript)):
            try:
                cv = self.ev(container, p)
            except Unsupported:
                cv = None
            if isinstance(cv, PyV):
                if not isinstance(key, StrV):
                    raise Unsupported(f'symbolic key in constant table@{line}')
                return BoolVal(key.v in cv.v)
            if isinstance(cv, MgrV) and cv.cls == 'dd.bdd.BDD':
                # `u in bdd` is BDD.__contains__ (proved: abs(u) is a stored node)
                self.calls.append('dd.bdd.BDD.__contains__')
                return p.mgrs[cv.key].dom[absz(zint(key, self, p))]
        c = self.ev_container(container, p)
        return self.has(c, key, p, line)

    def has(self, c, key, p, line):
        kind, obj = c
        if kind == 'field':
            S, fld = obj
            if fld == '_succ':
                return S.dom[zint(key, self, p)]
            if fld == '_ref':
                return S.dom[zint(key, self, p)]
            if fld == 'vars':
                if isinstance(key, IntV) and key.none is None:
                    return BoolVal(False)       # `vars` is keyed by names (strings): an integer is never a key
                if not isinstance(key, NameV):
                    raise Unsupported(f'non-name key in vars@{line}')
                return S.vin[key.z]
            if fld == '_level_to_var':
                return S.lin[zint(key, self, p)]
            if fld == '_pred':
                return S.ph[self.as_fork(key, p)]
            if fld == '_ite_table':
                return S.ch[self.as_fork(key, p)]
        if kind == 'mgr':
            # `u in self`  ->  abs(u) in _succ
            return obj.dom[absz(zint(key, self, p))]
        if kind == 'object':
            r = self.call_contract(f'{obj.cls}.__contains__', [obj, key], {}, p, ast.Constant(value=None, lineno=line))
            return truth(r)
        if kind == 'local':
            if isinstance(obj, (DictV, SetV)):
                if obj.kkind == 'name':
                    return obj.has[key.z]
                if obj.kkind == 'fork':
                    return obj.has[self.as_fork(key, p)]
                return obj.has[zint(key, self, p)]
        raise Unsupported(f'`in` on {kind}@{line}')

    def ev_container(self, e, p):
        """classify a container expression: ('field', (State, attr)) | ('mgr', State) | ('local', V)"""
        if isinstance(e, ast.Attribute):
            mv = self.mgr_of_expr(e.value, p)
            if mv is not None and e.attr in ('_succ', '_pred', '_ref', '_ite_table', 'vars', '_level_to_var'):
                return ('field', (p.mgrs[mv.key], e.attr))
        mv = self.mgr_of_expr(e, p)
        if mv is not None:
            return ('mgr', p.mgrs[mv.key])
        v = self.ev(e, p)
        if isinstance(v, (DictV, SetV, ListV)):
            return ('local', v)
        if isinstance(v, ObjV) and f'{v.cls}.__contains__' in self.reg:
            return ('object', v)
        raise Unsupported(f'container {ast.unparse(e)}@{e.lineno}')

    def as_fork(self, v, p):
        if isinstance(v, TupV) and len(v.items) == 2:
            v = TupV(list(v.items) + [IntV(IntVal(0))])
        if not (isinstance(v, TupV) and len(v.items) == 3):
            raise Unsupported('fork key')
        zs = []
        for x in v.items:
            if isinstance(x, IntV):
                zs.append(If(x.none, 0, x.z) if x.none is not None else x.z)
            else:
                zs.append(zint(x, self, p))
        return Fork.mk(*zs)

    def ev_Subscript(self, e, p):
        base = e.value
        if isinstance(base, ast.Attribute):
            mv = self.mgr_of_expr(base.value, p)
            if mv is not None:
                S = p.mgrs[mv.key]
                key = self.ev(e.slice, p)
                return self.read_field(S, base.attr, key, p, e.lineno)
        v = self.ev(base, p)
        if isinstance(v, FieldV):
            return self.read_field(p.mgrs[v.mkey], v.attr, self.ev(e.slice, p), p, e.lineno)
        if isinstance(v, DictV):
            key = self.ev(e.slice, p)
            if isinstance(key, StrV) and v.kkind == 'int' and key.v in getattr(v, 'extra', {}):
                return IntV(v.extra[key.v])       # a dict keyed by levels that also carries a few string keys (map_level['all'])
            kz = key.z if v.kkind == 'name' else (self.as_fork(key, p) if v.kkind == 'fork' else zint(key, self, p))
            self.oblige(p, f'keyerror:{ast.unparse(base)}@{e.lineno}', v.has[kz], e.lineno)
            self.assume(p, v.has[kz])     # otherwise KeyError (obligation above); also an instantiation trigger
            return self.dict_val(v, kz)
        if isinstance(v, ListV):
            kz = zint(self.ev(e.slice, p), self, p)
            self.oblige(p, f'indexerror:{ast.unparse(base)}@{e.lineno}', And(0 <= kz, kz < v.n), e.lineno)
            return NameV(v.arr[kz]) if v.elem == 'name' else IntV(v.arr[kz])
        if isinstance(v, TupV) and isinstance(e.slice, ast.Constant):
            return v.items[e.slice.value]
        if isinstance(v, PyV):
            key = self.ev(e.slice, p)
            if not isinstance(key, StrV):
                raise Unsupported(f'symbolic key in constant table@{e.lineno}')
            r = v.v[key.v]
            return StrV(r) if isinstance(r, str) else PyV(r)
        raise Unsupported(f'subscript {ast.unparse(e)}@{e.lineno}')

    def dict_val(self, v, kz):
        if v.vkind == 'bool':
            return BoolV(v.val[kz])
        if v.vkind == 'name':
            return NameV(v.val[kz])
        return IntV(v.val[kz])

    def read_field(self, S, attr, key, p, line):
        if attr == '_succ':
            kz = zint(key, self, p)
            self.oblige(p, f'keyerror:_succ@{line}', S.dom[kz], line)
            self.assume(p, S.dom[kz])
            p.trace.append(('read', kz))
            return TupV([IntV(S.lvl[kz]), IntV(S.lo[kz], S.lo[kz] == 0), IntV(S.hi[kz], S.hi[kz] == 0)])
        if attr == '_ref':
            kz = zint(key, self, p)
            self.oblige(p, f'keyerror:_ref@{line}', S.dom[kz], line)
            return IntV(S.ref[kz])
        if attr == 'vars':
            if not isinstance(key, NameV):
                raise Unsupported(f'vars[non-name]@{line}')
            if 'KeyError' in self.c.raises and not getattr(self, 'qmode', None):
                # the contract of the function under verification declares KeyError: a missing name is an exceptional exit
                q = p.fork(Not(S.vin[key.z]))
                q.status, q.exc, q.line, q.exc_from = 'raise', 'KeyError', line, None
                q.when = Not(S.vin[key.z])
                self.side_paths.append(q)
                p.pc.append(S.vin[key.z])
                return IntV(S.v2l[key.z])
            self.oblige(p, f'keyerror:vars@{line}', S.vin[key.z], line)
            self.assume(p, S.vin[key.z])
            return IntV(S.v2l[key.z])
        if attr == '_level_to_var':
            kz = zint(key, self, p)
            self.oblige(p, f'keyerror:_level_to_var@{line}', S.lin[kz], line)
            return NameV(S.l2v[kz])
        if attr == '_pred':
            kf = self.as_fork(key, p)
            self.oblige(p, f'keyerror:_pred@{line}', S.ph[kf], line)
            return IntV(S.pv[kf])
        raise Unsupported(f'read {attr}@{line}')

    def ev_Attribute(self, e, p):
        if isinstance(e.value, ast.Name) and e.value.id == 'sys' and e.attr == 'maxsize' and 'sys' not in p.env:
            return IntV(IntVal(2 ** 63 - 1))
        if isinstance(e.value, ast.Name) and e.value.id == 'logging' and e.attr in ('DEBUG', 'INFO', 'WARNING', 'ERROR') and 'logging' not in p.env:
            return IntV(IntVal({'DEBUG': 10, 'INFO': 20, 'WARNING': 30, 'ERROR': 40}[e.attr]))
        mv = self.mgr_of_expr(e.value, p)
        if mv is not None:
            S = p.mgrs[mv.key]
            a = e.attr
            if a == '_min_free':
                return IntV(S.minfree)
            if a == 'max_nodes':
                return IntV(S.maxnodes)
            if a == '_last_len':
                return IntV(S.lastlen, S.lastlen < 0)
            if a == '_reordering_context':
                return BoolV(S.ctx)
            if a in ('vars', '_level_to_var', '_succ', '_ref', '_pred'):
                return FieldV(mv.key, a)
            if a == 'roots':
                # plain attribute holding references (set by loaders); modelled as an arbitrary finite set of integers
                key = '%roots:' + mv.key
                if key not in p.env:
                    p.env[key] = SetV(fresh('roots_has', ArraySort(I, B)))
                return p.env[key]
            if a == 'true':
                return IntV(IntVal(1))
            if a == 'false':
                return IntV(IntVal(-1))
            q = f'{mv.cls}.{a}'
            if q in self.reg and [n for n, _ in self.reg[q].params] == ['self']:
                return self.call_contract(q, [mv], {}, p, e)        # a property of the manager under contract (e.g. var_levels)
            raise Unsupported(f'attr {a}@{e.lineno}')
        v = self.ev(e.value, p)
        if isinstance(v, ObjV) and e.attr in v.attrs:
            if hasattr(v, 'none'):
                self.oblige(p, f'attributeerror:None.{e.attr}@{e.lineno}', Not(v.none), e.lineno)
            return v.attrs[e.attr]
        if isinstance(v, ObjV) and f'{v.cls}.{e.attr}' in self.reg:
            # property of a modelled object
            return self.call_contract(f'{v.cls}.{e.attr}', [v], {}, p, e)
        raise Unsupported(f'attribute {ast.unparse(e)}@{e.lineno}')

    # ------------------------------------------------------------------ comprehensions (recognised idiom)
    def ev_DictComp(self, e, p):
        return self.comprehension(e, p, e.key, e.value)

    def ev_SetComp(self, e, p):
        return self.comprehension(e, p, e.elt, None)

    def comprehension(self, e, p, key_expr, val_expr):
        """`{LEVEL_OF(x): V(x) for x in NAMES if C(x)}` where LEVEL_OF(x) is the level of name x in some manager.
        The result is defined through the inverse of that bijection (W8): entry at level l exists iff l carries a
        name that is in NAMES and satisfies C; its value is V of that name. Obligations met while evaluating the
        element expressions are proved for *every* element."""
        from z3 import ForAll, Int
        if len(e.generators) != 1 or e.generators[0].is_async or len(e.generators[0].ifs) > 1:
            raise Unsupported(f'comprehension shape@{e.lineno}')
        gen = e.generators[0]
        it = gen.iter
        if (isinstance(it, ast.Call) and isinstance(it.func, ast.Attribute) and it.func.attr == 'items' and not it.args and not gen.ifs
                and isinstance(it.func.value, ast.Name) and isinstance(p.env.get(it.func.value.id), ObjV)
                and p.env[it.func.value.id].cls == 'opaque' and isinstance(gen.target, ast.Tuple) and len(gen.target.elts) == 2
                and all(isinstance(x, ast.Name) for x in gen.target.elts) and isinstance(key_expr, ast.Name)
                and key_expr.id == gen.target.elts[0].id and isinstance(val_expr, ast.Call) and self.opaque_pure(val_expr.func)
                and len(val_expr.args) == 1 and isinstance(val_expr.args[0], ast.Name) and val_expr.args[0].id == gen.target.elts[1].id):
            # `{k: F(v) for k, v in kwargs.items()}` over keyword arguments the contract does not look into: the same keys, opaque values
            self.calls.append(f'{self.module}.{val_expr.func.id}')
            return ObjV('opaque')
        if (isinstance(it, ast.Call) and isinstance(it.func, ast.Attribute) and it.func.attr == 'values' and not it.args
                and isinstance(it.func.value, ast.Attribute) and it.func.value.attr == '_succ' and val_expr is None and not gen.ifs
                and isinstance(gen.target, ast.Tuple) and len(gen.target.elts) == 3 and isinstance(key_expr, ast.Name)
                and isinstance(gen.target.elts[0], ast.Name) and gen.target.elts[0].id == key_expr.id):
            # `{i for i, _, _ in self._succ.values()}`: the set of levels that carry a stored node (the terminal's included)
            mv = self.mgr_of_expr(it.func.value.value, p)
            if mv is not None:
                S = p.mgrs[mv.key]
                from z3 import Function as F_
                has = fresh('lvls_has', ArraySort(I, B))
                wit = F_(f'lvl_wit!{next(M._cnt)}', I, I)
                u_, l2_ = Int(f'u!lv{next(M._cnt)}'), Int(f'l!lv{next(M._cnt)}')
                p.pc.append(ForAll([u_], Implies(S.dom[u_], has[S.lvl[u_]]), patterns=[S.dom[u_]]))
                p.pc.append(ForAll([l2_], Implies(has[l2_], And(S.dom[wit(l2_)], S.lvl[wit(l2_)] == l2_)), patterns=[has[l2_]]))
                self.assumed_builtins.add('set comprehension over the values of the node table = the set of levels of stored nodes')
                r = SetV(has)
                self.refresh_ne(r, p)
                return r
        # iteration domain
        valvar = None
        if isinstance(gen.target, ast.Name):
            var = gen.target.id
        elif isinstance(gen.target, ast.Tuple) and len(gen.target.elts) == 2 and all(isinstance(x, ast.Name) for x in gen.target.elts):
            var, valvar = gen.target.elts[0].id, gen.target.elts[1].id
        else:
            raise Unsupported(f'comprehension target@{e.lineno}')
        if isinstance(it, ast.Name) and isinstance(p.env.get(it.id), SetV) and p.env[it.id].kkind == 'int' and val_expr is None \
                and valvar is None and not gen.ifs:
            return self.names_of_levels(e, p, key_expr, var, p.env[it.id])
        if (isinstance(it, ast.Call) and isinstance(it.func, ast.Attribute) and it.func.attr == 'items' and not it.args
                and isinstance(it.func.value, ast.Attribute) and it.func.value.attr == '_ite_table' and valvar is not None
                and isinstance(key_expr, ast.Name) and key_expr.id == var and isinstance(val_expr, ast.Name) and val_expr.id == valvar):
            # `{k: v for k, v in self._ite_table.items() if C(k, v)}`: the computed table restricted to the entries that satisfy C
            mv = self.mgr_of_expr(it.func.value.value, p)
            if mv is not None:
                S = p.mgrs[mv.key]
                t = Const(f't!flt{next(M._cnt)}', Fork)
                saved = dict(p.env)
                sq = getattr(self, 'qmode', None)
                p.env[var] = TupV([IntV(Fork.l(t)), IntV(Fork.lo(t)), IntV(Fork.hi(t))])
                p.env[valvar] = IntV(S.cv[t])
                self.qmode = ([t], [S.ch[t]], S.ch[t])
                try:
                    cnd = truth(self.ev(gen.ifs[0], p)) if gen.ifs else BoolVal(True)
                finally:
                    self.qmode = sq
                    p.env.clear(); p.env.update(saved)
                has = fresh('flt_has', ArraySort(Fork, B))
                p.pc.append(ForAll([t], has[t] == And(S.ch[t], cnd), patterns=[has[t]]))
                self.assumed_builtins.add('dict comprehension filtering the computed table = the table restricted to the entries that satisfy the condition')
                return DictV(has, S.cv, 'int', 'fork')
        if isinstance(it, ast.Call) and isinstance(it.func, ast.Attribute) and it.func.attr == 'items' and not it.args:
            src = self.ev(it.func.value, p)
            if not (isinstance(src, DictV) and src.kkind == 'name') or valvar is None:
                raise Unsupported(f'comprehension over items of non-name dict@{e.lineno}')
            domp = lambda nm: src.has[nm]  # noqa
            valof = lambda nm: self.dict_val(src, nm)  # noqa
        elif isinstance(it, ast.Name) and isinstance(p.env.get(it.id), (SetV, DictV)) and p.env[it.id].kkind == 'name' and valvar is None:
            src = p.env[it.id]
            domp = lambda nm: src.has[nm]  # noqa
            valof = None
        elif isinstance(it, ast.Attribute) and it.attr == 'vars' and self.mgr_of_expr(it.value, p) is not None and valvar is None:
            Sd = p.mgrs[self.mgr_of_expr(it.value, p).key]
            domp = lambda nm: Sd.vin[nm]  # noqa
            valof = None
        else:
            raise Unsupported(f'comprehension iterable {ast.unparse(it)}@{e.lineno}')
        # which manager's levels are the keys? evaluate the key with a free name
        probe = fresh('cn', M.Name)
        saved = dict(p.env)
        sq = getattr(self, 'qmode', None)
        nobl = len(self.obls)
        nside = len(self.side_paths)
        p.env[var] = NameV(probe)
        if valvar:
            p.env[valvar] = valof(probe)
        self.qmode = ([probe], [BoolVal(False)], None)
        npc = len(p.pc)
        try:
            kt = self.ev(key_expr, p)
        finally:
            self.qmode = sq
        newfacts = p.pc[npc:]
        del p.pc[npc:]
        del self.obls[nobl:]
        del self.side_paths[nside:]
        Sk = None

        def level_lookup(t):
            if z3.is_select(t) and t.arg(1).eq(probe):
                for S in p.mgrs.values():
                    if t.arg(0).eq(S.v2l):
                        return S
            return None
        if isinstance(kt, IntV):
            Sk = level_lookup(kt.z)
            if Sk is None:
                # result of a contracted call whose postcondition says `r == v2l[name]`
                todo = list(newfacts)
                while todo and Sk is None:
                    f_ = todo.pop()
                    if z3.is_and(f_):
                        todo += f_.children()
                    elif z3.is_eq(f_) and f_.arg(0).eq(kt.z):
                        Sk = level_lookup(f_.arg(1))
        if Sk is None:
            p.env.clear(); p.env.update(saved)
            raise Unsupported(f'comprehension key is not a level lookup@{e.lineno}')
        L = Int(f'L!{next(M._cnt)}')
        nm = Sk.l2v[L]
        # the element obligations below range over the levels of Sk, i.e. over *declared* names only: that every name of
        # the iteration domain is declared in Sk (otherwise the key lookup raises KeyError) is an obligation of its own
        nq = Const(f'n!dom{next(M._cnt)}', M.Name)
        if not (simplify(domp(nq)).eq(simplify(Sk.vin[nq]))):
            wit = fresh('undeclared_elem', M.Name)
            pu = p.fork(And(domp(wit), Not(Sk.vin[wit])))
            pu.env[var] = NameV(wit)
            if valvar:
                pu.env[valvar] = valof(wit)
            sq0 = getattr(self, 'qmode', None)
            self.qmode = None
            try:
                self.ev(key_expr, pu)     # its exceptional exits (ValueError / KeyError of the lookup) become side paths
            finally:
                self.qmode = sq0
            # the lookup of an undeclared name cannot succeed
            self.oblige(pu, f'comprehension:lookup-of-undeclared-name-raises@{e.lineno}', BoolVal(False), e.lineno)
            p.pc.append(ForAll([nq], Implies(domp(nq), Sk.vin[nq]), patterns=[domp(nq)]))
        p.env[var] = NameV(nm)
        if valvar:
            p.env[valvar] = valof(nm)
        guards = [Sk.lin[L], domp(nm)]
        has = fresh('cmp_has', ArraySort(I, B))
        self.qmode = ([L], guards, has[L])
        try:
            nside = len(self.side_paths)
            if gen.ifs:
                cnd = truth(self.ev(gen.ifs[0], p))
                guards.append(cnd)
            self.ev(key_expr, p)    # its obligations (declared name etc.) for every element
            vterm = self.ev(val_expr, p) if val_expr is not None else None
            # an element expression that could raise makes the comprehension raise: must be impossible
            for q in self.side_paths[nside:]:
                self.oblige(p, f'element-cannot-raise:{q.exc}@{e.lineno}', Not(q.when), e.lineno)
            del self.side_paths[nside:]
        finally:
            self.qmode = sq
            p.env.clear(); p.env.update(saved)
        member = And(*guards)
        p.pc.append(ForAll([L], has[L] == member, patterns=[has[L]]))
        if val_expr is None:
            self.assumed_builtins.add('set/dict comprehension over declared names = image under the name<->level bijection (W8)')
            return SetV(has)
        if isinstance(vterm, BoolV):
            val = fresh('cmp_val', ArraySort(I, B)); vk = 'bool'; vz = vterm.z
        elif isinstance(vterm, IntV):
            val = fresh('cmp_val', ArraySort(I, I)); vk = 'int'; vz = vterm.z
        else:
            raise Unsupported(f'comprehension value kind@{e.lineno}')
        p.pc.append(ForAll([L], Implies(has[L], val[L] == vz), patterns=[has[L], val[L]]))
        self.assumed_builtins.add('set/dict comprehension over declared names = image under the name<->level bijection (W8)')
        return DictV(has, val, vk, 'int')

    def names_of_levels(self, e, p, elt, var, src):
        """`{NAME_AT(i) for i in levels}`: the set of names of a set of levels (image under the W8 bijection)"""
        from z3 import ForAll, Int
        L = Int(f'L!{next(M._cnt)}')
        saved = dict(p.env)
        sq = getattr(self, 'qmode', None)
        has = fresh('cmp_nhas', ArraySort(M.Name, B))
        hasL = fresh('cmp_guard', ArraySort(I, B))
        p.env[var] = IntV(L)
        self.qmode = ([L], [src.has[L]], src.has[L])
        nside = len(self.side_paths)
        try:
            nt = self.ev(elt, p)
            for q in self.side_paths[nside:]:
                self.oblige(p, f'element-cannot-raise:{q.exc}@{e.lineno}', Not(q.when), e.lineno)
            del self.side_paths[nside:]
        finally:
            self.qmode = sq
            p.env.clear(); p.env.update(saved)
        Sk = None
        if isinstance(nt, NameV) and z3.is_select(nt.z) and nt.z.arg(1).eq(L):
            for S in p.mgrs.values():
                if nt.z.arg(0).eq(S.l2v):
                    Sk = S
        if Sk is None:
            raise Unsupported(f'comprehension element is not a name lookup@{e.lineno}')
        n = Const(f'n!{next(M._cnt)}', M.Name)
        p.pc.append(ForAll([n], has[n] == And(Sk.vin[n], src.has[Sk.v2l[n]]), patterns=[has[n]]))
        self.assumed_builtins.add('set/dict comprehension over declared names = image under the name<->level bijection (W8)')
        r = SetV(has, 'name')
        return r

    # ------------------------------------------------------------------ calls
    def ev_Call(self, e, p):
        f = e.func
        if (e.keywords and not all(k.arg for k in e.keywords)) or any(isinstance(a, ast.Starred) for a in e.args):
            # f(x, *args, **kwargs): only for callable *values* whose contract treats the rest as opaque
            if not (isinstance(f, ast.Name) and isinstance(p.env.get(f.id), ObjV) and p.env[f.id].cls == 'callable'):
                raise Unsupported(f'*args/**kwargs@{e.lineno}')
        # builtins
        if isinstance(f, ast.Name):
            b = getattr(self, 'builtin_' + f.id, None)
            if b is not None and f.id not in p.env:
                return b(e, p)
        # dict/list methods on fields and locals
        if isinstance(f, ast.Attribute) and f.attr in ('get', 'pop', 'add', 'setdefault', 'remove', 'append', 'items', 'values', 'issubset'):
            r = self.container_method(e, p)
            if r is not NotImplemented:
                return r
        # logging / warnings: no-ops (DESIGN section 3)
        if isinstance(f, ast.Attribute) and isinstance(f.value, ast.Name) and f.value.id in ('logger', 'log', 'warnings', 'logging'):
            if f.attr == 'getEffectiveLevel':
                return IntV(fresh('loglevel'))      # whatever the application configured
            return NONE()
        qual, recv = self.resolve(f, p, e.lineno)
        args = [self.ev(a, p) for a in e.args if not isinstance(a, ast.Starred)]
        kwargs = {k.arg: self.ev(k.value, p) for k in e.keywords if k.arg is not None}
        if recv is not None:
            args = [recv] + args
        r = self.call_contract(qual, args, kwargs, p, e)
        if qual.endswith('.__init__') and isinstance(recv, ObjV):
            return recv
        return r

    def resolve(self, f, p, line):
        """qualified contract name and receiver"""
        if isinstance(f, ast.Name):
            if f.id in p.env and isinstance(p.env[f.id], ObjV) and p.env[f.id].cls == 'callable':
                return p.env[f.id].attrs['qual'], None
            q = f'{self.module}.{f.id}'
            if q in self.reg:
                return q, None
            if q + '.__init__' in self.reg:
                return q + '.__init__', ObjV(q, {})       # class instantiation
            raise Unsupported(f'call to {f.id}@{line} (no contract)')
        if isinstance(f, ast.Attribute):
            mv = self.mgr_of_expr(f.value, p)
            if mv is not None:
                q = f'{mv.cls}.{f.attr}'
                if self.module == 'dd.autoref' and f.attr in ('incref', 'decref') and q + '!external' in self.reg:
                    return q + '!external', mv      # references taken / released by handles are *external* references
                if q in self.reg or any(k.startswith(q + ':') for k in self.reg):
                    return q, mv
                raise Unsupported(f'call to {q}@{line} (no contract)')
            if isinstance(f.value, ast.Name) and f.value.id in ('_utils', '_parser', '_copy', '_bdd'):
                mod = {'_utils': 'dd._utils', '_parser': 'dd._parser', '_copy': 'dd._copy', '_bdd': 'dd.bdd'}[f.value.id]
                q = f'{mod}.{f.attr}'
                if q in self.reg:
                    return q, None
                raise Unsupported(f'call to {q}@{line} (no contract)')
            v = self.ev(f.value, p)
            if isinstance(v, ObjV):
                q = f'{v.cls}.{f.attr}'
                if q in self.reg:
                    return q, v
                raise Unsupported(f'call to {q}@{line} (no contract)')
        raise Unsupported(f'call {ast.unparse(f)}@{line}')

    def builtin_abs(self, e, p):
        return IntV(absz(zint(self.ev(e.args[0], p), self, p, f'@{e.lineno}')))

    def builtin_bool(self, e, p):
        return BoolV(truth(self.ev(e.args[0], p)))

    def builtin_int(self, e, p):
        return IntV(zint(self.ev(e.args[0], p), self, p))

    def builtin_min(self, e, p):
        if e.keywords:
            # k = min(d, key=d.get): some key of the non-empty dict d whose value is least (which one among equals is not fixed)
            kw = e.keywords[0]
            d = self.ev(e.args[0], p) if len(e.args) == 1 else None
            if not (len(e.keywords) == 1 and kw.arg == 'key' and isinstance(d, DictV) and d.kkind == 'int' and d.vkind == 'int'
                    and isinstance(kw.value, ast.Attribute) and kw.value.attr == 'get'
                    and ast.dump(kw.value.value) == ast.dump(e.args[0])):
                raise Unsupported(f'min with key@{e.lineno}')
            self.oblige(p, f'min-of-nonempty@{e.lineno}', nonempty(d), e.lineno)
            k, j = fresh('argmin'), z3.Int('j!min')
            self.assume(p, And(d.has[k], z3.ForAll([j], z3.Implies(d.has[j], d.val[k] <= d.val[j]), patterns=[d.has[j]])))
            return IntV(k)
        args = [zint(self.ev(a, p), self, p) for a in e.args]
        z = args[0]
        for a in args[1:]:
            z = min2(z, a)
        return IntV(z)

    def builtin_max(self, e, p):
        args = [zint(self.ev(a, p), self, p) for a in e.args]
        z = args[0]
        for a in args[1:]:
            z = If(z >= a, z, a)
        return IntV(z)

    def builtin_len(self, e, p):
        r = self._len(e, p)
        if isinstance(r, IntV) and not z3.is_int_value(r.z):
            self.assume(p, r.z >= 0)      # a length is never negative
        return r

    def _len(self, e, p):
        a = e.args[0]
        if isinstance(a, ast.Attribute):
            mv = self.mgr_of_expr(a.value, p)
            if mv is not None and a.attr == 'vars':
                return IntV(p.mgrs[mv.key].nvars)
            if mv is not None and a.attr == '_succ':
                return IntV(p.mgrs[mv.key].nsucc)
        mv = self.mgr_of_expr(a, p)
        if mv is not None:
            return IntV(p.mgrs[mv.key].nsucc)
        v = self.ev(a, p)
        if isinstance(v, ListV):
            return IntV(v.n)
        if isinstance(v, TupV):
            return IntV(IntVal(len(v.items)))
        if isinstance(v, DictV):
            # ghost cardinality; zero exactly when empty
            self.assume(p, (v._len == 0) == Not(nonempty(v)))
            return IntV(v._len)
        if isinstance(v, SetV) and v.kkind == 'int':
            r = IntV(v._len)
            r.card_of = v
            return r
        raise Unsupported(f'len({ast.unparse(a)})@{e.lineno}')

    def builtin_isinstance(self, e, p):
        v = self.ev(e.args[0], p)
        t = ast.unparse(e.args[1])
        if t == 'bool':
            return BoolV(BoolVal(isinstance(v, BoolV)))
        if t == 'int':
            return BoolV(BoolVal(isinstance(v, (BoolV, IntV))) if not isinstance(v, IntV) or v.none is None else Not(v.none))
        if t in ('dict', '_abc.Mapping'):
            return BoolV(BoolVal(isinstance(v, DictV)))
        if t in ('set', '_abc.Set'):
            return BoolV(BoolVal(isinstance(v, SetV)))
        if t in ('Function', 'BDD'):
            # handle parameters are Function objects by kind (other types are outside the model)
            return BoolV(BoolVal(isinstance(v, ObjV) and v.cls.endswith('.' + t)))
        raise Unsupported(f'isinstance {t}')

    def builtin_dict(self, e, p):
        if len(e.args) == 1 and not e.keywords and isinstance(e.args[0], ast.Attribute):
            mv = self.mgr_of_expr(e.args[0].value, p)
            if mv is not None and e.args[0].attr == 'vars':
                S = p.mgrs[mv.key]
                return DictV(S.vin, S.v2l, 'int', 'name')
        if len(e.args) == 1 and not e.keywords:
            v = self.ev(e.args[0], p)
            if isinstance(v, DictV):
                r = v.copy()
                r.__dict__.pop('origin', None)      # `dict(d)` is a new object
                return r
        if e.args or e.keywords:
            raise Unsupported('dict(...)')
        d = self.empty_dict(e)
        d.fresh_empty = True
        return d

    def empty_dict(self, e, vkind='int', kkind='int'):
        ks = {'int': I, 'name': M.Name, 'fork': Fork}[kkind]
        vs = {'int': I, 'bool': B, 'name': M.Name}[vkind]
        return DictV(K(ks, BoolVal(False)), K(ks, IntVal(0)) if vkind == 'int' else fresh('dv', ArraySort(ks, vs)), vkind, kkind)

    def builtin_set(self, e, p):
        if e.args:
            v = self.ev(e.args[0], p)
            if isinstance(v, SetV):
                r = v.copy()
                r.__dict__.pop('origin', None)      # `set(s)` is a new object
                return r
            if isinstance(v, ObjV) and v.cls == 'mapabs':
                return self.set_of_mapabs_filter(v, p, e.lineno)
            if isinstance(v, FieldV) and v.attr == 'vars':
                # set(bdd.vars): the declared names at this moment (a new object, not a view)
                r = SetV(p.mgrs[v.mkey].vin, 'name')
                self.assume(p, z3.ForAll([M._n], z3.Implies(r.has[M._n], r._ne), patterns=[r.has[M._n]]))
                return r
            raise Unsupported('set(x)')
        return SetV(K(I, BoolVal(False)))

    def builtin_filter(self, e, p):
        """`filter(pred, xs)` is kept lazy: ('filter', closure, iterable)"""
        f, xs = self.ev(e.args[0], p), e.args[1]
        if not (isinstance(f, ObjV) and f.cls == 'closure'):
            raise Unsupported('filter with non-closure')
        return ObjV('filter', dict(pred=f, src=xs))

    def opaque_pure(self, f):
        """`f` names a function of the module whose contract is pure on opaque values (no manager, opaque in, opaque out)"""
        c = self.reg.get(f'{self.module}.{f.id}') if isinstance(f, ast.Name) else None
        return c is not None and c.ret == 'opaque' and not c.modifies and [k for _, k in c.params] == ['opaque']

    def builtin_tuple(self, e, p):
        v = self.ev(e.args[0], p) if len(e.args) == 1 and not e.keywords else None
        if isinstance(v, ObjV) and v.cls == 'opaque':
            return ObjV('opaque')        # a tuple of values the contract does not look into
        raise Unsupported(f'tuple(...)@{e.lineno}')

    def builtin_map(self, e, p):
        f = e.args[0]
        src = self.ev(e.args[1], p)
        if isinstance(src, ObjV) and src.cls == 'opaque' and self.opaque_pure(f):
            self.calls.append(f'{self.module}.{f.id}')
            return ObjV('opaque')        # the images of opaque values under a pure function on opaque values
        if isinstance(f, ast.Name) and f.id == 'abs' and isinstance(src, SetV) and src.kkind == 'int':
            return ObjV('mapabs', dict(src=src))
        if not (isinstance(f, ast.Name) and f.id == 'abs' and isinstance(src, ObjV) and src.cls == 'filter'):
            raise Unsupported('map idiom')
        return ObjV('mapabs', dict(src=src))

    def set_of_mapabs_filter(self, v, p, line):
        """idiom `set(map(abs, filter(pred, roots)))`: the set of |x| for the x in roots that satisfy pred. Modelled
        through its two consequences (assumed builtin semantics): membership implies the predicate for some root with that
        absolute value; every root satisfying the predicate has its absolute value in the set."""
        from z3 import ForAll, Exists
        flt = v.attrs['src']
        if isinstance(flt, SetV):
            # `set(map(abs, s))` for a set (or other finite collection) of integers: exactly {|x| : x in s}
            y = Int(f'y!{next(M._cnt)}')
            has = fresh('absset', ArraySort(I, B))
            p.pc.append(ForAll([y], has[y] == And(y >= 0, Or(flt.has[y], flt.has[-y])), patterns=[has[y]]))
            p.pc.append(ForAll([y], Implies(flt.has[y], has[absz(y)]), patterns=[flt.has[y]]))
            self.assumed_builtins.add('set(map(abs, s)) = {|x| : x in s}')
            r = SetV(has)
            self.refresh_ne(r, p)
            return r
        pred = flt.attrs['pred'].attrs['node']
        src_e = flt.attrs['src']
        # the predicate must be `not self._ref[abs(u)]`-shaped: evaluate its body symbolically on a bound variable
        if len(pred.body) != 1 or not isinstance(pred.body[0], ast.Return) or len(pred.args.args) != 1:
            raise Unsupported('filter predicate shape')
        var = pred.args.args[0].arg
        y = Int(f'y!{next(M._cnt)}')
        has = fresh('fset', ArraySort(I, B))
        saved = dict(p.env)
        sq = getattr(self, 'qmode', None)

        def pred_at(term):
            p.env[var] = IntV(term)
            try:
                return truth(self.ev(pred.body[0].value, p))
            finally:
                p.env.clear(); p.env.update(saved)
        srcv = self.ev(src_e, p)
        if isinstance(srcv, FieldV) and srcv.attr == '_ref':
            S = p.mgrs[srcv.mkey]
            self.qmode = ([y], [S.dom[y]], has[y])
            try:
                py = pred_at(y)
            finally:
                self.qmode = sq
            # keys of _ref are node ids (positive): abs is the identity on them
            p.pc.append(ForAll([y], has[y] == And(S.dom[y], py), patterns=[has[y]]))
            self.assumed_builtins.add('set(map(abs, filter(pred, d))) over the keys of a dict = {k in d : pred(k)} for positive keys')
            r = SetV(has)
            self.refresh_ne(r, p)
            return r
        if isinstance(srcv, (SetV, ListV)):
            inside = (lambda t: srcv.has[t]) if isinstance(srcv, SetV) else None
            if inside is None:
                raise Unsupported('filter over list')
            g_ = [y >= 0, Or(inside(y), inside(-y))]
            self.qmode = ([y], g_, has[y])
            try:
                py = pred_at(y)       # the predicate reads its argument through abs(): evaluated at y = |x|
            finally:
                self.qmode = sq
            p.pc.append(ForAll([y], Implies(has[y], And(*g_, py)), patterns=[has[y]]))
            self.assumed_builtins.add('set(map(abs, filter(pred, roots))) = {|x| : x in roots, pred(x)} (membership direction only)')
            r = SetV(has)
            self.refresh_ne(r, p)
            return r
        raise Unsupported(f'filter source@{line}')

    def builtin_next(self, e, p):
        """`next(iter(d))`: some key of a non-empty dict/set (StopIteration otherwise: obligation)"""
        a = e.args[0]
        if not (len(e.args) == 1 and isinstance(a, ast.Call) and isinstance(a.func, ast.Name) and a.func.id == 'iter'):
            raise Unsupported('next(...)')
        d = self.ev(a.args[0], p)
        if not isinstance(d, (DictV, SetV)):
            raise Unsupported('next(iter(x)) of non-container')
        self.oblige(p, f'stopiteration:next-of-empty@{e.lineno}', nonempty(d), e.lineno)
        ks = {'int': I, 'name': M.Name}[d.kkind]
        k0 = fresh('first_key', ks)
        self.assume(p, d.has[k0])
        return NameV(k0) if d.kkind == 'name' else IntV(k0)

    def enumerate_set(self, v, p):
        """iteration over a set (assumed builtin semantics, listed in the trusted base): some list without repetition of
        exactly its elements; `idx` is the witness of "every element occurs". The set must not change during the loop
        (Python raises RuntimeError otherwise): the loop body is checked not to assign the iterated set."""
        from z3 import ForAll, Function, Int, MultiPattern
        ks = v.has.sort().domain()
        arr, n = fresh('enum', ArraySort(I, ks)), fresh('enum_n')
        idx = Function(f'enum_idx!{next(M._cnt)}', ks, I)
        k1, k2, l1 = Int('k1!e'), Int('k2!e'), Const('l!e' + str(ks), ks)
        has = v.has
        p.pc += [n >= 0,
                 ForAll([k1, k2], Implies(And(0 <= k1, k1 < k2, k2 < n), arr[k1] != arr[k2]), patterns=[MultiPattern(arr[k1], arr[k2])]),
                 ForAll([k1], Implies(And(0 <= k1, k1 < n), has[arr[k1]]), patterns=[arr[k1]]),
                 ForAll([l1], Implies(has[l1], And(0 <= idx(l1), idx(l1) < n, arr[idx(l1)] == l1)), patterns=[has[l1]])]
        self.assumed_builtins.add('iteration over a set: each element exactly once, in some order')
        lst = ListV(arr, n, 'name' if getattr(v, 'kkind', 'int') == 'name' else 'int')
        lst.idx = idx
        return lst

    def builtin_sorted(self, e, p):
        """builtin (assumed, listed in the trusted base): sorted(set of ints) is the strictly increasing list of
        exactly its elements; `idx` is the witness of "every element occurs"."""
        v = self.ev(e.args[0], p)
        if len(e.args) != 1 or e.keywords:
            raise Unsupported('sorted(...)')
        if isinstance(v, DictV) and v.kkind == 'int':
            has = v.has
        elif isinstance(v, SetV) and v.kkind == 'int':
            has = v.has
        else:
            raise Unsupported('sorted of non-int container')
        arr, n = fresh('sorted', ArraySort(I, I)), fresh('sorted_n')
        from z3 import ForAll, Function, Int, MultiPattern
        idx = Function(f'sorted_idx!{next(M._cnt)}', I, I)
        k1, k2, l1 = Int('k1!s'), Int('k2!s'), Int('l!s')
        p.pc += [n >= 0,
                 ForAll([k1, k2], Implies(And(0 <= k1, k1 < k2, k2 < n), arr[k1] < arr[k2]), patterns=[MultiPattern(arr[k1], arr[k2])]),
                 ForAll([k1], Implies(And(0 <= k1, k1 < n), has[arr[k1]]), patterns=[arr[k1]]),
                 ForAll([l1], Implies(has[l1], And(0 <= idx(l1), idx(l1) < n, arr[idx(l1)] == l1)), patterns=[has[l1]])]
        self.assumed_builtins.add('sorted')
        lst = ListV(arr, n)
        lst.idx = idx
        return lst

    def container_method(self, e, p):
        f = e.func
        meth = f.attr
        tgt = f.value
        # manager fields
        if isinstance(tgt, ast.Attribute):
            mv = self.mgr_of_expr(tgt.value, p)
            if mv is not None:
                S = p.mgrs[mv.key]
                fld = tgt.attr
                args = [self.ev(a, p) for a in e.args]
                if meth == 'get' and fld in ('_pred', '_ite_table') and len(args) == 1:
                    kf = self.as_fork(args[0], p)
                    has, val = (S.ph, S.pv) if fld == '_pred' else (S.ch, S.cv)
                    return IntV(val[kf], Not(has[kf]))
                if meth == 'get' and fld == 'vars' and len(args) == 1 and isinstance(args[0], NameV):
                    return IntV(S.v2l[args[0].z], Not(S.vin[args[0].z]))
                if meth == 'get' and fld == '_level_to_var' and len(args) == 1:
                    kz = zint(args[0], self, p)
                    return NameV(S.l2v[kz], Not(S.lin[kz]))
                if meth == 'setdefault' and fld == '_succ' and len(args) == 2:
                    kz = zint(args[0], self, p)
                    t = args[1]
                    had = S.dom[kz]
                    old = TupV([IntV(S.lvl[kz]), IntV(S.lo[kz], S.lo[kz] == 0), IntV(S.hi[kz], S.hi[kz] == 0)])
                    # store only when absent: modelled by forking on presence
                    pa = p  # present / absent handled with If on the returned value; the store is guarded
                    S2 = S.copy()
                    lvl_ = zint(t.items[0], self, p)
                    lo_ = If(is_none(t.items[1]), 0, t.items[1].z)
                    hi_ = If(is_none(t.items[2]), 0, t.items[2].z)
                    self.store_node(S2, kz, lvl_, lo_, hi_, p, e.lineno, guard=Not(had))
                    # the result state: fresh arrays constrained per case (keeps quantifier patterns free of `if`)
                    S3 = State(base=S, modifies=[f_ for f_ in M.FIELDS if getattr(S2, f_) is not getattr(S, f_)] + ['nsucc'])
                    eqs_had, eqs_new = [], []
                    for f_ in list(M.FIELDS) + ['nsucc']:
                        if getattr(S3, f_) is not getattr(S, f_):
                            eqs_had.append(getattr(S3, f_) == getattr(S, f_))
                            eqs_new.append(getattr(S3, f_) == getattr(S2, f_))
                    p.pc.append(If(had, And(*eqs_had), And(*eqs_new)))
                    for f_ in list(M.FIELDS) + ['nsucc']:
                        setattr(S, f_, getattr(S3, f_))
                    r0 = self.name_it(p, If(had, old.items[0].z, lvl_), 'sd')
                    r1 = self.name_it(p, If(had, old.items[1].z, lo_), 'sd')
                    r2 = self.name_it(p, If(had, old.items[2].z, hi_), 'sd')
                    return TupV([IntV(r0), IntV(r1, r1 == 0), IntV(r2, r2 == 0)])
                if meth == 'pop' and fld == '_succ' and len(args) == 1:
                    kz = self.name_it(p, zint(args[0], self, p), 'del')
                    self.oblige(p, f'keyerror:_succ.pop@{e.lineno}', S.dom[kz], e.lineno)
                    self.assume(p, S.dom[kz])
                    old = S.copy()
                    ret = TupV([IntV(old.lvl[kz]), IntV(old.lo[kz], old.lo[kz] == 0), IntV(old.hi[kz], old.hi[kz] == 0)])
                    self.delete_node(S, old, kz, p, e.lineno)
                    return ret
                if meth == 'pop' and fld == '_pred' and len(args) == 1:
                    kf = self.name_it(p, self.as_fork(args[0], p), 'fk')
                    self.oblige(p, f'keyerror:_pred.pop@{e.lineno}', S.ph[kf], e.lineno)
                    r = IntV(S.pv[kf])
                    S.ph = Store(S.ph, kf, False)
                    return r
                if meth == 'pop' and fld == '_ref' and len(args) == 1:
                    kz = zint(args[0], self, p)
                    # `_ref` and `_succ` have one domain in the model; the entry disappears with the node
                    return IntV(S.ref[kz])
                if meth == 'pop' and fld == '_pred' and len(args) == 2:
                    kf = self.name_it(p, self.as_fork(args[0], p), 'fk')
                    S.ph = Store(S.ph, kf, False)
                    return NONE()
                if meth == 'setdefault' and fld == '_ref' and len(args) == 2:
                    kz = zint(args[0], self, p)
                    # _ref.setdefault(u, c): only used for the terminal in _init_terminal
                    if getattr(p, 'ref_empty', False):
                        S.ref = Store(S.ref, kz, zint(args[1], self, p))
                        p.ref_written = getattr(p, 'ref_written', []) + [kz]
                        return IntV(S.ref[kz])
                    S.ref = Store(S.ref, kz, If(S.dom[kz], S.ref[kz], zint(args[1], self, p)))
                    return IntV(S.ref[kz])
                raise Unsupported(f'{fld}.{meth}@{e.lineno}')
        v = None
        try:
            v = self.ev(tgt, p)
        except Unsupported:
            return NotImplemented
        args = [self.ev(a, p) for a in e.args]
        if isinstance(v, IntV) and meth == 'append' and len(args) == 1 and isinstance(tgt, ast.Name):
            # opaque list value (grammar actions): u.append(x) re-binds the name to APPEND(u, x)
            p.env[tgt.id] = IntV(APPEND(v.z, self.code_of(args[0], p)))
            return NONE()
        if isinstance(v, DictV) and meth == 'items' and not args:
            return ObjV('items', dict(d=v))
        if isinstance(v, DictV) and meth == 'get' and len(args) == 2:
            kz = args[0].z if v.kkind == 'name' else zint(args[0], self, p)
            r = self.dict_val(v, kz)
            d = args[1]
            if isinstance(r, NameV) and isinstance(d, NameV):
                return NameV(If(v.has[kz], r.z, d.z))
            if isinstance(r, IntV) and isinstance(d, IntV):
                return IntV(If(v.has[kz], r.z, d.z), If(v.has[kz], BoolVal(False), is_none(d)))
            raise Unsupported('dict.get default kind')
        if isinstance(v, DictV) and meth == 'get' and len(args) == 1:
            kz = args[0].z if v.kkind == 'name' else (self.as_fork(args[0], p) if v.kkind == 'fork' else zint(args[0], self, p))
            r = self.dict_val(v, kz)
            if isinstance(r, IntV):
                return IntV(r.z, Not(v.has[kz]))
            if isinstance(r, NameV):
                return NameV(r.z, Not(v.has[kz]))
            raise Unsupported('dict.get of bool')
        if isinstance(v, SetV) and meth == 'remove' and len(args) == 1:
            kz = zint(args[0], self, p)
            self.oblige(p, f'keyerror:set.remove@{e.lineno}', v.has[kz], e.lineno)
            v.has = Store(v.has, self.name_it(p, kz, 'sk'), False)
            self.refresh_ne(v, p)
            return NONE()
        if isinstance(v, SetV) and meth == 'pop' and not args:
            # an arbitrary member (the caller established non-emptiness: KeyError otherwise)
            self.oblige(p, f'keyerror:set.pop-from-empty@{e.lineno}', nonempty(v), e.lineno)
            x = fresh('popped')
            self.assume(p, v.has[x])
            v.has = Store(v.has, x, False)
            self.refresh_ne(v, p)
            return IntV(x)
        if isinstance(v, SetV) and meth == 'issubset' and len(args) == 1 and isinstance(args[0], SetV) and args[0].kkind == v.kkind:
            from z3 import ForAll
            x = Int(f'x!sub{next(M._cnt)}')
            return BoolV(ForAll([x], Implies(v.has[x], args[0].has[x]), patterns=[v.has[x]]))
        if isinstance(v, SetV) and meth == 'add' and len(args) == 1:
            kz = args[0].z if v.kkind == 'name' else zint(args[0], self, p)
            v.has = Store(v.has, self.name_it(p, kz, 'sk'), True)
            v._ne = BoolVal(True)
            v._len = fresh('len')
            return NONE()
        return NotImplemented

    def call_contract(self, qual, args, kwargs, p, e):
        for a_ in args[1:2]:
            tag = {DictV: 'dict', SetV: 'set'}.get(type(a_))
            if tag and f'{qual}:{tag}' in self.reg:
                qual = f'{qual}:{tag}'
        qual = getattr(self, 'call_override', {}).get(qual, qual)
        if qual not in self.reg:
            raise Unsupported(f'call to {qual}@{e.lineno}: no contract for this argument kind')
        c = self.reg[qual]
        if getattr(c, 'entry_ref_empty', False):
            # the callee is specified for a manager whose `_ref` table is literally empty (constructor)
            if not getattr(p, 'ref_empty', False):
                raise Unsupported(f'{qual} needs an empty _ref table@{e.lineno}')
            p.ref_empty = False
        elif getattr(p, 'ref_empty', False) and any(isinstance(a_, MgrV) for a_ in args):
            raise Unsupported(f'call with an empty _ref table@{e.lineno}')
        self.calls.append(qual)
        line = e.lineno
        # bind parameters
        bound = {}
        names = [n for n, _ in c.params]
        for n, v in zip(names, args):
            bound[n] = v
        for k, v in kwargs.items():
            if k not in names:
                raise Unsupported(f'keyword {k} for {qual}@{line}')
            bound[k] = v
        for n, kind in c.params:
            if n not in bound:
                if kind.startswith('opt'):
                    bound[n] = NONE()
                elif kind == 'opaque':
                    bound[n] = ObjV('opaque')
                elif kind == 'bool=False':
                    bound[n] = BoolV(BoolVal(False))
                elif kind == 'none':
                    bound[n] = NONE()
                else:
                    raise Unsupported(f'missing argument {n} for {qual}@{line}')
        for n, kind in c.params:
            v = bound.get(n)
            if isinstance(v, DictV) and kind.startswith('dict:') and z3.is_K(v.has):
                # `dict()` literal: its key/value kinds are fixed by the first use
                k_, vk_ = kind[5:].split('->')
                if (v.kkind, v.vkind) != (k_, vk_):
                    e2 = self.empty_dict(e, vk_, k_)
                    v.has, v.val, v.kkind, v.vkind = e2.has, e2.val, k_, vk_
        if callable(c.mgr):
            mkey = c.mgr(bound)
        else:
            mkey = bound[c.mgr].key if c.mgr in bound and isinstance(bound[c.mgr], MgrV) else None
        S0 = p.mgrs[mkey] if mkey is not None else None
        self._check_none = True
        zargs = self.z_args(c, bound, p)
        self._check_none = False
        ctx = Ctx(S=S0, S0=S0, a=Ctx(**zargs), mgrs=p.mgrs, uses=self.c.uses, path=p, ex=self)
        pre_list = list(c.pre(ctx)) + (list(c.call_pre(ctx)) if getattr(c, 'call_pre', None) else [])
        skip = getattr(c, 'call_skip', set()) if c is self.c else set()
        for nm, g in pre_list:
            if nm in skip:
                continue    # recursive call passing its own unchanged parameters: the clause is the caller's precondition
            if z3.is_quantifier(g) and any(g.eq(h) for h in p.pc if z3.is_quantifier(h)):
                continue    # literally one of the hypotheses of this path (e.g. a ghost axiom handed on unchanged)
            self.oblige(p, f'call-pre:{c.name.split(".")[-1]}.{nm}@{line}', g, line)
        # exceptional outcomes
        for exc, rs in c.raises.items():
            w = rs.when(ctx)
            q = p.fork(w)
            S1e = State(base=S0, modifies=c.modifies) if (c.modifies and S0 is not None) else S0
            ectx = Ctx(S=S0, S0=S0, S1=S1e, a=ctx.a, mgrs=p.mgrs, uses=self.c.uses, path=q, ex=self)
            if rs.post is not None:
                for _, g in rs.post(ectx):
                    q.pc.append(g)
                if mkey is not None:
                    q.mgrs[mkey] = S1e if S1e is not S0 else S0.copy()
            # (no exceptional post: state unchanged, q keeps its own copy of the entry state)
            q.status, q.exc, q.line = 'raise', exc, line
            q.exc_from = qual
            q.when = w
            self.side_paths.append(q)
            if rs.must:
                p.pc.append(Not(w))
        # normal outcome
        if getattr(c, 'pure', None) is not None:
            return c.pure(ctx)      # side-effect free accessor whose value is a term of the state (no fresh symbol)
        if getattr(self, 'qmode', None):
            raise Unsupported(f'call to {qual} inside a comprehension@{line}')
        S1 = State(base=S0, modifies=c.modifies) if (c.modifies and S0 is not None) else S0
        ret, rz = self.fresh_ret(c, bound)
        muts = {}
        for nm in c.mutates:
            cont = bound[nm]
            old = cont.copy()
            ks = {'int': I, 'name': M.Name, 'fork': Fork}[cont.kkind]
            cont.has = fresh(nm + 'has', ArraySort(ks, B))
            if isinstance(cont, DictV):
                vs = {'int': I, 'bool': B, 'name': M.Name}[cont.vkind]
                cont.val = fresh(nm + 'val', ArraySort(ks, vs))
            muts[nm] = (old, cont)
        pctx = Ctx(S=S1, S0=S0, S1=S1, a=ctx.a, r=rz, mgrs=p.mgrs, uses=self.c.uses, muts=muts, path=p, ex=self)
        for _, g in (getattr(c, 'call_post', None) or c.post)(pctx):
            p.pc.append(g)
        if mkey is not None:
            p.mgrs[mkey] = S1
        if getattr(c, 'on_return', None):
            c.on_return(bound, ret)
        return ret

    def z_args(self, c, bound, p):
        out = {}
        for n, kind in c.params:
            v = bound[n]
            if isinstance(v, MgrV):
                out[n] = p.mgrs[v.key]
                out[n + '_key'] = v.key
            elif isinstance(v, IntV):
                out[n] = v.z
                out[n + '_none'] = is_none(v)
                if kind == 'int' and v.none is not None and p is not None and getattr(self, '_check_none', False):
                    self.oblige(p, f'typeerror:None-passed-for-{n}', Not(v.none))
            elif isinstance(v, BoolV):
                if kind in ('int', 'optint'):
                    out[n] = If(v.z, 1, 0)
                    out[n + '_none'] = BoolVal(False)
                else:
                    out[n] = v.z
            elif isinstance(v, NameV):
                out[n] = v.z
                out[n + '_none'] = is_none(v)
            elif isinstance(v, StrV):
                out[n] = v.v
            elif isinstance(v, FieldV):
                out[n] = p.mgrs[v.mkey] if p is not None else v
                out[n + '_key'] = v.mkey
            elif isinstance(v, IntV) and kind in ('opthandle',):
                out[n] = v.z
                out[n + '_none'] = is_none(v)
                out[n + '_obj'] = None
            elif isinstance(v, ObjV) and v.cls == 'dd.autoref.Function':
                out[n] = v.attrs['node'].z if 'node' in v.attrs else None
                out[n + '_obj'] = v
                out[n + '_none'] = getattr(v, 'none', BoolVal(False))
            else:
                out[n] = v
        return out

    def fresh_ret(self, c, bound=None):
        if c.ret == 'handle':
            # a new dd.autoref.Function of the receiving manager; the contract speaks about its node
            r = fresh('hnode')
            owner = c.owner(bound) if getattr(c, 'owner', None) else bound.get('self')
            h = ObjV('dd.autoref.Function', {'node': IntV(r), 'bdd': owner, 'manager': owner.attrs['_bdd']})
            return h, r
        if c.ret == 'opthandle':
            r, n = fresh('hnode'), fresh('hnone', B)
            owner = c.owner(bound) if getattr(c, 'owner', None) else bound.get('self')
            h = ObjV('dd.autoref.Function', {'node': IntV(r), 'bdd': owner, 'manager': owner.attrs['_bdd']})
            h.none = n
            return h, (r, n)
        if c.ret == 'optname':
            r, n = fresh('rn', M.Name), fresh('rnn', B)
            return NameV(r, n), (r, n)
        if c.ret == 'opaque':
            return ObjV('opaque'), None
        if c.ret == 'int':
            r = fresh('r')
            return IntV(r), r
        if c.ret == 'optint':
            r, n = fresh('r'), fresh('rn', B)
            return IntV(r, n), (r, n)
        if c.ret == 'bool':
            r = fresh('rb', B)
            return BoolV(r), r
        if c.ret == 'pair':
            a, b = fresh('r0'), fresh('r1')
            return TupV([IntV(a), IntV(b)]), (a, b)
        if c.ret == 'triple':
            a, b, d = fresh('r0'), fresh('r1'), fresh('r2')
            return TupV([IntV(a), IntV(b, b == 0), IntV(d, d == 0)]), (a, b, d)
        if c.ret == 'name':
            r = fresh('rn', M.Name)
            return NameV(r), r
        if c.ret == 'none':
            return NONE(), None
        if c.ret.startswith('set:'):
            ks = {'int': I, 'name': M.Name}[c.ret[4:]]
            v = SetV(fresh('rs', ArraySort(ks, B)), c.ret[4:])
            return v, v
        if c.ret.startswith('dict:'):
            k, vk = c.ret[5:].split('->')
            ks = {'int': I, 'name': M.Name}[k]
            vs = {'int': I, 'bool': B, 'name': M.Name}[vk]
            v = DictV(fresh('rdh', ArraySort(ks, B)), fresh('rdv', ArraySort(ks, vs)), vk, k)
            return v, v
        if c.ret == 'list:int':
            v = ListV(fresh('rl', ArraySort(I, I)), fresh('rln'))
            return v, v
        raise Unsupported(f'ret kind {c.ret}')

    # ------------------------------------------------------------------ statements
    def run_block(self, stmts, paths):
        for st in stmts:
            nxt = []
            for p in paths:
                if p.status != 'run':
                    nxt.append(p)
                    continue
                if getattr(self.c, 'stop_at', None) and self.c.stop_at(st):
                    # the contract covers a prefix of the function only: execution is cut here (see the contract's note)
                    p.status, p.line = 'stopped', st.lineno
                    nxt.append(p)
                    continue
                self.side_paths = []
                try:
                    res = self.stmt(st, p)
                except PathDead:
                    res = []
                except Unsupported:
                    # code outside the subset is tolerated only where it cannot be reached (path condition proved contradictory)
                    from z3 import Solver, unsat
                    sv = Solver()
                    sv.set('timeout', 5000)
                    sv.add(*p.pc)
                    if sv.check() != unsat:
                        raise
                    self.dead_unsupported = getattr(self, 'dead_unsupported', 0) + 1
                    res = []
                except PyRaise as pr:
                    p.status, p.exc, p.line, p.exc_from = 'raise', pr.exc, pr.line, None
                    res = [p]
                nxt.extend(res)
                nxt.extend(self.side_paths)
                self.side_paths = []
            paths = nxt
        return paths

    def closure_calls(self, st, p):
        """calls of local closures (nested defs) inside a simple statement, in evaluation order"""
        if not isinstance(st, (ast.Return, ast.Assign, ast.Expr)):
            return []
        out = []
        for n in ast.walk(st):
            if isinstance(n, ast.Call) and isinstance(n.func, ast.Name) and isinstance(p.env.get(n.func.id), ObjV) \
                    and p.env[n.func.id].cls == 'closure':
                out.append(n)
        out.sort(key=lambda n: (n.lineno, n.col_offset))
        return out

    def stmt(self, st, p):
        calls = self.closure_calls(st, p)
        if calls:
            return self.stmt_with_closures(st, calls, p)
        m = getattr(self, 'st_' + type(st).__name__, None)
        if m is None:
            raise Unsupported(f'{type(st).__name__}@{st.lineno}')
        return m(st, p)

    def stmt_with_closures(self, st, calls, p):
        """evaluate the closure calls first (their bodies are inlined and may fork the path), then the statement with the
        calls replaced by temporaries"""
        import copy as _copy
        paths = [p]
        names = {}
        for k, call in enumerate(calls):
            tmp = f'__closure{k}@{call.lineno}'
            names[(call.lineno, call.col_offset)] = tmp
            nxt = []
            for q in paths:
                if q.status != 'run':
                    nxt.append(q)
                    continue
                clo = q.env[call.func.id].attrs['node']
                args = [self.ev(a, q) for a in call.args]
                for q2, val in self.inline_node(clo, args, q):
                    q2.env[tmp] = val
                    nxt.append(q2)
            paths = nxt

        class R(ast.NodeTransformer):
            def visit_Call(self_, n):
                key = (n.lineno, n.col_offset)
                if key in names and isinstance(n.func, ast.Name):
                    return ast.copy_location(ast.Name(id=names[key], ctx=ast.Load()), n)
                return self_.generic_visit(n)
        st2 = R().visit(_copy.deepcopy(st))
        out = []
        for q in paths:
            if q.status != 'run':
                out.append(q)
            else:
                m = getattr(self, 'st_' + type(st2).__name__)
                out += m(st2, q)
        return out

    def inline_node(self, fn, args, p):
        """inline a nested def (closure over the enclosing environment)"""
        params = [a.arg for a in fn.args.args]
        if len(params) != len(args):
            raise Unsupported('closure arity')
        saved = p.env
        p.env = dict(saved)
        p.env.update(zip(params, args))
        res = self.run_block(fn.body, [p])
        out = []
        for q in res:
            if q.status in ('return', 'run'):
                val = q.value if q.status == 'return' and q.value is not None else NONE()
                q.status, q.value = 'run', None
                env = dict(saved)
                q.env = env
                out.append((q, val))
            else:
                q.env = dict(saved)
                out.append((q, None)) if False else None
                self.side_paths.append(q)
        return out

    def st_Expr(self, st, p):
        if isinstance(st.value, ast.Constant):
            return [p]
        self.ev(st.value, p)
        return [p]

    def st_Pass(self, st, p):
        return [p]

    def st_Assign(self, st, p):
        val = self.ev(st.value, p)
        for tgt in st.targets:
            self.assign(tgt, val, p, st.lineno)
        return [p]

    def st_AnnAssign(self, st, p):
        if st.value is None:
            return [p]
        self.assign(st.target, self.ev(st.value, p), p, st.lineno)
        return [p]

    def st_AugAssign(self, st, p):
        cur = self.ev(st.target, p)
        d = self.ev(st.value, p)
        zc, zd = zint(cur, self, p), zint(d, self, p)
        if isinstance(st.op, ast.Add):
            nv = IntV(zc + zd)
        elif isinstance(st.op, ast.Sub):
            nv = IntV(zc - zd)
        else:
            raise Unsupported('augassign op')
        self.assign(st.target, nv, p, st.lineno)
        return [p]

    def assign(self, tgt, val, p, line):
        if isinstance(tgt, ast.Name):
            p.env[tgt.id] = val
            return
        if isinstance(tgt, (ast.Tuple, ast.List)) and isinstance(val, ObjV) and val.cls == 'items' and len(tgt.elts) == 1:
            # `(k, v), = d.items()`: exactly one item (ValueError otherwise)
            from z3 import ForAll
            d = val.attrs['d']
            self.oblige(p, f'valueerror:unpack-needs-exactly-one-item@{line}', d._len == 1, line)
            ks = {'int': I, 'name': M.Name}[d.kkind]
            k0 = fresh('only_key', ks)
            kk = Const(f'kk!{next(M._cnt)}', ks)
            p.pc += [d.has[k0], ForAll([kk], Implies(d.has[kk], kk == k0), patterns=[d.has[kk]])]
            self.assumed_builtins.add('a dict with len 1 has exactly one key (unpacking `(k, v), = d.items()`)')
            key = NameV(k0) if d.kkind == 'name' else IntV(k0)
            self.assign(tgt.elts[0], TupV([key, self.dict_val(d, k0)]), p, line)
            return
        if isinstance(tgt, (ast.Tuple, ast.List)):
            if not isinstance(val, TupV) or len(val.items) != len(tgt.elts):
                raise Unsupported(f'unpack@{line}')
            for t_, v_ in zip(tgt.elts, val.items):
                self.assign(t_, v_, p, line)
            return
        if isinstance(tgt, ast.Attribute):
            mv = self.mgr_of_expr(tgt.value, p)
            if mv is not None:
                S = p.mgrs[mv.key]
                if tgt.attr == '_min_free':
                    S.minfree = zint(val, self, p)
                    return
                if tgt.attr == '_last_len':
                    S.lastlen = If(is_none(val), -1, val.z) if isinstance(val, IntV) else zint(val, self, p)
                    return
                if tgt.attr == '_reordering_context':
                    S.ctx = truth(val)
                    return
                if tgt.attr == '_ite_table' and isinstance(val, DictV) and val.kkind == 'fork' and not getattr(val, 'fresh_empty', False):
                    S.ch, S.cv = val.has, val.val       # a table computed from the old one (e.g. a filtering comprehension)
                    return
                if tgt.attr == '_ite_table' and isinstance(val, DictV):
                    S.ch = K(Fork, BoolVal(False))
                    return
                if isinstance(val, DictV) and getattr(val, 'fresh_empty', False):
                    # `self.<table> = dict()`: the whole table is replaced by an empty one
                    if tgt.attr == '_pred':
                        S.ph = K(Fork, BoolVal(False))
                        return
                    if tgt.attr == '_succ':
                        S.dom = K(I, BoolVal(False))
                        S.nsucc = IntVal(0)
                        return
                    if tgt.attr == '_ref':
                        # `_ref` has the keys of `_succ` in the model; a literally empty table is tracked on the path until
                        # the keys agree again (only the constructor does this)
                        p.ref_empty = True
                        p.ref_written = []
                        return
                    if tgt.attr == 'vars':
                        S.vin = K(M.Name, BoolVal(False))
                        S.nvars = IntVal(0)
                        return
                    if tgt.attr == '_level_to_var':
                        S.lin = K(I, BoolVal(False))
                        return
                if tgt.attr == 'max_nodes':
                    S.maxnodes = zint(val, self, p)
                    return
                if tgt.attr == 'roots':
                    return              # a plain attribute that no operation of the library reads
                raise Unsupported(f'assign attr {tgt.attr}@{line}')
            base = self.ev(tgt.value, p)
            if isinstance(base, ObjV):
                base.attrs[tgt.attr] = val
                return
        if isinstance(tgt, ast.Subscript):
            if isinstance(tgt.value, ast.Attribute):
                mv = self.mgr_of_expr(tgt.value.value, p)
                if mv is not None:
                    self.write_field(p.mgrs[mv.key], tgt.value.attr, self.ev(tgt.slice, p), val, p, line)
                    return
            base = self.ev(tgt.value, p)
            if isinstance(base, ListV):
                kz = zint(self.ev(tgt.slice, p), self, p)
                self.oblige(p, f'indexerror:{ast.unparse(tgt.value)}@{line}', And(0 <= kz, kz < base.n), line)
                base.arr = Store(base.arr, kz, self.code_of(val, p))
                return
            if isinstance(base, DictV):
                key = self.ev(tgt.slice, p)
                kz = key.z if base.kkind == 'name' else (self.as_fork(key, p) if base.kkind == 'fork' else zint(key, self, p))
                kz = self.name_it(p, kz, 'dk')
                base.has = Store(base.has, kz, True)
                base._ne = BoolVal(True)
                base._len = fresh('len')
                if base.vkind == 'bool':
                    base.val = Store(base.val, kz, truth(val))
                elif base.vkind == 'name':
                    base.val = Store(base.val, kz, val.z)
                else:
                    base.val = Store(base.val, kz, zint(val, self, p, f'@{line}'))
                return
        raise Unsupported(f'assign {ast.unparse(tgt)}@{line}')

    def write_field(self, S, fld, key, val, p, line):
        if fld == '_pred':
            kf = self.name_it(p, self.as_fork(key, p), 'fk')
            S.ph = Store(S.ph, kf, True)
            S.pv = Store(S.pv, kf, zint(val, self, p))
            return
        if fld == '_ite_table':
            kf = self.name_it(p, self.as_fork(key, p), 'fk')
            S.ch = Store(S.ch, kf, True)
            S.cv = Store(S.cv, kf, zint(val, self, p, f'@{line}'))
            return
        if fld == '_ref':
            kz = zint(key, self, p)
            S.ref = Store(S.ref, kz, zint(val, self, p))
            return
        if fld == 'vars':
            # new key: ghost length grows (obligation: the key is new; re-binding an existing name is not modelled)
            self.oblige(p, f'vars-new-key@{line}', Not(S.vin[key.z]), line)
            S.vin = Store(S.vin, key.z, True)
            S.v2l = Store(S.v2l, key.z, zint(val, self, p))
            S.nvars = S.nvars + 1
            return
        if fld == '_level_to_var':
            kz = zint(key, self, p)
            S.lin = Store(S.lin, kz, True)
            S.l2v = Store(S.l2v, kz, val.z)
            return
        if fld == '_succ':
            kz = zint(key, self, p)
            if not (isinstance(val, TupV) and len(val.items) == 3):
                raise Unsupported(f'_succ value@{line}')
            lvl_ = zint(val.items[0], self, p)
            lo_ = If(is_none(val.items[1]), 0, val.items[1].z)
            hi_ = If(is_none(val.items[2]), 0, val.items[2].z)
            self.store_node(S, kz, lvl_, lo_, hi_, p, line)
            return
        raise Unsupported(f'write {fld}@{line}')

    def store_node(self, S, kz, lvl_, lo_, hi_, p, line, guard=None):
        """Engine rule (DESIGN 2.3/2.4/2.5): a *fresh* `_succ` entry extends every ghost family; overwriting the
        terminal's entry (the only overwrite in contracted code, `_init_terminal`) keeps its ghost values."""
        fresh_case = Not(S.dom[kz])
        term_case = And(kz == 1, lo_ == 0, hi_ == 0)
        self.oblige(p, f'node-write-is-fresh-or-terminal@{line}',
                    Or(fresh_case, term_case) if guard is None else Implies(guard, Or(fresh_case, term_case)), line)
        isnew = And(fresh_case, Not(term_case))
        old = S.copy()
        S.nsucc = If(old.dom[kz], old.nsucc, old.nsucc + 1)
        S.dom = Store(old.dom, kz, True)
        S.lvl = Store(old.lvl, kz, lvl_)
        S.lo = Store(old.lo, kz, lo_)
        S.hi = Store(old.hi, kz, hi_)
        al, ah = absz(lo_), absz(hi_)
        i1 = Store(old.indeg, al, old.indeg[al] + 1)
        i2 = Store(i1, ah, i1[ah] + 1)
        i3 = Store(i2, kz, 0)
        S.indeg = If(isnew, i3, If(And(fresh_case, term_case), Store(old.indeg, kz, 0), old.indeg))
        S.ext = If(isnew, Store(old.ext, kz, 0), If(And(fresh_case, term_case), Store(old.ext, kz, 1), old.ext))
        for fam, arr in (('sem', A), ('sem2', A2), ('sem3', A3)):
            sa = getattr(old, fam)
            setattr(S, fam, If(isnew, Store(sa, kz, If(arr[lvl_], semr(old, hi_, fam), semr(old, lo_, fam))),
                               Store(sa, kz, True) if fam else sa))
        S.sem1 = If(isnew, Store(old.sem1, kz, semr(old, hi_, 'sem1')), Store(old.sem1, kz, True))
        S.qex = If(isnew, Store(old.qex, kz, If(Q[lvl_], Or(qexr(old, lo_), qexr(old, hi_)),
                                               If(A[lvl_], qexr(old, hi_), qexr(old, lo_)))), Store(old.qex, kz, True))
        S.qfa = If(isnew, Store(old.qfa, kz, If(Q[lvl_], And(qfar(old, lo_), qfar(old, hi_)),
                                               If(A[lvl_], qfar(old, hi_), qfar(old, lo_)))), Store(old.qfa, kz, True))
        S.hl = If(isnew, Store(old.hl, kz, Or(lvl_ == HL, old.hl[al], old.hl[ah])), Store(old.hl, kz, False))
        S.rt = If(isnew, Store(old.rt, kz, Or(kz == RT, old.rt[al], old.rt[ah])), Store(old.rt, kz, RT == 1))

    def delete_node(self, S, old, kz, p, line):
        """Engine rule for removing a `_succ` entry (DESIGN 2.4): ghost in-degree of the children decreases by one per
        edge. The two facts asserted here are the *meaning* of the ghost in-degree (modelling axioms, listed in the
        trusted base): the target of a stored edge has in-degree >= 1 (>= 2 if both edges of the node point to it), and a
        node with in-degree 0 is the child of no stored node."""
        u_ = Int('u!del')
        lo_, hi_ = old.lo[kz], old.hi[kz]
        al, ah = absz(lo_), absz(hi_)
        from z3 import ForAll
        self.assume(p, And(old.indeg[al] >= 1, old.indeg[ah] >= 1, Implies(al == ah, old.indeg[ah] >= 2)))
        self.assume(p, Implies(old.indeg[kz] == 0,
                               ForAll([u_], Implies(And(old.dom[u_], u_ > 1), And(absz(old.lo[u_]) != kz, old.hi[u_] != kz)),
                                      patterns=[old.dom[u_]])))
        self.assumed_builtins.add('meaning of the ghost in-degree at node deletion (stored edge => indeg >= 1; indeg = 0 => no stored parent)')
        S.dom = Store(old.dom, kz, False)
        S.nsucc = old.nsucc - 1
        i1 = Store(old.indeg, al, old.indeg[al] - 1)
        S.indeg = Store(i1, ah, i1[ah] - 1)

    def st_If(self, st, p):
        c = simplify(truth(self.ev(st.test, p)))
        sides = list(self.side_paths)
        self.side_paths = []
        out = []
        if not is_false(c):
            pt = p.fork(c)
            pt.trace.append(('if', st.lineno, True))
            out += self.run_block(st.body, [pt])
        if not is_true(c):
            pf = p.fork(Not(c))
            pf.trace.append(('if', st.lineno, False))
            out += self.run_block(st.orelse, [pf])
        self.side_paths = sides
        return out

    def st_Return(self, st, p):
        p.value = self.ev(st.value, p) if st.value is not None else NONE()
        p.status = 'return'
        return [p]

    def st_Raise(self, st, p):
        p.status = 'raise'
        if st.exc is None:
            p.exc = 'reraise'
        elif isinstance(st.exc, ast.Call):
            p.exc = ast.unparse(st.exc.func).split('.')[-1]
        else:
            p.exc = ast.unparse(st.exc).split('.')[-1]
        p.line = st.lineno
        p.exc_from = None
        return [p]

    def st_Break(self, st, p):
        p.status = 'break'
        return [p]

    def st_Continue(self, st, p):
        p.status = 'continue'
        return [p]

    def st_Assert(self, st, p):
        c = truth(self.ev(st.test, p))
        self.oblige(p, f'assert@{st.lineno}', c, st.lineno)
        p.pc.append(c)
        return [p]

    def st_Match(self, st, p):
        subj = self.ev(st.subject, p)
        out = []
        rest = p
        for case in st.cases:
            pat = case.pattern
            if isinstance(pat, ast.MatchAs) and pat.pattern is None:
                out += self.run_block(case.body, [rest])
                rest = None
                break
            if isinstance(pat, ast.MatchOr) and all(isinstance(x, ast.MatchClass) and not x.patterns for x in pat.patterns):
                names = [ast.unparse(x.cls) for x in pat.patterns]
                c = BoolVal(any(self.match_class(subj, t) for t in names))
            elif isinstance(pat, ast.MatchClass) and not pat.patterns and ast.unparse(pat.cls) in ('Function', 'dict', 'list', 'set', '_abc.Mapping', '_abc.Set'):
                c = BoolVal(self.match_class(subj, ast.unparse(pat.cls)))
            elif isinstance(pat, ast.MatchClass) and not pat.patterns:
                t = ast.unparse(pat.cls)
                if t == 'int':
                    ok = isinstance(subj, (IntV, BoolV))
                    c = Not(is_none(subj)) if ok else BoolVal(False)
                elif t == 'bool':
                    c = BoolVal(isinstance(subj, BoolV))
                elif t == 'str':
                    c = BoolVal(isinstance(subj, (StrV, NameV)))
                else:
                    raise Unsupported(f'match class {t}@{st.lineno}')
            elif isinstance(pat, ast.MatchSingleton) and pat.value is None:
                c = is_none(subj)
            else:
                raise Unsupported(f'match pattern@{st.lineno}')
            c = simplify(c)
            if not is_false(c):
                out += self.run_block(case.body, [rest.fork(c)])
            if is_true(c):
                rest = None
                break
            rest = rest.fork(Not(c))
        if rest is not None:
            out.append(rest)
        return out

    def match_class(self, v, t):
        return {'str': isinstance(v, (StrV, NameV)), 'bool': isinstance(v, BoolV), 'int': isinstance(v, (IntV, BoolV)),
                'Function': isinstance(v, ObjV) and v.cls.endswith('.Function'), 'dict': isinstance(v, DictV),
                '_abc.Mapping': isinstance(v, DictV), '_abc.Set': isinstance(v, SetV),
                'list': isinstance(v, ListV), 'set': isinstance(v, SetV)}.get(t, False)

    # ---- loops --------------------------------------------------------------------------------------------
    @staticmethod
    def loop_writes(st):
        """names of locals that the body of a loop assigns or mutates in place (targets of the loop itself excluded)"""
        own = {n.id for n in ast.walk(st.target) if isinstance(n, ast.Name)} if isinstance(st, ast.For) else set()
        out = set()
        for n in ast.walk(ast.Module(body=st.body, type_ignores=[])):
            if isinstance(n, ast.Name) and isinstance(n.ctx, ast.Store):
                out.add(n.id)
            elif isinstance(n, (ast.Subscript, ast.Attribute)) and isinstance(n.ctx, ast.Store) and isinstance(n.value, ast.Name):
                out.add(n.value.id)
            elif (isinstance(n, ast.Call) and isinstance(n.func, ast.Attribute) and isinstance(n.func.value, ast.Name)
                  and n.func.attr in ('add', 'pop', 'remove', 'append', 'update', 'setdefault', 'clear', 'discard', 'extend',
                                      'difference_update', 'intersection_update')):
                out.add(n.func.value.id)
        return out - own

    def havoc_loop_locals(self, st, spec, ph_):
        """state at the start of an arbitrary iteration: listed locals get arbitrary values of their kind; locals that the body
        writes but the loop contract does not list are poisoned (reading them before they are assigned again is out of the subset)"""
        listed = set(spec.get('modifies', [])) | set(spec.get('modifies_sets', [])) | set(spec.get('modifies_dicts', []))
        for v in spec.get('modifies', []):
            ph_.env[v] = IntV(fresh(v))
        for v in spec.get('modifies_sets', []):
            ph_.env[v] = SetV(fresh(v + '_has', ArraySort(I, B)))
            self.refresh_ne(ph_.env[v], ph_)
        for v in spec.get('modifies_dicts', []):
            old = ph_.env.get(v)
            if isinstance(old, DictV):
                nd = DictV(fresh(v + '_has', old.has.sort()), fresh(v + '_val', old.val.sort()), old.vkind, old.kkind)
                ph_.pc.append(self.ne_axiom(nd))
                ph_.env[v] = nd
        for v in self.loop_writes(st) - listed:
            if v in ph_.env and not isinstance(ph_.env[v], (MgrV, ObjV)):
                ph_.env[v] = PoisonV(v, st.lineno)

    def loop_spec(self, st):
        if not hasattr(self, '_loop_ids'):
            self._loop_ids = {}
            for n in ast.walk(self.fn):
                if isinstance(n, (ast.While, ast.For)):
                    self._loop_ids[id(n)] = (n.lineno, n.col_offset)
            order = sorted(set(self._loop_ids.values()))
            self._loop_ids = {k_: order.index(v_) for k_, v_ in self._loop_ids.items()}
        k = self._loop_ids[id(st)]
        spec = self.c.loops.get(k)
        if spec is None:
            raise Unsupported(f'loop #{k}@{st.lineno} has no invariant in the contract')
        return k, spec

    def st_While(self, st, p):
        k, spec = self.loop_spec(st)
        ctx0 = Ctx(mgrs=p.mgrs, env0=dict(p.env), env=p.env, uses=self.c.uses, ex=self, path=p, entry=self.entry_mgrs)
        for nm, g in spec['inv'](ctx0):
            self.oblige(p, f'loop{k}-inv-init:{nm}@{st.lineno}', g, st.lineno)
        entry_env = dict(p.env)
        ph_ = p.fork()
        self.havoc_loop_locals(st, spec, ph_)
        for key, fields in spec.get('modifies_mgr', []):
            ph_.mgrs[key] = State(base=ph_.mgrs[key], modifies=fields)
        ctxh = Ctx(mgrs=ph_.mgrs, env0=entry_env, env=ph_.env, uses=self.c.uses, ex=self, path=ph_, entry=self.entry_mgrs)
        for _, g in spec['inv'](ctxh):
            ph_.pc.append(g)
        out = []
        cond = truth(self.ev(st.test, ph_))
        pb = ph_.fork(cond)
        for q in self.run_block(st.body, [pb]):
            if q.status in ('run', 'continue'):
                q.status = 'run'
                ctxq = Ctx(mgrs=q.mgrs, env0=entry_env, env=q.env, uses=self.c.uses, ex=self, path=q, entry=self.entry_mgrs)
                for nm, g in spec['inv'](ctxq):
                    self.oblige(q, f'loop{k}-inv-preserved:{nm}@{st.lineno}', g, st.lineno)
                if 'variant' in spec:
                    self.oblige(q, f'loop{k}-variant-decreases@{st.lineno}',
                                And(spec['variant'](ctxq) < spec['variant'](ctxh), spec['variant'](ctxh) >= 0), st.lineno)
            elif q.status == 'break':
                q.status = 'run'
                out.append(q)
            else:
                out.append(q)
        pe = ph_.fork(Not(cond))
        out.extend(self.run_block(st.orelse, [pe]))
        return out

    def st_For(self, st, p):
        it = st.iter
        if isinstance(it, ast.Call) and isinstance(it.func, ast.Attribute) and it.func.attr == 'items' and not it.args:
            # iteration over the items of a dict that is provably empty on this path: the loop does not run
            try:
                dv = self.ev(it.func.value, p)
            except Unsupported:
                dv = None
            if isinstance(dv, DictV):
                from z3 import Solver, unsat, Const as _C
                kq = _C(f'k!empty{next(M._cnt)}', dv.has.sort().domain())
                sv = Solver()
                sv.set('timeout', 3000)
                sv.add(*p.pc)
                sv.add(dv.has[kq])
                if sv.check() == unsat:
                    return [p]
        k, spec = self.loop_spec(st)
        if isinstance(it, ast.Call) and isinstance(it.func, ast.Name) and it.func.id == 'range' and len(it.args) == 3:
            # range(a, b, d) with d = +1 or -1 (obligation): the k-th element is a + k*d, for k below the distance
            a_, b_, d_ = [zint(self.ev(x, p), self, p) for x in it.args]
            self.oblige(p, f'range-step-is-plus-or-minus-one@{st.lineno}', Or(d_ == 1, d_ == -1), st.lineno)
            dist = If(d_ > 0, b_ - a_, a_ - b_)
            lo_, hi_ = IntVal(0), If(dist > 0, dist, IntVal(0))
            elem = lambda iv: IntV(a_ + If(d_ > 0, iv, -iv))  # noqa
        elif isinstance(it, ast.Call) and isinstance(it.func, ast.Name) and it.func.id == 'range' and len(it.args) in (1, 2):
            bnds = [zint(self.ev(a, p), self, p) for a in it.args]
            lo_, hi_ = (IntVal(0), bnds[0]) if len(bnds) == 1 else bnds
            elem = lambda iv: IntV(iv)  # noqa
        else:
            seq = self.ev(it, p)
            if isinstance(seq, SetV) and seq.kkind in ('int', 'name') and isinstance(it, (ast.Name, ast.Attribute)):
                itname = ast.unparse(it)
                for n_ in ast.walk(ast.Module(body=st.body, type_ignores=[])):
                    if isinstance(n_, (ast.Name, ast.Attribute)) and ast.unparse(n_) == itname:
                        raise Unsupported(f'loop body mentions the iterated set {itname}@{st.lineno}')
                seq = self.enumerate_set(seq, p)
                p.env['%enum:' + itname] = seq
            items_of = None
            if isinstance(seq, ObjV) and seq.cls == 'items' and isinstance(it, ast.Call) and isinstance(it.func.value, ast.Name):
                # `for k, v in d.items()`: the keys in some order, each once; the dict must not change in the body
                items_of = seq.attrs['d']
                dname = it.func.value.id
                for n_ in ast.walk(ast.Module(body=st.body, type_ignores=[])):
                    if isinstance(n_, ast.Name) and n_.id == dname and isinstance(n_.ctx, ast.Store):
                        raise Unsupported(f'loop body assigns the iterated dict {dname}@{st.lineno}')
                seq = self.enumerate_set(items_of, p)
                p.env['%enum:' + dname] = seq
            if not isinstance(seq, ListV):
                raise Unsupported(f'for over {ast.unparse(it)}@{st.lineno}')
            lo_, hi_ = IntVal(0), seq.n
            elem = (lambda iv: NameV(seq.arr[iv])) if seq.elem == 'name' else (lambda iv: IntV(seq.arr[iv]))
            if items_of is not None:
                key_of = elem
                elem = lambda iv: TupV([key_of(iv), self.dict_val(items_of, seq.arr[iv])])  # noqa
        if st.orelse or not (isinstance(st.target, ast.Name) or (isinstance(st.target, ast.Tuple) and all(isinstance(x, ast.Name) for x in st.target.elts))):
            raise Unsupported(f'for target/else@{st.lineno}')
        var = st.target.id if isinstance(st.target, ast.Name) else None
        entry_env = dict(p.env)
        ctx0 = Ctx(mgrs=p.mgrs, env0=entry_env, env=p.env, idx=lo_, lo=lo_, hi=hi_, uses=self.c.uses, ex=self, path=p, entry=self.entry_mgrs)
        for nm, g in spec['inv'](ctx0):
            self.oblige(p, f'loop{k}-inv-init:{nm}@{st.lineno}', g, st.lineno)
        out = []
        # arbitrary iteration from a havocked state satisfying the invariant
        iv = fresh('idx')
        ph_ = p.fork()
        self.havoc_loop_locals(st, spec, ph_)
        for mk in spec.get('modifies_mgr', []):
            key, fields = mk
            ph_.mgrs[key] = State(base=ph_.mgrs[key], modifies=fields)
        ctxh = Ctx(mgrs=ph_.mgrs, env0=entry_env, env=ph_.env, idx=iv, lo=lo_, hi=hi_, uses=self.c.uses, ex=self, path=ph_, entry=self.entry_mgrs)
        inv_h = [g for _, g in spec['inv'](ctxh)]
        pb = ph_.fork(And(lo_ <= iv, iv < hi_, *inv_h))
        if var is not None:
            pb.env[var] = elem(iv)
        else:
            self.assign(st.target, elem(iv), pb, st.lineno)
        for q in self.run_block(st.body, [pb]):
            if q.status in ('run', 'continue'):
                ctxq = Ctx(mgrs=q.mgrs, env0=entry_env, env=q.env, idx=iv + 1, lo=lo_, hi=hi_, uses=self.c.uses, ex=self, path=q, entry=self.entry_mgrs)
                for nm, g in spec['inv'](ctxq):
                    self.oblige(q, f'loop{k}-inv-preserved:{nm}@{st.lineno}', g, st.lineno)
            elif q.status == 'break':
                q.status = 'run'        # leaves the loop at once with the state it has (no invariant is claimed for this exit)
                out.append(q)
            else:
                out.append(q)
        # exit after all iterations (or none)
        pe = ph_.fork()
        ivx = fresh('idx')
        ctxe = Ctx(mgrs=pe.mgrs, env0=entry_env, env=pe.env, idx=ivx, lo=lo_, hi=hi_, uses=self.c.uses, ex=self, path=pe, entry=self.entry_mgrs)
        pe.pc.append(And(ivx == If(hi_ >= lo_, hi_, lo_), *[g for _, g in spec['inv'](ctxe)]))
        out.append(pe)
        return out

    # ---- with: context managers are inlined (enter / body / exit with exception suppression) ------------------
    def st_With(self, st, p):
        """context managers of the repository are inlined: the real bodies of __init__/__enter__/__exit__ are executed
        (they are small and loop-free; they are also verified separately against explicit contracts)."""
        if len(st.items) != 1 or st.items[0].optional_vars is not None:
            raise Unsupported('with: several items / as')
        call = st.items[0].context_expr
        if not (isinstance(call, ast.Call) and isinstance(call.func, ast.Name)):
            raise Unsupported('with: expression')
        cls = f'{self.module}.{call.func.id}'
        obj = ObjV(cls, {})
        args = [self.ev(a, p) for a in call.args]
        sides = list(self.side_paths)
        self.side_paths = []
        cur = [q for q, _ in self.inline(f'{cls}.__init__', obj, args, p)]
        cur = [q for q0 in cur for q, _ in self.inline(f'{cls}.__enter__', obj, [], q0)]
        body = self.run_block(st.body, cur)
        out = []
        for q in body:
            if q.status == 'raise':
                exc, ln, frm = q.exc, q.line, getattr(q, 'exc_from', None)
                q.status = 'run'
                for q2, sw in self.inline(f'{cls}.__exit__', obj, [ExcClassV(exc), NONE(), NONE()], q):
                    t = simplify(truth(sw))
                    if is_true(t):
                        q2.exc = None
                        out.append(q2)
                    elif is_false(t):
                        q2.status, q2.exc, q2.line, q2.exc_from = 'raise', exc, ln, frm
                        out.append(q2)
                    else:
                        qa = q2.fork(t)
                        qa.exc = None
                        qb = q2.fork(Not(t))
                        qb.status, qb.exc, qb.line, qb.exc_from = 'raise', exc, ln, frm
                        out += [qa, qb]
            else:
                st_, val = q.status, q.value
                q.status = 'run'
                for q2, _ in self.inline(f'{cls}.__exit__', obj, [NONE(), NONE(), NONE()], q):
                    q2.status, q2.value = st_, val
                    out.append(q2)
        self.side_paths = sides
        return out

    def inline(self, qual, recv, args, p):
        """execute the real body of a small method on path p; returns [(path, return value)]"""
        if self.finder is None:
            raise Unsupported(f'inline {qual}: no source finder')
        try:
            fn = self.finder(qual)[0]
        except KeyError:
            raise Unsupported(f'inline {qual}: not found')
        params = [a.arg for a in fn.args.args]
        if len(params) != 1 + len(args):
            raise Unsupported(f'inline {qual}: arity')
        saved = p.env
        p.env = {params[0]: recv}
        p.env.update(zip(params[1:], args))
        body = fn.body
        if body and isinstance(body[0], ast.Expr) and isinstance(body[0].value, ast.Constant):
            body = body[1:]
        self.inlined.add(qual)
        res = self.run_block(body, [p])
        out = []
        for q in res:
            if q.status in ('return', 'run'):
                val = q.value if q.status == 'return' and q.value is not None else NONE()
                q.status, q.value = 'run', None
                q.env = dict(saved)
                out.append((q, val))
            else:
                raise Unsupported(f'inline {qual}: raises')
        return out

    def st_Try(self, st, p):
        if st.orelse:
            raise Unsupported(f'try/else@{st.lineno}')
        sides = list(self.side_paths)
        self.side_paths = []
        body = self.run_block(st.body, [p])
        self.side_paths = sides
        out = []
        for q in body:
            if q.status == 'raise' and st.handlers:
                handled = False
                for h in st.handlers:
                    names = [] if h.type is None else ([ast.unparse(x).split('.')[-1] for x in h.type.elts]
                                                       if isinstance(h.type, ast.Tuple) else [ast.unparse(h.type).split('.')[-1]])
                    if h.type is None or q.exc in names or 'Exception' in names:
                        if h.name:
                            raise Unsupported(f'except ... as@{st.lineno}')
                        q.status, q.exc = 'run', None
                        out += self.run_block(h.body, [q])
                        handled = True
                        break
                if not handled:
                    out.append(q)
            else:
                out.append(q)
        if st.finalbody:
            fin = []
            for q in out:
                saved = (q.status, q.value, q.exc, q.line, getattr(q, 'exc_from', None))
                q.status = 'run'
                for r in self.run_block(st.finalbody, [q]):
                    if r.status == 'run':
                        r.status, r.value, r.exc, r.line, r.exc_from = saved
                    fin.append(r)
            out = fin
        return out

    def st_FunctionDef(self, st, p):
        p.env[st.name] = ObjV('closure', dict(node=st))
        return [p]
