"""Abstract model shared by all contracts (DESIGN.md section 2): SMT view of a dd.bdd.BDD manager, the
representation invariant WF split into named clauses, the ghost families, and the frame relation Ext.

Everything here is mathematics about the model; nothing here mentions the code under verification.
"""
import itertools

from z3 import (And, Array, ArraySort, BoolSort, BoolVal, Const, Datatype, DeclareSort, ForAll, Function, If, Implies,
                Int, IntSort, IntVal, MultiPattern, Not, Or, Select, Store)

I, B = IntSort(), BoolSort()
Fork = Datatype('Fork')
Fork.declare('mk', ('l', I), ('lo', I), ('hi', I))
Fork = Fork.create()
Name = DeclareSort('Name')

_cnt = itertools.count()


def fresh(name, sort=I):
    return Const(f'{name}!{next(_cnt)}', sort)


def _is_abs(x):
    import z3
    try:
        return (z3.is_app_of(x, z3.Z3_OP_ITE) and z3.is_app_of(x.arg(0), z3.Z3_OP_GE) and x.arg(0).arg(0).eq(x.arg(1))
                and z3.is_int_value(x.arg(0).arg(1)) and x.arg(0).arg(1).as_long() == 0)
    except Exception:  # noqa
        return False


def absz(x):
    import z3
    if z3.is_int_value(x):
        return IntVal(abs(x.as_long()))
    if _is_abs(x):
        return x          # abs(abs(x)) is abs(x): keep one index term per node (E-matching)
    return If(x >= 0, x, -x)


def min2(a, b):
    return If(a <= b, a, b)


# ---- global ghost parameters (one arbitrary instance each; contracts bind them in their preconditions) --------
A = Array('A', I, B)        # the arbitrary assignment, level view (AL of DESIGN 2.3)
A2 = Array('A2', I, B)      # second assignment term
A3 = Array('A3', I, B)      # third assignment term
AN = Array('AN', Name, B)   # the arbitrary assignment over variable *names*
Q = Array('Q', I, B)        # quantified level set of family QE
HL = Int('HL')              # level parameter of family HASLVL
P2 = Function('P2', I, I)    # powers of two (uninterpreted; P2(0) = 1, P2(k+1) = 2 P2(k) where needed)
MUL = Function('MUL', I, I, I)   # product of two non-constant terms in proof obligations (sound abstraction: only congruence is used)
CONCRETE = False                  # set by the cross-check on real executions: products are real products there


def mul(a, b):
    import z3
    if CONCRETE or z3.is_int_value(a) or z3.is_int_value(b):
        return a * b
    return MUL(a, b)


RT = Int('RT')              # target node of family REACH (rt[x]: node RT is reachable from node x, reflexive)

# node-indexed fields: name -> (domain, range)
NODE_FIELDS = dict(dom=(I, B), lvl=(I, I), lo=(I, I), hi=(I, I), ref=(I, I), indeg=(I, I), ext=(I, I),
                   sem=(I, B), sem2=(I, B), sem3=(I, B), sem1=(I, B), qex=(I, B), qfa=(I, B), hl=(I, B), rt=(I, B))
TABLE_FIELDS = dict(ph=(Fork, B), pv=(Fork, I), ch=(Fork, B), cv=(Fork, I))
ORDER_FIELDS = dict(vin=(Name, B), v2l=(Name, I), lin=(I, B), l2v=(I, Name))
FIELDS = dict(**NODE_FIELDS, **TABLE_FIELDS, **ORDER_FIELDS)
SCALARS = dict(minfree=I, nvars=I, lastlen=I, ctx=B, maxnodes=I, nsucc=I)
GHOST_NODE = ['sem', 'sem2', 'sem3', 'sem1', 'qex', 'qfa', 'hl', 'rt', 'indeg', 'ext']
ALLF = list(FIELDS) + list(SCALARS)


class State:
    """Symbolic state of one manager. Immutable arrays; assignment of attributes = update."""

    def __init__(self, tag=None, base=None, modifies=None):
        tag = tag if tag is not None else f's{next(_cnt)}'
        self.tag = tag
        for f, (d, r) in FIELDS.items():
            setattr(self, f, Array(f'{f}_{tag}', d, r) if base is None or f in modifies else getattr(base, f))
        for f, srt in SCALARS.items():
            setattr(self, f, Const(f'{f}_{tag}', srt) if base is None or f in modifies else getattr(base, f))

    def copy(self):
        t = State.__new__(State)
        t.__dict__.update(self.__dict__)
        return t


def semr(S, x, which='sem'):
    arr = getattr(S, which)
    return If(x > 0, arr[absz(x)], Not(arr[absz(x)]))


def qexr(S, x):
    """existential closure read through a signed reference: QEx(-x) = not qfa[x]"""
    return If(x > 0, S.qex[absz(x)], Not(S.qfa[absz(x)]))


def qfar(S, x):
    return If(x > 0, S.qfa[absz(x)], Not(S.qex[absz(x)]))


def isref(S, x):
    return And(x != 0, S.dom[absz(x)])


def lv(S, x):
    return S.lvl[absz(x)]


_u, _k = Int('u_'), Int('k_')
_t = Const('t_', Fork)
_n = Const('n_', Name)


def fork_of(S, u):
    return Fork.mk(S.lvl[u], S.lo[u], S.hi[u])


ASSIGN_OF = dict(sem=A, sem2=A2, sem3=A3)


def WF(S, uses=None):
    """Named clauses of the invariant. `uses` selects ghost families (None = all)."""
    u, k, t, n = _u, _k, _t, _n
    allf = uses is None
    uses = set(uses or ())

    def node(f):
        return ForAll([u], Implies(And(S.dom[u], u > 1), f(u)), patterns=[S.dom[u]])
    c = {
        'W1-terminal': And(S.nvars >= 0, S.dom[1], S.lvl[1] == S.nvars, S.lo[1] == 0, S.hi[1] == 0),
        'enc-lastlen': S.lastlen >= -1,     # encoding of `_last_len`: None is -1
        'W2-ids': ForAll([u], Implies(S.dom[u], u >= 1), patterns=[S.dom[u]]),
        'W3-level-range': node(lambda x: And(0 <= S.lvl[x], S.lvl[x] < S.nvars)),
        'W3-high-regular': node(lambda x: And(S.hi[x] > 0, S.dom[S.hi[x]])),
        'W3-low-ref': node(lambda x: And(S.lo[x] != 0, S.dom[absz(S.lo[x])])),
        'W3-reduced': node(lambda x: S.lo[x] != S.hi[x]),
        'W3-ordered': node(lambda x: And(S.lvl[x] < S.lvl[absz(S.lo[x])], S.lvl[x] < S.lvl[S.hi[x]])),
        'W4-pred-of-succ': ForAll([u], Implies(S.dom[u], And(S.ph[fork_of(S, u)], S.pv[fork_of(S, u)] == u)),
                                  patterns=[S.dom[u]]),
        'W4-succ-of-pred': ForAll([t], Implies(S.ph[t], And(S.dom[S.pv[t]], S.lvl[S.pv[t]] == Fork.l(t),
                                                            S.lo[S.pv[t]] == Fork.lo(t), S.hi[S.pv[t]] == Fork.hi(t))),
                                  patterns=[S.ph[t]]),
        'W5-minfree': And(S.minfree >= 2, Not(S.dom[S.minfree]),
                          ForAll([k], Implies(And(1 <= k, k < S.minfree), S.dom[k]), patterns=[S.dom[k]])),
    }
    if allf or 'rc' in uses:
        c['W6-RC'] = ForAll([u], Implies(S.dom[u], And(S.ext[u] >= 0, S.indeg[u] >= 0,
                                                       S.ref[u] == S.indeg[u] + S.ext[u])), patterns=[S.dom[u]])
    if allf or 'cache' in uses:
        c['W7-cache'] = ForAll([t], Implies(S.ch[t], And(
            isref(S, Fork.l(t)), absz(Fork.l(t)) > 1, isref(S, Fork.lo(t)), isref(S, Fork.hi(t)), isref(S, S.cv[t]),
            semr(S, S.cv[t]) == If(semr(S, Fork.l(t)), semr(S, Fork.lo(t)), semr(S, Fork.hi(t))),
            lv(S, S.cv[t]) >= min2(lv(S, Fork.l(t)), min2(lv(S, Fork.lo(t)), lv(S, Fork.hi(t)))))),
            patterns=[S.ch[t]])
        if allf or 'sem1' in uses:
            c['W7-cache-ones'] = ForAll([t], Implies(S.ch[t], semr(S, S.cv[t], 'sem1') == If(
                semr(S, Fork.l(t), 'sem1'), semr(S, Fork.lo(t), 'sem1'), semr(S, Fork.hi(t), 'sem1'))),
                patterns=[S.ch[t]])
    for fam, arr in (('sem', A), ('sem2', A2), ('sem3', A3)):
        if allf or fam in uses or fam == 'sem':
            sa = getattr(S, fam)
            c[f'W9-SEM[{fam}]'] = And(sa[1], node(
                lambda x, sa=sa, fam=fam, arr=arr: sa[x] == If(arr[S.lvl[x]], semr(S, S.hi[x], fam), semr(S, S.lo[x], fam))))
    for fam, arr in (('sem2', A2), ('sem3', A3)):
        if allf or ('agree:' + fam) in uses:
            sa = getattr(S, fam)
            c[f'AGREE[sem,{fam}]'] = ForAll([u], Implies(
                And(S.dom[u], ForAll([k], Implies(k >= S.lvl[u], A[k] == arr[k]))), S.sem[u] == sa[u]), patterns=[S.dom[u]])
    if allf or 'sem1' in uses:
        c['ONES'] = ForAll([u], Implies(S.dom[u], S.sem1[u]), patterns=[S.dom[u]])
    if allf or 'qe' in uses:
        c['QE-def'] = And(S.qex[1], S.qfa[1], node(lambda x: And(
            S.qex[x] == If(Q[S.lvl[x]], Or(qexr(S, S.lo[x]), qexr(S, S.hi[x])),
                           If(A[S.lvl[x]], qexr(S, S.hi[x]), qexr(S, S.lo[x]))),
            S.qfa[x] == If(Q[S.lvl[x]], And(qfar(S, S.lo[x]), qfar(S, S.hi[x])),
                           If(A[S.lvl[x]], qfar(S, S.hi[x]), qfar(S, S.lo[x]))))))
        c['QABOVE'] = ForAll([u], Implies(
            And(S.dom[u], ForAll([k], Implies(Q[k], k < S.lvl[u]))),
            And(S.qex[u] == S.sem[u], S.qfa[u] == S.sem[u])), patterns=[S.dom[u]])
    if allf or 'hl' in uses:
        c['HASLVL-def'] = And(Not(S.hl[1]), node(lambda x: S.hl[x] == Or(S.lvl[x] == HL, S.hl[absz(S.lo[x])], S.hl[S.hi[x]])))
        c['HASLVL-above'] = ForAll([u], Implies(And(S.dom[u], S.lvl[u] > HL), Not(S.hl[u])), patterns=[S.dom[u]])
        c['HASLVL-range'] = ForAll([u], Implies(And(S.dom[u], S.hl[u]), And(0 <= HL, HL < S.nvars)), patterns=[S.dom[u]])
    if allf or 'rt' in uses:
        c['REACH-def'] = And(S.rt[1] == (RT == 1), node(lambda x: S.rt[x] == Or(x == RT, S.rt[absz(S.lo[x])], S.rt[S.hi[x]])))
    if allf or 'order' in uses:
        c['W8-vars-to-levels'] = ForAll([n], Implies(S.vin[n], And(0 <= S.v2l[n], S.v2l[n] < S.nvars, S.lin[S.v2l[n]],
                                                                   S.l2v[S.v2l[n]] == n)), patterns=[S.vin[n]])
        c['W8-levels-to-vars'] = ForAll([k], Implies(S.lin[k], And(S.vin[S.l2v[k]], S.v2l[S.l2v[k]] == k, 0 <= k,
                                                                   k < S.nvars)), patterns=[S.lin[k]])
        c['W8c-contiguous'] = ForAll([k], Implies(And(0 <= k, k < S.nvars), S.lin[k]), patterns=[S.lin[k]])
    return c


def WFall(S, uses=None):
    return And(*WF(S, uses).values())


def ghost_fields(uses):
    """node-indexed ghost arrays whose entries Ext must preserve, for a family selection."""
    out = ['sem']
    uses = set(uses or ())
    for f in ('sem2', 'sem3', 'sem1'):
        if f in uses:
            out.append(f)
    if 'qe' in uses:
        out += ['qex', 'qfa']
    if 'hl' in uses:
        out.append('hl')
    if 'rt' in uses:
        out.append('rt')
    if 'rc' in uses:
        out.append('ext')
    return out


def Ext(a, b, uses=None):
    """b extends a: every node of a is in b unchanged (shape, denotations, external count); new nodes ext = 0."""
    u = _u
    fields = ['lvl', 'lo', 'hi'] + (ghost_fields(uses) if uses is not None else
                                    ['sem', 'sem2', 'sem3', 'sem1', 'qex', 'qfa', 'hl', 'rt', 'ext'])
    same = [getattr(b, f)[u] == getattr(a, f)[u] for f in fields if getattr(b, f) is not getattr(a, f)]
    cl = [b.nvars == a.nvars]
    if b.dom is not a.dom or same:
        cl.append(ForAll([u], Implies(a.dom[u], And(b.dom[u], *same)), patterns=[a.dom[u]]))
    if (uses is None or 'rc' in uses) and b.dom is not a.dom:
        cl.append(ForAll([u], Implies(And(b.dom[u], Not(a.dom[u])), b.ext[u] == 0), patterns=[b.dom[u]]))
    return And(*cl)


def keep(a, b, fields=None):
    """no field changes (or only the named fields are compared)."""
    fs = fields or ALLF
    return And(*[BoolVal(True) if getattr(b, f) is getattr(a, f) else getattr(b, f) == getattr(a, f) for f in fs])


NODE_MOD = ['dom', 'lvl', 'lo', 'hi', 'ref', 'indeg', 'ext', 'sem', 'sem2', 'sem3', 'sem1', 'qex', 'qfa', 'hl', 'rt',
            'ph', 'pv', 'minfree', 'nsucc']
