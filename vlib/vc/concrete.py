"""Cross-check of the sidecar contracts against real executions (CPython), and search for a real failing input.

The *same* contract objects that the VC generator uses (vlib/vc/contracts_*.py) are evaluated on concrete states:

  1. a real `dd.bdd.BDD` manager is built from a seed, real arguments are chosen;
  2. the entry state is turned into a `State` whose stored fields (`dom, lvl, lo, hi, ref, ph, pv, ch, cv, vin, ...`) are concrete
     arrays; ghost fields (`sem*, qex, qfa, hl, rt`) and ghost parameters (`A, A2, A3, Q, HL, RT`) stay unknowns;
  3. z3 solves the precondition for the unknowns (the ghost is *defined* by the invariant clauses, so this is a finite
     unrolling); an input whose precondition is unsatisfiable is outside the contract and discarded;
  4. the real function is called on the real manager;
  5. the exit state is made concrete in the same way, the entry ghost is pinned to the values found in 3, and z3 decides
     whether ghost values for the exit state exist that satisfy every postcondition clause (or the `when`/post of the
     `raises` clause if the call raised).  `unsat` = the contract is violated by this real execution: the clause is named
     through an unsat core and the input is written to a replay file (seed + arguments: deterministic).

Uses: (a) on the unchanged tree every run must end with zero violations (cross-check of the contracts and of the VC
generator: a contract that the real code does not satisfy, or a vacuous precondition, shows up here); (b) after a source
change that makes a proof obligation fail, this search tries to turn `no-failing-input-found` into a replayable input.
It is a bounded stand-in (random inputs, small managers) and never counted as proof."""
import copy
import os
import random
import sys
import time
import traceback

import z3
from z3 import And, BoolVal, If, IntVal, K, Not, Or, Solver, Store, sat, unknown, unsat

from vlib.vc import model as M
from vlib.vc.model import A, A2, A3, Fork, HL, Q, RT, State
from vlib.vc.symex import Ctx, DictV, SetV, ListV

I, B = M.I, M.B
NAMES = ['a', 'b', 'c', 'd', 'e', 'f']
NAMEZ = {nm: z3.Const('nm!' + nm, M.Name) for nm in NAMES + ['zz', 'yy']}
TIMEOUT = int(os.environ.get('VERIF_CONCRETE_TIMEOUT_MS', '10000'))


def arr(pairs, dsort, default):
    a = K(dsort, default)
    for k, v in pairs:
        a = Store(a, k, v)
    return a


def fk(t):
    i, v, w = t
    return Fork.mk(IntVal(i), IntVal(v if v is not None else 0), IntVal(w if w is not None else 0))


def conc_state(b, tag):
    """State with the stored fields of the real manager `b` as concrete arrays; ghost fields stay symbolic."""
    S = State(tag)
    succ = dict(b._succ)
    iv = IntVal
    S.dom = arr([(iv(u), BoolVal(True)) for u in succ], I, BoolVal(False))
    S.lvl = arr([(iv(u), iv(t[0])) for u, t in succ.items()], I, iv(0))
    S.lo = arr([(iv(u), iv(t[1] or 0)) for u, t in succ.items()], I, iv(0))
    S.hi = arr([(iv(u), iv(t[2] or 0)) for u, t in succ.items()], I, iv(0))
    S.ref = arr([(iv(u), iv(b._ref.get(u, -999))) for u in succ], I, iv(0))
    indeg = {}
    for u, (i, v, w) in succ.items():
        if v is not None:
            indeg[abs(v)] = indeg.get(abs(v), 0) + 1
            indeg[abs(w)] = indeg.get(abs(w), 0) + 1
    S.indeg = arr([(iv(u), iv(indeg.get(u, 0))) for u in succ], I, iv(0))
    # ext: ghost (number of external references); left symbolic - W6 and Ext determine it
    S.ph = arr([(fk(t), BoolVal(True)) for t in b._pred], Fork, BoolVal(False))
    S.pv = arr([(fk(t), iv(u)) for t, u in b._pred.items()], Fork, iv(0))
    S.ch = arr([(fk(t), BoolVal(True)) for t in b._ite_table], Fork, BoolVal(False))
    S.cv = arr([(fk(t), iv(u)) for t, u in b._ite_table.items()], Fork, iv(0))
    nm0 = NAMEZ['zz']
    S.vin = arr([(NAMEZ[n], BoolVal(True)) for n in b.vars], M.Name, BoolVal(False))
    S.v2l = arr([(NAMEZ[n], iv(l)) for n, l in b.vars.items()], M.Name, iv(-1))
    S.lin = arr([(iv(l), BoolVal(True)) for l in b._level_to_var], I, BoolVal(False))
    S.l2v = arr([(iv(l), NAMEZ[n]) for l, n in b._level_to_var.items()], I, nm0)
    S.minfree = iv(b._min_free)
    S.nvars = iv(len(b.vars))
    S.lastlen = iv(-1 if b._last_len is None else b._last_len)
    S.ctx = BoolVal(bool(b._reordering_context))
    S.maxnodes = iv(min(b.max_nodes, 10 ** 15))
    S.nsucc = iv(len(succ))
    return S


GHOST_ARRAYS = ['sem', 'sem2', 'sem3', 'sem1', 'qex', 'qfa', 'hl', 'rt', 'ext']
STORED = [f for f in M.ALLF if f not in GHOST_ARRAYS]


def pins(S, model, nodes, levels, free=()):
    """equalities fixing the ghost of state S (at the stored nodes) and the ghost parameters (at the levels in use) to the
    values of `model`"""
    out = []
    ev = lambda t: model.eval(t, model_completion=True)  # noqa
    for f in GHOST_ARRAYS:
        a = getattr(S, f)
        for u in nodes:
            out.append(a[u] == ev(a[u]))
    for nm, P in (('A', A), ('A2', A2), ('A3', A3), ('Q', Q)):
        if nm in free:
            continue        # defined by the postcondition of this contract (e.g. the assignment re-indexed by the new order)
        for l in levels:
            out.append(P[l] == ev(P[l]))
    out += [HL == ev(HL), RT == ev(RT)]
    return out


class Case:
    """one concrete execution: manager factory, function, arguments (python values) and how they appear to the contract"""

    def __init__(self, contract, seed, build, call, zargs, describe, ret=None, muts=None, mgrs=None, managers=None, primary='self', extra=None):
        self.contract, self.seed = contract, seed
        self.build, self.call, self.zargs, self.describe = build, call, zargs, describe
        self.ret, self.muts_fn, self.mgrs_fn = ret, muts, mgrs
        self.extra = extra      # env, entry states -> further constraints (e.g. a frozen ghost heap equal to the entry state)
        self.managers, self.primary = managers, primary      # several managers: env -> {key: manager}; key of the contract's own


def z_of_result(c, r):
    """python result -> what contract posts see as c.r"""
    kind = c.ret
    if kind == 'int':
        return IntVal(r)
    if kind == 'bool':
        return BoolVal(bool(r))
    if kind in ('none', 'opaque'):
        return None
    if kind in ('pair', 'triple'):
        return tuple(IntVal(x if x is not None else 0) for x in r)
    if kind == 'name':
        return NAMEZ[r]
    if kind == 'set:int':
        return SetV(arr([(IntVal(x), BoolVal(True)) for x in r], I, BoolVal(False)))
    if kind == 'set:name':
        return SetV(arr([(NAMEZ[x], BoolVal(True)) for x in r], M.Name, BoolVal(False)), 'name')
    if kind == 'dict:int->int':
        from vlib.vc.symex import DictV
        v = DictV(arr([(IntVal(k), BoolVal(True)) for k in r], I, BoolVal(False)), arr([(IntVal(k), IntVal(x)) for k, x in r.items()], I, IntVal(0)),
                  'int', 'int', ne=BoolVal(bool(r)))
        v._len = IntVal(len(r))
        return v
    raise NotImplementedError(kind)


def solve(clauses, extra=(), timeout=TIMEOUT, track=False):
    s = Solver()
    s.set('timeout', timeout)
    for e in extra:
        s.add(e)
    if track:
        for i, (nm, g) in enumerate(clauses):
            s.assert_and_track(g, z3.Bool(f'cl!{i}!{nm}'))
    else:
        for nm, g in clauses:
            s.add(g)
    r = s.check()
    return r, s


def run_case(REG, case, rnd):
    """returns dict(status=ok|skipped|violation|inconclusive|crash, ...)"""
    c = REG[case.contract]
    env = case.build(rnd)                     # dict: 'b' manager, plus whatever the case needs
    # the manager's own shutdown check (references left at interpreter exit) is not the subject here
    type(env['b']).__del__ = lambda self: None
    return _run_case(REG, case, rnd, env)


def _run_case(REG, case, rnd, env):
    M.CONCRETE = True          # products are real products when contracts are evaluated on concrete states
    c = REG[case.contract]
    objs = case.managers(env) if case.managers else {'self': env['b']}
    b = objs[case.primary]
    states0 = {k: conc_state(m_, 'c0' + k) for k, m_ in objs.items()}
    S0 = states0[case.primary]
    import inspect
    a0 = case.zargs(env, states0) if len(inspect.signature(case.zargs).parameters) == 2 else case.zargs(env)
    a = Ctx(**a0)
    mgrs = dict(states0)
    if not case.managers:
        mgrs['bdd'] = S0
    ctx0 = Ctx(S=S0, S0=S0, a=a, mgrs=mgrs, mgrs0=mgrs, uses=c.uses, ex=None, path=None)
    distinct = [z3.Distinct(*NAMEZ.values())]
    nodes = sorted({u for m_ in objs.values() for u in m_._succ})
    nodes = [IntVal(u) for u in nodes]
    levels = [IntVal(l) for l in range(max(len(m_.vars) for m_ in objs.values()) + 2)]
    try:
        pre = list(c.pre(ctx0))
    except Exception:  # noqa
        return dict(status='crash', where='pre', detail=traceback.format_exc()[-800:])
    # random hints for the free ghost parameters (dropped when they contradict the precondition)
    s = Solver()
    s.set('timeout', TIMEOUT)
    if case.extra:
        distinct = distinct + list(case.extra(env, states0))
    s.add(*distinct)
    s.add(*[g for _, g in pre])
    r = s.check()
    if r == unsat:
        return dict(status='skipped', why='precondition unsatisfiable for this input')
    if r == unknown:
        return dict(status='inconclusive', where='pre', detail=s.reason_unknown())
    nvars0, node_ids = len(b.vars), sorted(b._succ, reverse=True)
    free = getattr(M, 'REG_FREE_GHOST', {}).get(case.contract, ())
    exhaustive = case.contract in getattr(M, 'REG_ALL_ASSIGNMENTS', ()) and nvars0 <= 4

    def ghost_instance(rep=0):
        """one instance of the free ghost parameters (random hints, dropped when they contradict the precondition) together with
        the entry ghost that the invariant then determines"""
        depth = 0
        try:
            for P in (A, A2, A3, Q):
                if P is A and exhaustive:
                    hint = And(*[A[IntVal(l)] == BoolVal(bool((rep >> l) & 1)) for l in range(nvars0)])    # every assignment in turn
                else:
                    hint = And(*[P[l] == BoolVal(rnd.random() < .5) for l in levels])
                s.push()
                depth += 1
                s.add(hint)
                if s.check() != sat:
                    s.pop()
                    depth -= 1
            for P, vals in ((HL, list(range(nvars0))), (RT, node_ids)):
                s.push()
                depth += 1
                s.add(P == (vals[rep % len(vals)] if vals else 0))     # every level / node in turn
                if s.check() != sat:
                    s.pop()
                    depth -= 1
            if s.check() != sat:
                return None
            mdl = s.model()
            out = []
            for Sk in states0.values():
                out += pins(Sk, mdl, nodes, levels, free)
            return out
        finally:
            for _ in range(depth):
                s.pop()
    # --- the real call
    b_before = None
    exc = None
    try:
        result = case.call(env)
    except Exception as e:  # noqa
        exc = e
        result = None
    states1 = {k: conc_state(m_, 'c1' + k) for k, m_ in objs.items()}
    S1 = states1[case.primary]
    mgrs1 = dict(states1)
    if not case.managers:
        mgrs1['bdd'] = S1
    muts = case.muts_fn(env, a0) if case.muts_fn else {}
    if exc is None:
        try:
            rz = z_of_result(c, result) if case.ret is None else case.ret(env, result)
            pctx = Ctx(S=S1, S0=S0, S1=S1, a=a, r=rz, mgrs0=mgrs, mgrs=mgrs1, uses=c.uses, muts=muts, ex=None, path=None, own=True)
            post = list(c.post(pctx))
        except Exception:  # noqa
            return dict(status='crash', where='post', detail=traceback.format_exc()[-800:])
        for ename, rs in c.raises.items():
            if rs.must:
                post.append((f'raises:{ename}.only-normal-return-when-not', Not(rs.when(ctx0))))
        what = 'returned ' + repr(result)[:80]
        for k in objs:
            if k != case.primary:
                post.append((f'frame:{k}-manager-untouched', M.keep(states0[k], states1[k], STORED)))
    else:
        ename = type(exc).__name__
        if ename not in c.raises:
            from vlib.vc.run import _refusal_clause
            alt = _refusal_clause(c, ename)
            if alt is None:
                return dict(status='violation', clause=f'undeclared-raise:{ename}', what=repr(exc)[:200], input=case.describe(env))
            ename = alt       # an ordinary exception of another class: judged by the contract's clause for refusals
        rs = c.raises[ename]
        post = [(f'raises:{ename}.when', rs.when(ctx0))]
        ectx = Ctx(S=S0, S0=S0, S1=S1, a=a, mgrs0=mgrs, mgrs=mgrs1, uses=c.uses, muts=muts, ex=None, path=None)
        if rs.post is not None:
            post += [(f'raises:{ename}.{nm}', g) for nm, g in rs.post(ectx)]
        else:
            post.append((f'raises:{ename}.state-unchanged', And(*[M.keep(mgrs[k], mgrs1[k]) for k in mgrs])))
        what = 'raised ' + repr(exc)[:80]
    reps = int(os.environ.get('VERIF_CONCRETE_REPS', '3'))
    if c.uses is not None and 'rt' in c.uses:
        reps = max(reps, min(12, len(node_ids)))
    if c.uses is not None and 'hl' in c.uses:
        reps = max(reps, min(12, nvars0))
    if exhaustive:
        reps = 2 ** nvars0
    inconclusive = 0
    for rep in range(reps):
        fixed = ghost_instance(rep)
        if fixed is None:
            inconclusive += 1
            continue
        r, s2 = solve(post, extra=distinct + fixed + [g for _, g in pre], track=True)
        if r == sat:
            continue
        if r == unknown:
            inconclusive += 1
            continue
        core = [str(x).split('!', 2)[2] for x in s2.unsat_core()]
        # name the violation by the clauses that are specific to this contract (invariant clauses in the core are context)
        generic = ('W1', 'W2', 'W3', 'W4', 'W5', 'W6', 'W7', 'W8', 'W9', 'Ext', 'AGREE', 'ONES', 'QE-', 'QABOVE', 'HASLVL', 'REACH', 'enc-')
        specific = [x for x in core if not x.startswith(generic) and not x.startswith('WF[')]
        return dict(status='violation', clause=','.join(sorted(specific or core)) or 'post', core=sorted(core), what=what,
                    input=case.describe(env))
    if inconclusive == reps:
        return dict(status='inconclusive', where='post')
    return dict(status='ok', what=what, instances=reps - inconclusive)
