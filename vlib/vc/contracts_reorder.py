"""Observed contracts of the reordering primitives (C07): NOT used by any proof (the bodies of swap / reorder are outside the VC
generator, DESIGN 12.2) - they state, in the language of the model, what the ASSUMED contract of `reorder()` abbreviates, and are
evaluated on real executions by the cross-check (vlib/vc/concrete.py). Ghost: `A` is the arbitrary assignment by level before the
call, `A2` the same assignment of the *variables* re-indexed by the levels after the call; `sem` / `sem2` are the denotations under
them, so `sem2 after = sem before` says that every surviving node denotes the same function of the variables."""
from z3 import And, BoolVal, ForAll, If, Implies, Not, Or

from vlib.vc import model as M
from vlib.vc.model import A, A2, isref  # noqa
from vlib.vc.symex import Contract, Raise, DictV
from vlib.vc.contracts_bdd import REG, reg, wf, l_, n_, x_  # noqa

U0 = {'rc', 'cache', 'order'}
U1 = {'rc', 'cache', 'order', 'sem2'}


def kept(S0, S1):
    # (an unreferenced node may be collected and its number re-used: the claims are about externally referenced nodes)
    held = And(S0.dom[x_], S0.ext[x_] >= 1)
    return [('held-nodes-survive', ForAll([x_], Implies(held, S1.dom[x_]), patterns=[S0.dom[x_]])),
            ('denotation-kept', ForAll([x_], Implies(held, S1.sem2[x_] == S0.sem[x_]), patterns=[S0.dom[x_]])),
            ('identity-and-external-count-kept', ForAll([x_], Implies(held, S1.ext[x_] == S0.ext[x_]), patterns=[S0.dom[x_]])),
            ('new-nodes-unheld', ForAll([x_], Implies(And(S1.dom[x_], Not(S0.dom[x_])), S1.ext[x_] == 0), patterns=[S1.dom[x_]])),
            ('same-variables', ForAll([n_], S1.vin[n_] == S0.vin[n_], patterns=[S1.vin[n_]])),
            ('switches-kept', And(S1.lastlen == S0.lastlen, S1.ctx == S0.ctx, S1.nvars == S0.nvars))]


def swap_bad(c):
    S, a = c.S0, c.a
    inr = lambda l: And(0 <= l, l < S.nvars)  # noqa
    return Or(Not(inr(a.x)), Not(inr(a.y)), And(a.x - a.y != 1, a.y - a.x != 1))


def swap_post(c):
    S0, S1, a = c.S0, c.S1, c.a
    lx, ly = a.x, a.y
    return wf(S1, U1) + [
        ('A2-is-A-with-the-two-levels-exchanged', ForAll([l_], A2[l_] == If(l_ == lx, A[ly], If(l_ == ly, A[lx], A[l_])), patterns=[A2[l_]])),
        ('levels-exchanged', And(S1.l2v[lx] == S0.l2v[ly], S1.l2v[ly] == S0.l2v[lx],
                                 ForAll([l_], Implies(And(l_ != lx, l_ != ly), And(S1.lin[l_] == S0.lin[l_], S1.l2v[l_] == S0.l2v[l_])),
                                        patterns=[S1.lin[l_]]))),
        ('computed-table-empty', ForAll([M._t], Not(S1.ch[M._t]), patterns=[S1.ch[M._t]])),
        ('sizes', And(c.r[0] <= S0.nsucc, c.r[1] == S1.nsucc))] + kept(S0, S1)


reg(Contract('dd.bdd.BDD.swap!observed', [('self', 'mgr'), ('x', 'int'), ('y', 'int'), ('all_levels', 'none')],
             pre=lambda c: wf(c.S, U0), post=swap_post, modifies=M.ALLF, ret='pair', uses=U1,
             raises={'ValueError': Raise(when=swap_bad, must=True, post=lambda c: wf(c.S1, U0) + [
                 # (swap collects garbage before it looks at its arguments: unreferenced nodes may be gone, nothing else changes)
                 ('held-nodes-intact', ForAll([x_], Implies(And(c.S0.dom[x_], c.S0.ext[x_] >= 1),
                                                            And(c.S1.dom[x_], c.S1.sem[x_] == c.S0.sem[x_], c.S1.ext[x_] == c.S0.ext[x_])),
                                              patterns=[c.S0.dom[x_]])),
                 ('order-and-switches-kept', And(M.keep(c.S0, c.S1, list(M.ORDER_FIELDS)), c.S1.lastlen == c.S0.lastlen, c.S1.ctx == c.S0.ctx,
                                                 c.S1.nvars == c.S0.nvars))])}, assumed=True,
             note='observed contract (cross-checked on real executions; not used by proofs)'))
M.REG_FREE_GHOST = getattr(M, 'REG_FREE_GHOST', {})
M.REG_FREE_GHOST['dd.bdd.BDD.swap!observed'] = {'A2'}


def reorder_post(c):
    S0, S1, a = c.S0, c.S1, c.a
    out = wf(S1, U1) + [
        ('A2-is-A-by-variable-name', ForAll([l_], Implies(S1.lin[l_], A2[l_] == A[S0.v2l[S1.l2v[l_]]]), patterns=[S1.lin[l_]]))] + kept(S0, S1)
    if isinstance(a.order, DictV):
        out.append(('requested-order', ForAll([n_], Implies(a.order.has[n_], S1.v2l[n_] == a.order.val[n_]), patterns=[a.order.has[n_]])))
    else:
        out.append(('sifting-does-not-grow', S1.nsucc <= S0.nsucc))
    return out


reg(Contract('dd.bdd.reorder!observed', [('bdd', 'mgr'), ('order', 'any')], mgr='bdd',
             pre=lambda c: wf(c.S, U0) + ([('order-is-a-permutation-of-the-levels', And(
                 ForAll([n_], c.a.order.has[n_] == c.S.vin[n_], patterns=[c.a.order.has[n_]]),
                 ForAll([l_], Implies(c.S.lin[l_], And(c.a.order.has[c.a.order_inv[l_]], c.a.order.val[c.a.order_inv[l_]] == l_)),
                        patterns=[c.S.lin[l_]])))] if isinstance(c.a.order, DictV) else []),
             post=reorder_post, modifies=M.ALLF, ret='none', uses=U1, assumed=True,
             note='observed contract (cross-checked on real executions; not used by proofs): what the ASSUMED contract of reorder() abbreviates'))
M.REG_FREE_GHOST['dd.bdd.reorder!observed'] = {'A2'}


# ---------------------------------------------------------------------------------------------------------------------
# undeclare_vars (C14): observed contract (its body rebuilds the tables by comprehensions: outside the VC generator)
from z3 import Exists, Int  # noqa: E402

_u2 = Int('u!und')
n2_ = M.Const('n2!und', M.Name)


def level_in_use(S, l):
    return Exists([_u2], And(S.dom[_u2], _u2 > 1, S.lvl[_u2] == l))


def und_bad(c):
    S, a = c.S0, c.a
    return Exists([n_], And(a.vrs.has[n_], Or(Not(S.vin[n_]), level_in_use(S, S.v2l[n_]))))


def und_post(c):
    S0, S1, a, r = c.S0, c.S1, c.a, c.r
    none_named = Not(a.vrs._ne)
    removed = lambda nm: If(none_named, And(S0.vin[nm], Not(level_in_use(S0, S0.v2l[nm]))), a.vrs.has[nm])  # noqa
    return wf(S1, U1) + [
        ('returns-the-removed-names', ForAll([n_], r.has[n_] == removed(n_), patterns=[r.has[n_]])),
        ('exactly-those-are-undeclared', ForAll([n_], S1.vin[n_] == And(S0.vin[n_], Not(removed(n_))), patterns=[S1.vin[n_]])),
        ('relative-order-kept', ForAll([n_, n2_], Implies(And(S1.vin[n_], S1.vin[n2_]), (S0.v2l[n_] < S0.v2l[n2_]) == (S1.v2l[n_] < S1.v2l[n2_])),
                                       patterns=[M.MultiPattern(S1.vin[n_], S1.vin[n2_])])),
        ('A2-is-A-by-variable-name', ForAll([l_], Implies(S1.lin[l_], A2[l_] == A[S0.v2l[S1.l2v[l_]]]), patterns=[S1.lin[l_]])),
        ('nodes-kept', And(S1.dom == S0.dom, S1.lo == S0.lo, S1.hi == S0.hi, S1.ref == S0.ref)),
        ('nodes-keep-their-variable', ForAll([x_], Implies(And(S0.dom[x_], x_ > 1), And(S1.vin[S0.l2v[S0.lvl[x_]]], S1.lvl[x_] == S1.v2l[S0.l2v[S0.lvl[x_]]])),
                                             patterns=[S0.dom[x_]])),
        ('denotation-kept', ForAll([x_], Implies(S0.dom[x_], S1.sem2[x_] == S0.sem[x_]), patterns=[S0.dom[x_]])),
        ('external-counts-kept', ForAll([x_], Implies(S0.dom[x_], S1.ext[x_] == S0.ext[x_]), patterns=[S0.dom[x_]])),
        ('computed-table-empty', ForAll([M._t], Not(S1.ch[M._t]), patterns=[S1.ch[M._t]])),
        ('switches-kept', And(S1.lastlen == S0.lastlen, S1.ctx == S0.ctx))]


reg(Contract('dd.bdd.BDD.undeclare_vars!observed', [('self', 'mgr'), ('vrs', 'set:name')],
             pre=lambda c: wf(c.S, U0), post=und_post, modifies=M.ALLF, ret='set:name', uses=U1,
             raises={'ValueError': Raise(when=und_bad, must=True)}, assumed=True,
             note='observed contract (cross-checked on real executions; not used by proofs)'))
M.REG_FREE_GHOST['dd.bdd.BDD.undeclare_vars!observed'] = {'A2'}


# ---------------------------------------------------------------------------------------------------------------------
# pick_iter / pick / cube (C10, C01): observed contracts. The result of pick_iter is a finite list of assignments (dicts name ->
# bool); the clauses are built per element (the list is concrete when the contract is evaluated on a real execution).
from vlib.vc.model import semr  # noqa: E402


def consistent(S, d):
    """the arbitrary assignment A agrees with the (partial) assignment d on every variable d mentions"""
    return ForAll([n_], Implies(d.has[n_], And(S.vin[n_], A[S.v2l[n_]] == d.val[n_])), patterns=[d.has[n_]])


def pick_iter_post(c):
    S, a, rs = c.S0, c.a, c.r          # rs: python list of DictV
    care = a.care_vars
    out = [('state-unchanged', M.keep(S, c.S1))]
    for k, d in enumerate(rs):
        out.append((f'assignment[{k}]-satisfies-u-however-completed', Implies(consistent(S, d), semr(S, a.u))))
        out.append((f'assignment[{k}]-mentions-every-care-variable', ForAll([n_], Implies(care.has[n_], d.has[n_]), patterns=[care.has[n_]])))
    for k1 in range(len(rs)):
        for k2 in range(k1 + 1, len(rs)):
            out.append((f'assignments[{k1},{k2}]-do-not-overlap', Not(And(consistent(S, rs[k1]), consistent(S, rs[k2])))))
    out.append(('assignments-cover-the-models', Implies(semr(S, a.u), Or(*[consistent(S, d) for d in rs]) if rs else BoolVal(False))))
    return out


reg(Contract('dd.bdd.BDD.pick_iter!observed', [('self', 'mgr'), ('u', 'int'), ('care_vars', 'set:name')],
             pre=lambda c: wf(c.S, {'order'}) + [('ref', isref(c.S, c.a.u)),
                                                ('care-variables-declared', ForAll([n_], Implies(c.a.care_vars.has[n_], c.S.vin[n_]),
                                                                                  patterns=[c.a.care_vars.has[n_]]))],
             post=pick_iter_post, ret='list-of-assignments', uses={'order'}, assumed=True,
             note='observed contract (cross-checked on real executions; not used by proofs); care_vars is the support when omitted'))


def cube_post(c):
    S0, S1, a, r = c.S0, c.S1, c.a, c.r
    d = a.dvars
    return wf(S1, {'rc', 'cache', 'order'}) + [
        ('conjunction-of-literals', And(isref(S1, r), semr(S1, r) == ForAll([n_], Implies(d.has[n_], A[S0.v2l[n_]] == d.val[n_]), patterns=[d.has[n_]]))),
        ('existing-nodes-kept', M.Ext(S0, S1, {'cache', 'order'}))]


reg(Contract('dd.bdd.BDD.cube!observed', [('self', 'mgr'), ('dvars', 'dict:name->bool')],
             pre=lambda c: wf(c.S, {'rc', 'cache', 'order'}) + [('quiet', c.S.lastlen < 0),
                                                               ('declared', ForAll([n_], Implies(c.a.dvars.has[n_], c.S.vin[n_]), patterns=[c.a.dvars.has[n_]]))],
             post=cube_post, modifies=M.ALLF, ret='int', uses={'rc', 'cache', 'order'}, assumed=True,
             note='observed contract (cross-checked on real executions; not used by proofs)'))
M.REG_ALL_ASSIGNMENTS = {'dd.bdd.BDD.pick_iter!observed', 'dd.bdd.BDD.cube!observed'}    # judged under every assignment (<= 4 variables)


def pick_post(c):
    S, a, r = c.S0, c.a, c.r           # r: None or a DictV
    out = [('state-unchanged', M.keep(S, c.S1))]
    if r is None:
        out.append(('None-only-for-the-unsatisfiable-function', Not(semr(S, a.u))))
    else:
        out.append(('assignment-satisfies-u-however-completed', Implies(consistent(S, r), semr(S, a.u))))
        out.append(('assignment-mentions-every-care-variable', ForAll([n_], Implies(a.care_vars.has[n_], r.has[n_]), patterns=[a.care_vars.has[n_]])))
    return out


reg(Contract('dd.bdd.BDD.pick!observed', REG['dd.bdd.BDD.pick_iter!observed'].params if False else [('self', 'mgr'), ('u', 'int'), ('care_vars', 'set:name')],
             pre=lambda c: wf(c.S, {'order'}) + [('ref', isref(c.S, c.a.u)),
                                                ('care-variables-declared', ForAll([n_], Implies(c.a.care_vars.has[n_], c.S.vin[n_]),
                                                                                  patterns=[c.a.care_vars.has[n_]]))],
             post=pick_post, ret='optional-assignment', uses={'order'}, assumed=True,
             note='observed contract (cross-checked on real executions; not used by proofs)'))
M.REG_ALL_ASSIGNMENTS.add('dd.bdd.BDD.pick!observed')


# ---------------------------------------------------------------------------------------------------------------------
# image / preimage wrappers (C13): observed contracts over the ghost relational product of `_image` (contracts_bdd.py). The level
# maps `umap` / `vmap` are ghost arguments: the renaming read through the variable order of the entry state.
def _img_wrapper(direction):
    from vlib.vc import contracts_bdd as CB

    def pre(c):
        S, a = c.S, c.a
        return wf(S, {'rc', 'cache', 'order'}) + [
            ('refs', And(isref(S, a.trans), isref(S, a.other))), ('entry-heap-is-the-entry-state', CB.Ext(CB.EI, S, {'cache', 'rc'})),
            ('Q-is-the-levels-of-qvars', And(
                ForAll([n_], Implies(a.qvars.has[n_], And(S.vin[n_], CB.Q[S.v2l[n_]])), patterns=[a.qvars.has[n_]]),
                ForAll([l_], Implies(CB.Q[l_], And(S.lin[l_], a.qvars.has[S.l2v[l_]])), patterns=[CB.Q[l_]])))] + \
            [(nm, g) for nm, g in CB.img_axioms(CB.EI, a) if nm != 'unfold-everywhere'] + [('unfold-everywhere', ForAll(
                [CB.u2_, CB.v2_], CB.UNF(CB.u2_, CB.v2_), patterns=[CB.UNF(CB.u2_, CB.v2_)]))]

    def post(c):
        S0, S1, a, r = c.S0, c.S1, c.a, c.r
        return wf(S1, {'rc', 'cache', 'order'}) + [
            ('relational-product', And(isref(S1, r), semr(S1, r) == CB.img_val(a, a.trans, a.other))),
            ('existing-nodes-kept', CB.Ext(S0, S1, {'cache', 'rc'})), ('order-kept', M.keep(S0, S1, list(M.ORDER_FIELDS))),
            ('switches-kept', And(S1.lastlen == S0.lastlen, S1.ctx == S0.ctx))]
    reg(Contract(f'dd.bdd.{direction}!observed', [('trans', 'int'), ('other', 'int'), ('rename', 'any'), ('qvars', 'set:name'), ('bdd', 'mgr'),
                                                   ('forall', 'bool')], mgr='bdd', pre=pre, post=post, modifies=M.ALLF, ret='int',
                 uses={'rc', 'cache', 'order'}, assumed=True,
                 note='observed contract (cross-checked on real executions; not used by proofs); inputs satisfy the documented preconditions'))


_img_wrapper('image')
_img_wrapper('preimage')
