"""Sidecar contracts for dd/autoref.py (C08 per-operation ledger, C18 accessors).

A `Function` handle is an object with fields node / bdd / manager. The ledger is the ghost `ext` of the wrapped manager:
`Function.__init__` takes one *external* reference (ref and ext +1), `__del__` gives it back once. Every method that
returns handles has the postcondition "ext changed by exactly +1 per returned handle" (`ledger`), on top of the wrapped
manager's own contract; on exceptional exits the state is unchanged. Preconditions state the validity of the handles
passed in (`live`): a handle of this manager points to a node and holds one of its external references.
"""
from z3 import And, BoolVal, ForAll, If, Implies, Int, Not, Or, Store, Sum

from vlib.vc.model import *  # noqa
from vlib.vc import model as M
from vlib.vc.symex import BoolV, Contract, IntV, MgrV, NameV, ObjV, Raise, is_none, truth
from vlib.vc.contracts_bdd import REG, reg, wf, guard, nr_post, n_, x_, spec_connective, CLASS_OF, aoa_bad, qfar, qexr, q_is_levels_of  # noqa

MKEY = lambda bound: 'm'  # noqa
AU = {'rc', 'cache'}
F = 'dd.autoref.Function.'
AB = 'dd.autoref.BDD.'


def same(c, name):
    return getattr(c.a, name + '_obj').attrs['bdd'].ident == c.a.self.ident


def live(c, name):
    """validity of a handle argument (kind invariant)"""
    node = getattr(c.a, name)
    return (f'live-handle:{name}', Implies(same(c, name), And(isref(c.S, node), c.S.ext[absz(node)] >= 1)))


def ledger(S0, S1, plus):
    """external counts: old nodes keep theirs, new nodes start at 0, +1 per returned handle"""
    extra = lambda x: Sum([If(x == absz(n), 1, 0) for n in plus]) if plus else 0  # noqa
    return ForAll([x_], Implies(S1.dom[x_], S1.ext[x_] == If(S0.dom[x_], S0.ext[x_], 0) + extra(x_)), patterns=[S1.dom[x_]])


def bump(S0, S1, node, d):
    k = absz(node)
    return And(S1.ref == Store(S0.ref, k, S0.ref[k] + d), S1.ext == Store(S0.ext, k, S0.ext[k] + d))


# ---- manager-side contracts of external reference operations --------------------------------------------------------
reg(Contract('dd.bdd.BDD.incref!external', [('self', 'mgr'), ('u', 'int')],
             pre=lambda c: [('ref', isref(c.S, c.a.u))], post=lambda c: [('count', bump(c.S0, c.S1, c.a.u, 1))],
             modifies=['ref', 'ext'], ret='none',
             note='incref called by a handle: the reference is an external one (ghost ext +1); same code as BDD.incref'))
REG['dd.bdd.BDD.incref!external'].ghost = lambda c: {'ext': Store(c.S.ext, absz(c.a.u), c.S.ext[absz(c.a.u)] + 1)}
reg(Contract('dd.bdd.BDD.decref!external', [('self', 'mgr'), ('u', 'int')],
             pre=lambda c: [('ref', isref(c.S, c.a.u)), ('holder-has-a-reference', And(c.S.ext[absz(c.a.u)] >= 1, c.S.ref[absz(c.a.u)] >= 1))],
             post=lambda c: [('count', bump(c.S0, c.S1, c.a.u, -1))], modifies=['ref', 'ext'], ret='none',
             note='decref called by a handle that holds a reference: ref and ghost ext -1; same code as BDD.decref'))
REG['dd.bdd.BDD.decref!external'].ghost = lambda c: {'ext': Store(c.S.ext, absz(c.a.u), c.S.ext[absz(c.a.u)] - 1)}


# ---- Function.__init__ / __del__ -----------------------------------------------------------------------------------------
def _self(c):
    return c.path.env['self']


def init_post(c):
    out = [('takes-one-external-reference', bump(c.S0, c.S1, c.a.node, 1))]
    o = _self(c) if getattr(c, 'own', False) else None
    if o is not None:
        out.append(('fields', And(o.attrs['node'].z == c.a.node, BoolVal(isinstance(o.attrs.get('manager'), MgrV)))))
    return out


FINIT = reg(Contract(F + '__init__', [('self', 'obj:dd.autoref.Function'), ('node', 'int'), ('bdd', 'abdd')], mgr=MKEY,
                     pre=lambda c: wf(c.S, c.uses), post=init_post, modifies=['ref', 'ext'], ret='none', uses=AU,
                     raises={'ValueError': Raise(when=lambda c: Not(c.S0.dom[absz(c.a.node)]), must=True)}))


def _finit_return(bound, ret):
    o = bound['self']
    o.attrs.update(node=bound['node'], bdd=bound['bdd'], manager=bound['bdd'].attrs['_bdd'])


FINIT.on_return = _finit_return


def del_pre(c):
    o = c.a.self_obj
    rel = is_none(o.attrs['node'])
    return wf(c.S, c.uses) + [('live-unless-released', Implies(Not(rel), And(isref(c.S, c.a.self), c.S.ext[absz(c.a.self)] >= 1)))]


def del_post(c):
    rel0 = z3.Bool('self_released')
    node0 = z3.Int('self_node')
    out = [('already-released-does-nothing', Implies(rel0, M.keep(c.S0, c.S1))),
           ('gives-back-exactly-one', Implies(Not(rel0), bump(c.S0, c.S1, node0, -1)))]
    if getattr(c, 'own', False):
        out.append(('marked-released', is_none(_self(c).attrs['node'])))
    return out


import z3  # noqa: E402
reg(Contract(F + '__del__', [('self', 'fobj')], mgr=MKEY, pre=del_pre, post=del_post, modifies=['ref', 'ext'], ret='none', uses=AU))


# ---- dd.autoref.BDD helpers ----------------------------------------------------------------------------------------------
reg(Contract(AB + '__contains__', [('self', 'abdd'), ('u', 'handle')], mgr=MKEY, pre=lambda c: [],
             post=lambda c: [('membership', c.r == c.S0.dom[absz(c.a.u)])], ret='bool',
             raises={'ValueError': Raise(when=lambda c: Not(same(c, 'u')), must=True)}))

WRAP = reg(Contract(AB + '_wrap', [('self', 'abdd'), ('u', 'int')], mgr=MKEY,
                    pre=lambda c: wf(c.S, c.uses),
                    post=lambda c: [('handle-of-u', c.r == c.a.u), ('takes-one-external-reference', bump(c.S0, c.S1, c.a.u, 1))],
                    modifies=['ref', 'ext'], ret='handle', uses=AU,
                    raises={'ValueError': Raise(when=lambda c: Not(c.S0.dom[absz(c.a.u)]), must=True)}))


def guarded(g0, clauses):
    return [(nm, Implies(g0, cl)) for nm, cl in clauses]


def control(S0, S1):
    return [('ctx-kept', S1.ctx == S0.ctx), ('reordering-still-enabled', (S1.lastlen >= 0) == (S0.lastlen >= 0))]


def var_post(c):
    S0, S1, r = c.S0, c.S1, c.r
    g0 = guard(S0)
    return guarded(g0, wf(S1, c.uses) + [('denotation', And(isref(S1, r), semr(S1, r) == A[S0.v2l[c.a.var]])),
                                         ('ledger', ledger(S0, S1, [r])), ('Ext', Ext(S0, S1, set(c.uses) - {'rc'}))]) + control(S0, S1)


A_RAISES = {'_NeedsReordering': Raise(when=lambda c: And(c.S0.ctx, c.S0.lastlen >= 0), post=nr_post()),
            'RuntimeError': Raise(when=lambda c: BoolVal(True))}
reg(Contract(AB + 'var', [('self', 'abdd'), ('var', 'name')], mgr=MKEY, pre=lambda c: wf(c.S, c.uses), post=var_post,
             modifies=M.ALLF, ret='handle', uses={'rc', 'cache', 'order', 'sem1'},
             raises=dict(A_RAISES, ValueError=Raise(when=lambda c: Not(c.S0.vin[c.a.var]), must=True))))


def ite_pre(c):
    return wf(c.S, c.uses) + [live(c, 'g'), live(c, 'u'), live(c, 'v')]


def ite_post(c):
    S0, S1, a, r = c.S0, c.S1, c.a, c.r
    g0 = guard(S0)
    return guarded(g0, wf(S1, c.uses) + [('denotation', And(isref(S1, r), semr(S1, r) == If(semr(S0, a.g), semr(S0, a.u), semr(S0, a.v)))),
                                         ('ledger', ledger(S0, S1, [r])), ('Ext', Ext(S0, S1, set(c.uses) - {'rc'}))]) + control(S0, S1)


def foreign_or_dead(c, names):
    return Or(*[Or(Not(same(c, n)), Not(c.S0.dom[absz(getattr(c.a, n))])) for n in names])


reg(Contract(AB + 'ite', [('self', 'abdd'), ('g', 'handle'), ('u', 'handle'), ('v', 'handle')], mgr=MKEY, pre=ite_pre, post=ite_post,
             modifies=M.ALLF, ret='handle', uses={'rc', 'cache', 'sem1'},
             raises=dict(A_RAISES, ValueError=Raise(when=lambda c: foreign_or_dead(c, ['g', 'u', 'v']), must=True))))


# ---- apply (per operator symbol) ----------------------------------------------------------------------------------------
def opt_ok(c, name):
    """an optional handle argument is either absent or a live handle of this manager pointing to a node"""
    return Or(getattr(c.a, name + '_none'), And(same(c, name), c.S0.dom[absz(getattr(c.a, name))]))


def aapply_valid(c):
    a = c.a
    return And(same(c, 'u'), c.S0.dom[absz(a.u)], opt_ok(c, 'v'), opt_ok(c, 'w'), Not(And(a.v_none, Not(a.w_none))),
               Not(aoa_bad(a.op, a.v_none, a.w_none)))


def aapply_pre(c):
    out = wf(c.S, c.uses) + [live(c, 'u')]
    for nm in ('v', 'w'):
        node = getattr(c.a, nm)
        out.append((f'live-handle:{nm}', Implies(And(Not(getattr(c.a, nm + '_none')), same(c, nm)),
                                                 And(isref(c.S, node), c.S.ext[absz(node)] >= 1))))
    if CLASS_OF.get(c.a.op) in ('forall', 'exists'):
        from vlib.vc.contracts_bdd import q_binds_support
        out.append(('Q-is-support-of-first-operand', q_binds_support(c.S, c.a.u)))
    return out


def aapply_post(c):
    S0, S1, a, r = c.S0, c.S1, c.a, c.r
    g0 = guard(S0)
    cls = CLASS_OF[a.op]
    if cls in ('forall', 'exists'):
        want = qfar(S0, a.v) if cls == 'forall' else qexr(S0, a.v)
    else:
        want = spec_connective(cls, semr(S0, a.u), semr(S0, a.v), semr(S0, a.w))
    return guarded(g0, wf(S1, c.uses) + [('connective', And(isref(S1, r), semr(S1, r) == want)), ('ledger', ledger(S0, S1, [r])), ('Ext', Ext(S0, S1, set(c.uses) - {'rc'}))]) \
        + control(S0, S1)


reg(Contract(AB + 'apply', [('self', 'abdd'), ('op', 'op'), ('u', 'handle'), ('v', 'opthandle'), ('w', 'opthandle')], mgr=MKEY,
             pre=aapply_pre, post=aapply_post, modifies=M.ALLF, ret='handle', uses={'rc', 'cache', 'qe', 'order', 'sem1'},
             raises=dict(A_RAISES, ValueError=Raise(when=lambda c: Not(aapply_valid(c)), must=True))))


# ---- quantify / forall / exist -------------------------------------------------------------------------------------------
def aquant_contract(name, params, forall_term):
    def pre(c):
        return wf(c.S, c.uses) + [live(c, 'u')] + q_is_levels_of(c.S, c.a.qvars)

    def post(c):
        S0, S1, a, r = c.S0, c.S1, c.a, c.r
        g0 = guard(S0)
        fa = forall_term(c)
        return guarded(g0, wf(S1, c.uses) + [('closure', And(isref(S1, r), semr(S1, r) == If(fa, qfar(S0, a.u), qexr(S0, a.u)))),
                                             ('ledger', ledger(S0, S1, [r])), ('Ext', Ext(S0, S1, set(c.uses) - {'rc'}))]) + control(S0, S1)
    return reg(Contract(name, params, mgr=MKEY, pre=pre, post=post, modifies=M.ALLF, ret='handle', uses={'rc', 'cache', 'qe', 'order', 'sem1'},
                        raises=dict(A_RAISES, ValueError=Raise(when=lambda c: foreign_or_dead(c, ['u']), must=True))))


aquant_contract(AB + 'quantify', [('self', 'abdd'), ('u', 'handle'), ('qvars', 'set:name'), ('forall', 'bool=False')], lambda c: c.a.forall)
aquant_contract(AB + 'forall', [('self', 'abdd'), ('qvars', 'set:name'), ('u', 'handle')], lambda c: BoolVal(True))
aquant_contract(AB + 'exist', [('self', 'abdd'), ('qvars', 'set:name'), ('u', 'handle')], lambda c: BoolVal(False))


# ---- constants, _add_int, succ ----------------------------------------------------------------------------------------------
for _nm, _val in (('true', 1), ('false', -1)):
    reg(Contract(AB + _nm, [('self', 'abdd')], mgr=MKEY, pre=lambda c: wf(c.S, c.uses),
                 post=lambda c, _v=_val: [('constant', c.r == _v), ('takes-one-external-reference', bump(c.S0, c.S1, IntVal(1), 1))],
                 modifies=['ref', 'ext'], ret='handle', uses=AU))

reg(Contract(AB + '_add_int', [('self', 'abdd'), ('i', 'int')], mgr=MKEY, pre=lambda c: wf(c.S, c.uses),
             post=lambda c: [('handle-of-i', c.r == c.a.i), ('takes-one-external-reference', bump(c.S0, c.S1, c.a.i, 1))],
             modifies=['ref', 'ext'], ret='handle', uses=AU,
             raises={'ValueError': Raise(when=lambda c: Not(c.S0.dom[absz(c.a.i)]), must=True)}))
reg(Contract('dd.bdd.BDD._add_int', [('self', 'mgr'), ('i', 'int')], pre=lambda c: [], post=lambda c: [('identity', c.r == c.a.i)], ret='int',
             raises={'ValueError': Raise(when=lambda c: Not(c.S0.dom[absz(c.a.i)]), must=True)}))


def succ_post(c):
    S0, S1, a = c.S0, c.S1, c.a
    lvl, (lo, lo_none), (hi, hi_none) = c.r
    k = absz(a.u)
    term = k == 1
    return [('level', lvl == S0.lvl[k]),
            ('terminal-has-no-children', Implies(term, And(lo_none, hi_none, M.keep(S0, S1)))),
            ('children', Implies(Not(term), And(Not(lo_none), Not(hi_none), lo == S0.lo[k], hi == S0.hi[k]))),
            ('expansion-reproduces-u', Implies(Not(term), semr(S0, a.u) == If(a.u < 0, Not(If(A[S0.lvl[k]], semr(S0, hi), semr(S0, lo))),
                                                                            If(A[S0.lvl[k]], semr(S0, hi), semr(S0, lo))))),
            ('ledger', Implies(Not(term), ledger(S0, S1, [lo, hi])))]


reg(Contract(AB + 'succ', [('self', 'abdd'), ('u', 'handle')], mgr=MKEY,
             pre=lambda c: wf(c.S, c.uses) + [live(c, 'u'), ('same-manager', same(c, 'u'))], post=succ_post,
             modifies=['ref', 'ext'], ret='fork-of-handles', uses=AU))


# ---- Function accessors and operators (C18, C08) -----------------------------------------------------------------------------
def flive(c):
    """`self` is a live handle"""
    return [('live-handle:self', And(isref(c.S, c.a.self), c.S.ext[absz(c.a.self)] >= 1))]


reg(Contract(F + 'level', [('self', 'fself')], mgr=MKEY, pre=lambda c: wf(c.S, c.uses) + flive(c),
             post=lambda c: [('level', c.r == lv(c.S0, c.a.self))], ret='int', uses=AU))
reg(Contract(F + 'negated', [('self', 'fself')], mgr=MKEY, pre=lambda c: [], post=lambda c: [('sign', c.r == (c.a.self < 0))], ret='bool'))
reg(Contract(F + 'ref', [('self', 'fself')], mgr=MKEY, pre=lambda c: wf(c.S, c.uses) + flive(c),
             post=lambda c: [('count', c.r == c.S0.ref[absz(c.a.self)])], ret='int', uses=AU))
reg(Contract(F + 'var', [('self', 'fself')], mgr=MKEY, pre=lambda c: wf(c.S, c.uses) + flive(c),
             post=lambda c: [('variable-of-the-node', And(c.r[1] == (absz(c.a.self) == 1),
                                                          Implies(Not(c.r[1]), c.r[0] == c.S0.l2v[lv(c.S0, c.a.self)])))],
             ret='optname', uses={'rc', 'cache', 'order'}))


def child_post(which):
    def post(c):
        S0, S1, a = c.S0, c.S1, c.a
        r, rnone = c.r
        k = absz(a.self)
        child = S0.lo[k] if which == 'low' else S0.hi[k]
        return [('none-iff-terminal', rnone == (k == 1)), ('terminal-takes-nothing', Implies(k == 1, M.keep(S0, S1))),
                ('child', Implies(k != 1, And(r == child, bump(S0, S1, child, 1))))]
    return post


for _w in ('low', 'high'):
    reg(Contract(F + _w, [('self', 'fself')], mgr=MKEY, pre=lambda c: wf(c.S, c.uses) + flive(c), post=child_post(_w),
                 modifies=['ref', 'ext'], ret='opthandle', uses=AU))


def fapply_post(c):
    S0, S1, a, r = c.S0, c.S1, c.a, c.r
    g0 = guard(S0)
    cls = CLASS_OF[a.op]
    want = spec_connective(cls, semr(S0, a.self), semr(S0, a.other), None)
    return guarded(g0, wf(S1, c.uses) + [('connective', And(isref(S1, r), semr(S1, r) == want)), ('ledger', ledger(S0, S1, [r])), ('Ext', Ext(S0, S1, set(c.uses) - {'rc'}))]) \
        + control(S0, S1)


def fapply_pre(c):
    out = wf(c.S, c.uses) + flive(c)
    out.append(('live-handle:other', Implies(And(Not(c.a.other_none), same_f(c)), And(isref(c.S, c.a.other), c.S.ext[absz(c.a.other)] >= 1))))
    out.append(('arity', c.a.other_none == BoolVal(CLASS_OF[c.a.op] == 'not')))
    return out


def same_f(c):
    if getattr(c.a, 'other_obj', None) is None:
        return BoolVal(True)
    return c.a.other_obj.attrs['bdd'].ident == c.a.self_obj.attrs['bdd'].ident


FAPPLY = reg(Contract(F + '_apply', [('self', 'fself'), ('op', 'op'), ('other', 'opthandle')], mgr=MKEY, pre=fapply_pre, post=fapply_post,
                      modifies=M.ALLF, ret='handle', uses={'rc', 'cache', 'sem1'},
                      raises=dict(A_RAISES, ValueError=Raise(when=lambda c: And(Not(c.a.other_none), Or(Not(same_f(c)), Not(c.S0.dom[absz(c.a.other)]))),
                                                             must=True))))
FAPPLY.owner = lambda bound: bound['self'].attrs['bdd']
for _m, _op in (('__invert__', 'not'), ('__and__', 'and'), ('__or__', 'or'), ('implies', 'implies'), ('equiv', 'equiv')):
    def _mk(m=_m, op=_op):
        unary = op == 'not'
        params = [('self', 'fself')] + ([] if unary else [('other', 'handle')])

        def conv(c):
            a = type(c.a)(**{**c.a.__dict__})
            a.op = op
            if unary:
                a.other, a.other_none, a.other_obj = IntVal(0), BoolVal(True), None
            else:
                a.other_none = BoolVal(False)
            return type(c)(**{**c.__dict__, 'a': a})
        k = reg(Contract(F + m, params, mgr=MKEY, pre=lambda c: fapply_pre(conv(c)), post=lambda c: fapply_post(conv(c)),
                         modifies=M.ALLF, ret='handle', uses=FAPPLY.uses,
                         raises={e_: Raise(when=(lambda c, rs=rs: rs.when(conv(c))), post=rs.post, must=rs.must) for e_, rs in FAPPLY.raises.items()}))
        k.owner = FAPPLY.owner
    _mk()

reg(Contract(F + '__eq__', [('self', 'fself'), ('other', 'opthandle')], mgr=MKEY, pre=lambda c: [],
             post=lambda c: [('node-equality', c.r == And(Not(c.a.other_none), c.a.self == c.a.other))], ret='bool',
             raises={'ValueError': Raise(when=lambda c: And(Not(c.a.other_none), Not(same_f(c))), must=True)},
             note='equal nodes <=> equal functions is L-CANON (Lean); NotImplementedError for non-Function operands is outside the model'))
reg(Contract(F + '__ne__', [('self', 'fself'), ('other', 'opthandle')], mgr=MKEY, pre=lambda c: [],
             post=lambda c: [('node-inequality', c.r == Or(c.a.other_none, c.a.self != c.a.other))], ret='bool',
             raises={'ValueError': Raise(when=lambda c: And(Not(c.a.other_none), Not(same_f(c))), must=True)}))


# ---- order comparisons (C01): `<=` is validity of the implication, `<` additionally requires different nodes ----------------
def fle_post(strict):
    def post(c):
        S0, a, r = c.S0, c.a, c.r
        g0 = guard(S0)
        out = [('implication-holds-under-the-arbitrary-assignment', Implies(And(g0, r), Implies(semr(S0, a.self), semr(S0, a.other))))]
        if strict:
            out.append(('different-nodes', Implies(r, a.self != a.other)))
        return out + control(S0, c.S1)
    return post


for _m, _strict in (('__le__', False), ('__lt__', True)):
    _k = reg(Contract(F + _m, [('self', 'fself'), ('other', 'handle')], mgr=MKEY,
                      pre=lambda c: wf(c.S, c.uses) + flive(c) + [('same-manager', same_f(c)),
                                                                  ('live-handle:other', And(isref(c.S, c.a.other), c.S.ext[absz(c.a.other)] >= 1)),
                                                                  ('quiet', guard(c.S))],
                      post=fle_post(_strict), modifies=M.ALLF, ret='bool', uses={'rc', 'cache', 'sem1'},
                      raises={'_NeedsReordering': Raise(when=lambda c: And(c.S0.ctx, c.S0.lastlen >= 0), post=lambda c: []),
                              'RuntimeError': Raise(when=lambda c: BoolVal(True)),
                              'ValueError': Raise(when=lambda c: BoolVal(False))},
                      note='temporaries created inside (~self, other | ~self, bdd.true) are released by CPython when the expression has been '
                           'evaluated: the contract makes no claim about counts (the histories of the bounded layer check them)'))
    _k.owner = FAPPLY.owner


# ---- thin wrappers of dd.autoref.BDD: same contract as the wrapped method of dd.bdd.BDD, seen through the handle -----------------
def _delegate(name, target, params, conv=None, **kw):
    """contract of a method that only forwards to `self._bdd.<target>`: pre/post/raises of the target with arguments renamed"""
    t = REG[target]

    def mk(c):
        a = type(c.a)(**{**c.a.__dict__})
        a.self = c.S if getattr(c, 'S', None) is not None else c.a.self
        if conv:
            conv(a)
        return type(c)(**{**c.__dict__, 'a': a})
    k = reg(Contract(name, params, mgr=MKEY, pre=lambda c: t.pre(mk(c)), post=lambda c: t.post(mk(c)), modifies=t.modifies, ret=t.ret,
                     uses=t.uses, raises={e_: Raise(when=(lambda c, rs=rs: rs.when(mk(c))), post=(None if rs.post is None else (lambda c, rs=rs: rs.post(mk(c)))),
                                                    must=rs.must) for e_, rs in t.raises.items()}, **kw))
    return k


_delegate(AB + 'add_var', 'dd.bdd.BDD.add_var', [('self', 'abdd'), ('var', 'name'), ('level', 'optint')])
_delegate(AB + 'var_at_level', 'dd.bdd.BDD.var_at_level', [('self', 'abdd'), ('level', 'int')])
_delegate(AB + 'level_of_var', 'dd.bdd.BDD.level_of_var', [('self', 'abdd'), ('var', 'name')])
_delegate(AB + 'collect_garbage', 'dd.bdd.BDD.collect_garbage', [('self', 'abdd')], conv=lambda a: setattr(a, 'roots', None))


def _node_of(nm):
    def conv(a):
        setattr(a, nm, getattr(a, nm))
    return conv


reg(Contract(AB + 'incref', [('self', 'abdd'), ('u', 'handle')], mgr=MKEY,
             pre=lambda c: [('ref', isref(c.S, c.a.u))], post=lambda c: [('count', bump(c.S0, c.S1, c.a.u, 1))], modifies=['ref', 'ext'], ret='none',
             note='an explicit extra reference taken by the user through the manager: external (+1), to be given back with decref'))
reg(Contract(AB + 'decref', [('self', 'abdd'), ('u', 'handle'), ('kw', 'opaque')], mgr=MKEY,
             pre=lambda c: [('ref', isref(c.S, c.a.u)), ('holder-has-a-reference', And(c.S.ext[absz(c.a.u)] >= 1, c.S.ref[absz(c.a.u)] >= 1))],
             post=lambda c: [('count', bump(c.S0, c.S1, c.a.u, -1))], modifies=['ref', 'ext'], ret='none'))

reg(Contract(AB + 'find_or_add', [('self', 'abdd'), ('var', 'name'), ('low', 'handle'), ('high', 'handle')], mgr=MKEY,
             pre=lambda c: wf(c.S, c.uses) + [live(c, 'low'), live(c, 'high'), ('same-manager', And(same(c, 'low'), same(c, 'high'))),
                                              ('ordered', And(c.S.v2l[c.a.var] < lv(c.S, c.a.low), c.S.v2l[c.a.var] < lv(c.S, c.a.high)))],
             post=lambda c: wf(c.S1, c.uses) + [
                 ('denotation', And(isref(c.S1, c.r), semr(c.S1, c.r) == If(A[c.S0.v2l[c.a.var]], semr(c.S0, c.a.high), semr(c.S0, c.a.low)))),
                 ('ledger', ledger(c.S0, c.S1, [c.r])), ('Ext', Ext(c.S0, c.S1, set(c.uses) - {'rc'})),
                 ('reordering-setting-kept', And(c.S1.lastlen == c.S0.lastlen, c.S1.ctx == c.S0.ctx))],
             modifies=M.ALLF, ret='handle', uses={'rc', 'cache', 'order'},
             raises={'ValueError': Raise(when=lambda c: Or(Not(c.S0.vin[c.a.var]), c.a.low == 0, c.a.high == 0), post=lambda c: [
                 ('reordering-setting-kept', And(c.S1.lastlen == c.S0.lastlen, c.S1.ctx == c.S0.ctx))]),
                 'RuntimeError': Raise(when=lambda c: BoolVal(True))},
             note='requests are suspended around the primitive and restored in `finally` (fix 47be9a0): the signal cannot escape'))


# ---- let (constants / names) and support through the handle ------------------------------------------------------------------
def alet_contract(kind, inner_key):
    inner = REG[inner_key]

    def conv(c):
        a = type(c.a)(**{**c.a.__dict__})
        a.self = c.S
        return type(c)(**{**c.__dict__, 'a': a})

    def pre(c):
        return inner.pre(conv(c)) + [live(c, 'u'), ('same-manager', same(c, 'u'))]

    def post(c):
        from vlib.vc.symex import nonempty
        S0, S1, r = c.S0, c.S1, c.r
        ne = nonempty(c.a.definitions)
        g0 = guard(S0)
        inner_post = [(nm, g) for nm, g in inner.post(conv(c)) if not nm.startswith('empty-definitions') and nm != 'Ext']
        return [('empty-definitions-return-the-same-handle', Implies(Not(ne), And(r == c.a.u, M.keep(S0, S1))))] + \
               [(nm, g) for nm, g in inner_post] + \
               [('ledger', Implies(And(ne, g0), ledger(S0, S1, [r]))),
                ('Ext', Implies(And(ne, g0), Ext(S0, S1, set(inner.uses) - {'rc'})))] + control(S0, S1)
    k = reg(Contract(AB + 'let:' + kind, [('self', 'abdd'), ('definitions', f'dict:name->{kind}'), ('u', 'handle')], mgr=MKEY, pre=pre, post=post,
                     modifies=M.ALLF, ret='handle', uses=set(inner.uses) | {'rc', 'cache'},
                     raises={e_: Raise(when=(lambda c, rs=rs: rs.when(conv(c))), post=rs.post, must=False) for e_, rs in inner.raises.items()}))
    return k


alet_contract('bool', 'dd.bdd.BDD.let:bool')
alet_contract('name', 'dd.bdd.BDD.let:name')


# ---- support through the handle (C10) -----------------------------------------------------------------------------------------
for _flag, _ret in ((False, 'set:name'), (True, 'set:int')):
    _inner = REG['dd.bdd.BDD.support!proved:' + ('levels' if _flag else 'names')]

    def _mk(inner=_inner, flag=_flag, ret=_ret):
        def conv(c):
            a = type(c.a)(**{**c.a.__dict__})
            a.self = c.S
            return type(c)(**{**c.__dict__, 'a': a})
        reg(Contract(AB + 'support:' + ('levels' if flag else 'names'), [('self', 'abdd'), ('u', 'handle'), ('as_levels', 'bool')], mgr=MKEY,
                     pre=lambda c: inner.pre(conv(c)) + [live(c, 'u')], post=lambda c: inner.post(conv(c)), ret=ret, uses=inner.uses,
                     raises={'ValueError': Raise(when=lambda c: Or(Not(same(c, 'u')), Not(c.S0.dom[absz(c.a.u)])), must=True)}))
    _mk()
