"""Sidecar contracts for the grammar actions of dd/_parser.py (C05): each action builds the application it should.

The LALR engine that calls these actions is outside any contract (PLY); what is proved here is only that, *given* the
right-hand side values `p[1..]`, the action stores in `p[0]` the operator application with the operands in the
documented roles. Values are opaque (integer codes); `APP`, `PAIR`, `SINGLETON`, `APPEND` are uninterpreted constructors.
"""
from z3 import And, BoolVal, If, IntVal

from vlib.vc.model import *  # noqa
from vlib.vc.symex import APP, APPEND, PAIR, SINGLETON, Contract, IntV, is_none
from vlib.vc.contracts_bdd import reg

P = 'dd._parser.Parser.'


def _z(c, n):
    return If(getattr(c.a, n + '_none'), 0, getattr(c.a, n))


APPLY = reg(Contract(P + '_apply', [('self', 'obj:dd._parser.Parser'), ('operator', 'int'), ('a', 'optint'), ('b', 'optint'), ('c', 'optint')],
                     mgr='-', pre=lambda c: [], post=lambda c: [], ret='int', assumed=True,
                     note='grammar actions are verified against an abstract `_apply` (uninterpreted constructor APP); the concrete '
                          '_Translator._apply is bounded'))
APPLY.pure = lambda c: IntV(APP(c.a.operator, _z(c, 'a'), _z(c, 'b'), _z(c, 'c')))
for _nm in ('_add_int', '_add_bool', '_add_var'):
    k = reg(Contract(P + _nm, [('self', 'obj:dd._parser.Parser'), ('x', 'int')], mgr='-', pre=lambda c: [], post=lambda c: [], ret='int', assumed=True))
    k.pure = (lambda tag: (lambda c: IntV(APP(IntVal(tag), c.a.x, 0, 0))))({'_add_int': -1, '_add_bool': -2, '_add_var': -3}[_nm])


def action(name, n, want):
    """p has n right-hand-side symbols; afterwards p[0] == want(p)"""
    def post(c):
        arr0 = c.a.p.arr
        arr1 = c.path.env['p'].arr if getattr(c, 'own', False) else None
        g = lambda k: arr0[k]  # noqa
        return [('builds-the-documented-application', arr1[0] == want(g))] if arr1 is not None else []
    return reg(Contract(P + name, [('self', 'obj:dd._parser.Parser'), ('p', 'list:int')], mgr='-',
                        pre=lambda c: [('arity', c.a.p.n == n + 1)], post=post, ret='none'))


action('p_unary', 2, lambda g: APP(g(1), g(2), 0, 0))
action('p_binary', 3, lambda g: APP(g(2), g(1), g(3), 0))
action('p_ternary_conditional', 8, lambda g: APP(g(1), g(3), g(5), g(7)))
action('p_quantifier', 4, lambda g: APP(g(1), g(2), g(4), 0))
action('p_rename', 4, lambda g: APP(g(1), g(2), g(4), 0))
action('p_substitution', 3, lambda g: PAIR(g(3), g(1)))            # `new / old` is stored as (old, new)
action('p_substitutions_end', 1, lambda g: SINGLETON(g(1)))
action('p_substitutions_iter', 3, lambda g: APPEND(g(1), g(3)))
action('p_names_end', 1, lambda g: SINGLETON(g(1)))
action('p_names_iter', 3, lambda g: APPEND(g(1), g(3)))
action('p_paren', 3, lambda g: g(2))
action('p_node', 2, lambda g: g(2))
action('p_bool', 1, lambda g: APP(IntVal(-2), g(1), 0, 0))
action('p_number', 1, lambda g: APP(IntVal(-1), g(1), 0, 0))

TARGETS = [dict(function=P + n) for n in ('p_unary', 'p_binary', 'p_ternary_conditional', 'p_quantifier', 'p_rename', 'p_substitution',
                                          'p_substitutions_end', 'p_substitutions_iter', 'p_names_end', 'p_names_iter', 'p_paren',
                                          'p_node', 'p_bool', 'p_number')]
