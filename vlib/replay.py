"""bin/replay <replay.json>: re-run a recorded failing case against /repo's working tree.
Exit 1 if the contract still fails, 0 if it now holds, 3 on a harness fault."""
import importlib
import json
import os
import sys

ROOT = os.path.dirname(os.path.dirname(os.path.abspath(__file__)))
sys.path.insert(0, ROOT)
REPO = os.environ.setdefault('VERIF_REPO', '/repo')
sys.path.insert(0, REPO)


def main():
    rec = json.load(open(sys.argv[1]))
    if 'obligation' in rec and rec.get('real_input_replay'):
        # a failed proof obligation for which the same run found a real failing input: re-execute that input
        rr = rec['real_input_replay']
        rec = dict(property=rec['property'], mod=rr['mod'], fn=rr['fn'], case=rr['case'])
    if 'obligation' in rec and 'case' not in rec:
        if rec.get('property') == 'C19':
            from vlib.cy import check as cy
            r = cy.run('quick', 0)
            bad = [f for f in r['fails'] if f['obligation'] == rec['obligation'] or f['site'] == rec.get('site')]
            if bad:
                print(f"REPRODUCED property=C19 obligation {bad[0]['obligation']}: {bad[0]['detail']}\n(source-level finding: the extension cannot be built here)")
                return 1
            print('not reproduced: the obligation is discharged on this tree')
            return 0
        from vlib.vc import run as vcrun
        return vcrun.replay_obligation(rec)
    from vlib import harness
    import logging
    import warnings
    logging.disable(logging.CRITICAL)
    warnings.simplefilter('ignore')
    sys.unraisablehook = lambda *a: None
    res = harness.run_cases(rec['mod'], rec['fn'], [rec['case']])
    if res.crashes:
        print('harness fault:', res.crashes[0]['tb'])
        return 3
    if res.fails:
        f = res.fails[0]
        print(f"REPRODUCED property={rec['property']} site={f['site']}\n{f['detail']}")
        return 1
    print('not reproduced: the contract holds on this tree')
    return 0


if __name__ == '__main__':
    sys.exit(main())
