"""C10 bounded stand-in: count, pick, pick_iter, support, is_essential against truth tables."""
import itertools
import random

from vlib.rtc.lib import *  # noqa

RULE = ('every function of 3 variables embedded in a manager with 1-2 extra unused variables placed above/between/below, every '
        'order of the 3 (both signs arise as complements); sampled functions of 4-5 variables; on dd.bdd and dd.autoref: '
        'support == essential variables of the truth table and is_essential agrees for every declared and an undeclared '
        'name; count(u, n) for n = |support| .. |support|+3 equals the model count, default count == models over the '
        'support, ValueError for n < |support|; pick_iter(u, care) for every subset and superset care set: each '
        'assignment satisfies u however completed, mentions every care variable, no two overlap, union == models; '
        'pick is one of them, None iff false; collections between the functions of one manager (node numbers re-used); level-shift histories (lib.shift_history: support / is_essential / count / pick_iter of held functions between undeclarations and declarations of unused variables, swaps and re-use of node numbers). non-trivial: non-constant function; distinct = (truth table, order, extra).')
EXHAUSTIVE = {'quick': False, 'thorough': True}
REQUIRED_COUNTERS = ['support-checked', 'count-checked', 'pick-checked', 'queries-after-collection', 'queries-after-level-shift']
CORE = ['x', 'y', 'z']


def bounds(tier):
    return dict(variables=3, extra_unused_variables='0-2', functions=256, orders=6 if tier == 'thorough' else 2,
                sampled_5var=100 if tier == 'quick' else 2000 * DEEP)


def chunks(tier, seed):
    rnd = random.Random(seed)
    out = []
    layouts = []
    for o in itertools.permutations(CORE):
        for extra in range(3):
            layouts.append((list(o), extra))
    if tier == 'quick':
        layouts = rnd.sample(layouts, 6)
    for o, extra in layouts:
        for part in range(2):
            out.append(('case_all3', [dict(order=o, extra=extra, part=part, seed=seed)]))
    ns = 60 if tier == 'quick' else 600 * DEEP
    for k in range(0, ns, 10):
        out.append(('case_shift', [dict(seed=seed * 4423 + k + i, steps=40) for i in range(10)]))
    n5 = 100 if tier == 'quick' else 2000 * DEEP
    for k in range(0, n5, 20):
        out.append(('case_sampled', [dict(seed=seed * 97 + k, count=20, nvars=4 + (k // 20) % 2)]))
    for k in range(3 if tier == 'quick' else 30):
        out.append(('case_many_variables', [dict(seed=seed * 31 + k, count=20)]))
    return out


def check_function(m, b, names, u, t, res, auto):
    """names: all declared names; t over names."""
    n = len(names)
    F = full(n)
    supp = {names[j] for j in tt_support(t, n)}
    h = m._wrap(u) if auto else u
    got = m.support(h)
    require(set(got) == supp, 'support#post:exactly-essential', lambda: f'tt={t} u={u} order={b.vars}: {got} vs {supp}')
    lv = b.support(u, as_levels=True)
    require(lv == {b.vars[x] for x in supp}, 'support#post:levels', lambda: f'{lv}')
    for x in names + ['undeclared_name']:
        require(bool(b.is_essential(u, x)) == (x in supp), 'is_essential#post', lambda: f'tt={t} u={u} var={x} order={b.vars}')
    res.count('support-checked')
    k = len(supp)
    sidx = sorted(names.index(x) for x in supp)
    # models over the support
    proj = set()
    for a in range(1 << n):
        if (t >> a) & 1:
            proj.add(tuple((a >> j) & 1 for j in sidx))
    c0 = m.count(h)
    require(c0 == len(proj), 'count#post:default', lambda: f'tt={t} u={u} order={b.vars}: {c0} vs {len(proj)}')
    for nn in range(k, k + 4):
        c = m.count(h, nn)
        require(c == len(proj) * 2 ** (nn - k), 'count#post:nvars', lambda: f'tt={t} u={u} n={nn} order={b.vars}: {c} vs {len(proj) * 2 ** (nn - k)}')
    for nn in range(0, k):
        try:
            c = m.count(h, nn)
        except Exception:  # noqa: refused (the property does not fix the exception type)
            continue
        raise Viol('count#raises:nvars-below-support', f'tt={t} n={nn}: returned {c}')
    res.count('count-checked')
    # pick_iter
    cares = [None]
    rest = [x for x in names if x not in supp]
    supl = sorted(supp)
    cares.append(set(supl))
    cares.append(set(names))
    if rest:
        cares.append(set(supl) | {rest[0]})
    if supl:
        cares.append(set(supl[1:]))
        cares.append(set(supl[:1]) | set(rest[:1]))
    cares.append(set())
    for care in cares:
        ms = list(m.pick_iter(h, care_vars=None if care is None else set(care)))
        want_care = supp if care is None else care
        seen = set()
        covered = 0
        for a in ms:
            require(all(isinstance(v, bool) for v in a.values()), 'pick_iter#post:boolean-values', a)
            require(want_care <= set(a), 'pick_iter#post:mentions-care-vars', lambda: f'tt={t} care={care}: {a}')
            require(set(a) <= set(names), 'pick_iter#post:declared-names', a)
            # every completion satisfies u
            mask = F
            for x, v in a.items():
                vm = vmask(names.index(x), n)
                mask &= vm if v else ~vm & F
            require(mask & ~t & F == 0, 'pick_iter#post:satisfies-however-completed', lambda: f'tt={t} u={u} care={care}: {a}')
            require(mask & covered == 0, 'pick_iter#post:no-overlap', lambda: f'tt={t} care={care}: {a}')
            covered |= mask
        require(covered == t, 'pick_iter#post:covers-all-models', lambda: f'tt={t} u={u} care={care} order={b.vars}: {covered}')
        if care is None:
            require(len(ms) == c0, 'pick_iter#post:default-count', lambda: f'tt={t}: {len(ms)} vs {c0}')
            require(all(set(a) == supp for a in ms), 'pick_iter#post:default-over-support', lambda: f'tt={t}: {ms[:2]}')
    p = m.pick(h)
    if t == 0:
        require(p is None, 'pick#post:none-iff-false', p)
    else:
        require(p is not None, 'pick#post:none-iff-false', 'None for satisfiable')
        mask = F
        for x, v in p.items():
            vm = vmask(names.index(x), n)
            mask &= vm if v else ~vm & F
        require(mask & ~t & F == 0 and supp <= set(p), 'pick#post:is-a-model', lambda: f'tt={t}: {p}')
    res.count('pick-checked')


def case_all3(c, res):
    import dd.autoref as A
    extras = ['p', 'q'][:c['extra']]
    rnd = random.Random(c['seed'] + c['extra'])
    order = list(c['order'])
    for e in extras:
        order.insert(rnd.randint(0, len(order)), e)
    names = sorted(order)
    m = A.BDD({nm: k for k, nm in enumerate(order)})
    b = m._bdd
    n = len(names)
    cj = [names.index(x) for x in CORE]
    keys = []
    lo, hi = c['part'] * 128, (c['part'] + 1) * 128
    for t3 in range(lo, hi):
        t = 0
        for k in range(1 << n):
            kk = sum(((k >> cj[i]) & 1) << i for i in range(3))
            if (t3 >> kk) & 1:
                t |= 1 << k
        u = build(b, t, names)
        b.incref(u)
        check_function(m if t3 % 2 else b, b, names, u, t, res, auto=bool(t3 % 2))
        b.decref(u)
        keys.append((t3, tuple(order)))
    wf(b, names)
    res.evals += hi - lo - 1
    return keys


def case_sampled(c, res):
    import dd.autoref as A
    rnd = random.Random(c['seed'])
    names = ['a', 'b', 'c', 'd', 'e'][:c['nvars']]
    o = names[:]
    rnd.shuffle(o)
    m = A.BDD({nm: k for k, nm in enumerate(o)})
    b = m._bdd
    n = len(names)
    keys = []
    for i in range(c['count']):
        t = rnd.getrandbits(1 << n)
        # make some variables inessential
        for j in rnd.sample(range(n), rnd.randint(0, 2)):
            t = cof(t, j, rnd.randint(0, 1), n)
        u = build(b, t, names)
        b.incref(u)
        check_function(m if i % 2 else b, b, names, u, t, res, auto=bool(i % 2))
        b.decref(u)
        if i % 3 != 0:
            # collections in between: node numbers are re-used by the next functions, so anything a query remembered about a
            # number that has been freed would be reported for a different function
            b.collect_garbage()
            res.count('queries-after-collection')
        keys.append((t, tuple(o)))
    res.evals += c['count'] - 1
    return keys


def case_many_variables(c, res):
    """10-14 declared variables; the functions depend on 2-4 of them at scattered levels (both small and >= 8)"""
    import dd.autoref as A
    rnd = random.Random(c['seed'])
    nv = rnd.randint(10, 14)
    allv = [f'v{k}' for k in range(nv)]
    o = allv[:]
    rnd.shuffle(o)
    m = A.BDD({nm: k for k, nm in enumerate(o)})
    b = m._bdd
    keys = []
    for i in range(c['count']):
        k = rnd.randint(2, 4)
        lv = sorted(rnd.sample(range(nv), k))
        if lv[-1] < 8:
            lv[-1] = rnd.randint(8, nv - 1)
        names = sorted({o[l] for l in lv})
        n = len(names)
        t = rnd.getrandbits(1 << n)
        u = build(b, t, names)
        b.incref(u)
        # judge over the small universe `names` plus one name outside the support
        spare = next(x for x in allv if x not in names)
        uni = names + [spare]
        tl = t | (t << (1 << n))
        check_function(m if i % 2 else b, b, uni, u, tl, res, auto=bool(i % 2))
        b.decref(u)
        if i % 3 != 0:
            b.collect_garbage()
        keys.append((tuple(lv), t))
    res.evals += c['count'] - 1
    return keys


def case_shift(c, res):
    """support / is_essential / count / pick_iter of a few held functions while unused variables are undeclared / declared, levels swapped
    and node numbers re-used (lib.shift_history)"""
    keys = []

    def query(m, b, names, held, rnd):
        n = len(names)
        u, t = rnd.choice(held)
        supp = {names[j] for j in tt_support(t, n)}
        auto = rnd.random() < .4
        got = m.support(m._wrap(u)) if auto else b.support(u)
        require(set(got) == supp, 'support#post:exactly-essential',
                lambda: f'after declarations changed: tt={t} u={u} order={dict(b.vars)}: {sorted(got)} vs {sorted(supp)}')
        lv = b.support(u, as_levels=True)
        require(lv == {b.vars[x] for x in supp}, 'support#post:levels', lambda: f'{lv} order={dict(b.vars)}')
        x = rnd.choice(list(b.vars))
        require(bool(b.is_essential(u, x)) == (x in supp), 'is_essential#post', lambda: f'tt={t} u={u} var={x} order={dict(b.vars)}')
        # models over the support
        sidx = sorted(names.index(v) for v in supp)
        proj = set()
        for k in range(1 << n):
            if (t >> k) & 1:
                proj.add(tuple((k >> j) & 1 for j in sidx))
        extra = rnd.randint(0, 2)
        cnt = m.count(m._wrap(u), len(supp) + extra) if auto else (b.count(u, len(supp) + extra) if extra else b.count(u))
        require(cnt == len(proj) << extra, 'count#post:number-of-models',
                lambda: f'after declarations changed: tt={t} u={u} nvars=|support|+{extra} order={dict(b.vars)}: {cnt} vs {len(proj) << extra}')
        seen = set()
        for a in (m.pick_iter(m._wrap(u)) if auto else b.pick_iter(u)):
            require(set(a) == supp, 'pick_iter#post:mentions-exactly-the-support', lambda: f'tt={t} u={u}: {a} vs {sorted(supp)}')
            key = tuple(int(a[names[j]]) for j in sidx)
            require(key in proj and key not in seen, 'pick_iter#post:model-once', lambda: f'tt={t} u={u}: {a}')
            seen.add(key)
        require(len(seen) == len(proj), 'pick_iter#post:all-models', lambda: f'tt={t} u={u}: {len(seen)} of {len(proj)}')
        res.count('queries-after-level-shift')
        keys.append((t, tuple(sorted(b.vars, key=b.vars.get))))
    shift_history(c, res, query)
    return keys
