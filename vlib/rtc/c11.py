"""C11 bounded stand-in: copying between managers preserves the function by variable name."""
import itertools
import random

from vlib.rtc.lib import *  # noqa

RULE = ('every function of 3 variables (sampled at 4-5) x every pair of (source order, target order) incl. non-self-inverse '
        'permutations, targets with extra interleaved variables and pre-existing nodes, sources after reordering (vars dict '
        'order != level order), through BDD.copy, dd.bdd.copy_bdd, dd.autoref.copy_bdd, dd.autoref.BDD.copy, '
        'dd._copy.copy_bdd / copy_bdds_from (shared memo over several roots); checked: truth table by name in the '
        'target, target wf() and canonical (same reference as building there), source untouched (tables identical), '
        'copy_vars reproduces names and levels (fresh targets, targets that already declare the top variables, targets with irreconcilable declarations: refused or reproduced anyway); in the sampled sequences the source (sometimes the target) collects garbage between '
        'copies into the same target, so node numbers of the source are re-used. non-trivial: non-constant and orders differ; distinct = (tt, orders, route).')
EXHAUSTIVE = {'quick': False, 'thorough': False}
REQUIRED_COUNTERS = ['copy-checked', 'copy_vars-checked', 'copies-after-source-collection']
NAMES = ['x', 'y', 'z']


def bounds(tier):
    return dict(variables=3, order_pairs=36 if tier == 'thorough' else 8, sampled_5var=150 if tier == 'quick' else 3000 * DEEP)


def chunks(tier, seed):
    rnd = random.Random(seed)
    perms = list(itertools.permutations(NAMES))
    pairs = list(itertools.product(perms, perms))
    if tier == 'quick':
        pairs = rnd.sample(pairs, 8)
    out = []
    for so, to in pairs:
        out.append(('case_all3', [dict(src=list(so), dst=list(to), extra=e, seed=seed) for e in (0, 1)]))
    n5 = 150 if tier == 'quick' else 3000 * DEEP
    for k in range(0, n5, 25):
        out.append(('case_sampled', [dict(seed=seed * 131 + k, count=25, nvars=4 + (k // 25) % 2)]))
    out.append(('case_copy_vars', [dict(seed=seed + k) for k in range(20 if tier == 'quick' else 200 * DEEP)]))
    return out


def _snapshot_tables(b):
    return (dict(b._succ), dict(b._pred), dict(b._ref), dict(b.vars), dict(b._level_to_var), b._min_free)


def _copy_routes(route, u, ms, mt, bs, bt):
    import dd._copy as C
    import dd.autoref as A
    import dd.bdd as B
    if route == 0:
        return bs.copy(u, bt)
    if route == 1:
        return B.copy_bdd(u, bs, bt)
    f = ms._wrap(u)
    if route == 2:
        return A.copy_bdd(f, mt).node
    if route == 3:
        return ms.copy(f, mt).node
    if route == 4:
        return C.copy_bdd(f, mt).node
    g = ms._wrap(-u)
    r = C.copy_bdds_from([f, g, f], mt)
    require(r[0].node == r[2].node and r[1].node == -r[0].node, '_copy.copy_bdds_from#post:consistent', (u,))
    return r[0].node


def _check_copy(ms, mt, names_s, names_t, u, t, res, rnd, route):
    bs, bt = ms._bdd, mt._bdd
    snap = _snapshot_tables(bs)
    r = _copy_routes(route, u, ms, mt, bs, bt)
    n_t = len(names_t)
    # lift t (over names_s) to names_t
    idx = [names_t.index(x) for x in names_s]
    tl = 0
    for k in range(1 << n_t):
        kk = sum(((k >> idx[i]) & 1) << i for i in range(len(names_s)))
        if (t >> kk) & 1:
            tl |= 1 << k
    got = den(bt, r, names_t)
    require(got == tl, 'copy#post:same-function-by-name',
            lambda: f'route={route} tt={t} src={bs.vars} dst={bt.vars}: got {got} want {tl}')
    wf(bt, names_t)
    bt.incref(r)
    canon = build(bt, tl, names_t)
    bt.decref(r)
    require(canon == r, 'copy#post:target-canonical', lambda: f'route={route} tt={t}: {r} vs {canon}')
    after = _snapshot_tables(bs)
    if route <= 1:
        require(after == snap, 'copy#post:source-untouched', lambda: f'route={route} tt={t}')
    else:
        # autoref routes create and drop Function handles; tables must agree up to that
        require(after[0] == snap[0] and after[3] == snap[3], 'copy#post:source-untouched', lambda: f'route={route} tt={t}')
    res.count('copy-checked')


def case_all3(c, res):
    import dd.autoref as A
    rnd = random.Random(c['seed'])
    names_s = sorted(c['src'])
    ms = A.BDD({nm: k for k, nm in enumerate(c['src'])})
    dst = list(c['dst'])
    if c['extra']:
        dst.insert(rnd.randint(0, 3), 'p')
        dst.insert(rnd.randint(0, 4), 'q')
    names_t = sorted(dst)
    mt = A.BDD({nm: k for k, nm in enumerate(dst)})
    # the target already holds things
    warm_up(mt._bdd, names_t, rnd, steps=15)
    keep = mt._wrap(build(mt._bdd, rnd.getrandbits(1 << len(names_t)), names_t))
    keys = []
    for t in range(256):
        u = build(ms._bdd, t, names_s)
        ms._bdd.incref(u)
        _check_copy(ms, mt, names_s, names_t, u, t, res, rnd, t % 6)
        ms._bdd.decref(u)
        keys.append((t, tuple(c['src']), tuple(dst)))
    res.evals += 255
    del keep
    return keys


def case_sampled(c, res):
    import dd.autoref as A
    import dd.bdd as B
    rnd = random.Random(c['seed'])
    names = ['a', 'b', 'c', 'd', 'e'][:c['nvars']]
    so, to = names[:], names[:] + ['p']
    rnd.shuffle(so)
    rnd.shuffle(to)
    ms = A.BDD({nm: k for k, nm in enumerate(so)})
    mt = A.BDD({nm: k for k, nm in enumerate(to)})
    names_t = sorted(to)
    # reorder the source so that the iteration order of `vars` differs from the level order
    held = ms._wrap(build(ms._bdd, rnd.getrandbits(1 << len(names)), names))
    p = names[:]
    rnd.shuffle(p)
    ms.reorder({nm: k for k, nm in enumerate(p)})
    keys = []
    for i in range(c['count']):
        t = rnd.getrandbits(1 << len(names))
        u = build(ms._bdd, t, names)
        ms._bdd.incref(u)
        _check_copy(ms, mt, names, names_t, u, t, res, rnd, i % 6)
        ms._bdd.decref(u)
        if i % 3 != 0:
            # collection in the *source* only: its node numbers are re-used by the next functions, while the target keeps whatever it
            # (or the copy routine) remembered about them
            ms.collect_garbage()
            res.count('copies-after-source-collection')
        elif i % 6 == 3:
            mt.collect_garbage()
        keys.append((t, tuple(p), tuple(to)))
    res.evals += c['count'] - 1
    del held
    return keys


def case_copy_vars(c, res):
    import dd._copy as C
    import dd.autoref as A
    import dd.bdd as B
    rnd = random.Random(c['seed'])
    names = ['a', 'b', 'c', 'd', 'e', 'f'][:rnd.randint(1, 6)]
    o = names[:]
    rnd.shuffle(o)
    src = B.BDD({nm: k for k, nm in enumerate(o)})
    how = rnd.randrange(3)
    u = build(src, rnd.getrandbits(1 << len(names)), names)
    src.incref(u)
    if how == 1:
        p = names[:]
        rnd.shuffle(p)
        B.reorder(src, {nm: k for k, nm in enumerate(p)})
    elif how == 2:
        B.reorder(src)
    dst = B.BDD()
    pre = rnd.randrange(4)
    by_level = sorted(src.vars, key=src.vars.get)
    if pre == 1:
        # the target already declares the top variables of the source, at the same levels
        for nm in by_level[:rnd.randint(1, len(by_level))]:
            dst.add_var(nm)
    elif pre == 2:
        # the target already declares something that cannot be reconciled: a variable of the source at another level, or an unrelated
        # variable on a level the source uses. Names and levels cannot be reproduced; the call has to refuse (or achieve it anyway)
        other = by_level[::-1] if len(by_level) > 1 and rnd.random() < .6 else ['unrelated']
        for nm in other[:rnd.randint(1, len(other))]:
            dst.add_var(nm)
        before = dict(dst.vars)
        try:
            C.copy_vars(src, dst)
        except Exception:  # noqa: refused
            require(dict(dst.vars) == before or all(dst.vars.get(k) == v for k, v in before.items()), 'copy_vars#raises:declarations-kept',
                    lambda: f'{before} -> {dst.vars}')
            res.count('copy_vars-refused')
            src.decref(u)
            return (tuple(o), how, 'conflict')
        require(all(dst.vars.get(nm) == l for nm, l in src.vars.items()), 'copy_vars#post:names-and-levels',
                lambda: f'target declared {before}; source {dict(src.vars)} -> target {dict(dst.vars)} without an error')
        src.decref(u)
        res.count('copy_vars-checked')
        return (tuple(o), how, 'conflict-accepted')
    if rnd.random() < .5:
        C.copy_vars(src, dst)
    else:
        ms, md = A.BDD(), A.BDD()
        ms._bdd, ms.vars = src, src.vars
        md._bdd, md.vars = dst, dst.vars
        A.copy_vars(ms, md)
    require(dict(dst.vars) == dict(src.vars), 'copy_vars#post:names-and-levels', lambda: f'{src.vars} -> {dst.vars}')
    wf(dst)
    # idempotent
    C.copy_vars(src, dst)
    require(dict(dst.vars) == dict(src.vars), 'copy_vars#post:idempotent', '')
    src.decref(u)
    res.count('copy_vars-checked')
    return (tuple(o), how)
