"""Cross-check of the sidecar contracts on real executions (vlib/vc/concrete.py), as a bounded driver.

The contracts of the functions that the property named in VERIF_XCHECK_PID depends on (the proof targets of that property that
have an input generator in vlib/vc/concrete_cases.py) are evaluated on real calls: a violated clause is reported with the real
input (seed + arguments; deterministic, `bin/replay` re-executes it). Labelled bounded; never counted as proved."""
import os
import random

from vlib.rtc.lib import Viol, DEEP

RULE = ('the sidecar contracts used by the proof layer, evaluated by z3 on real executions: real manager from a seed, real call, '
        'entry/exit states as concrete arrays, ghost solved from the invariant; per contract with an input generator N random '
        'inputs (managers of 2-4 variables, 1-4 functions, references with and without holders, invalid arguments in ~10%). '
        'non-trivial = precondition satisfiable and call made; distinct = (contract, seed).')
EXHAUSTIVE = {'quick': False, 'thorough': False}
REQUIRED_COUNTERS = ['executed']      # the real calls were made (whether the solver then decides in its budget depends on the load)


# observed contracts (not proof targets): cross-checked under the properties that depend on the reordering primitives
EXTRA = {'C07': ['dd.bdd.BDD.swap!observed', 'dd.bdd.reorder!observed'], 'C02': ['dd.bdd.BDD.swap!observed', 'dd.bdd.BDD.undeclare_vars!observed'],
         'C14': ['dd.bdd.BDD.undeclare_vars!observed'], 'C10': ['dd.bdd.BDD.pick_iter!observed', 'dd.bdd.BDD.pick!observed'], 'C13': ['dd.bdd.image!observed', 'dd.bdd.preimage!observed'], 'C01': ['dd.bdd.BDD.cube!observed'], 'C18': ['dd.bdd.BDD.undeclare_vars!observed'],
         'C06': ['dd.bdd.BDD.swap!observed'], 'C09': ['dd.bdd.reorder!observed'], 'C17': ['dd.bdd.BDD.swap!observed']}


def _selected():
    """case keys whose contract is a proof target of the property under check"""
    from vlib.vc import contracts_all as CA
    from vlib.vc import concrete_cases as CC
    CA.install()
    pid = os.environ.get('VERIF_XCHECK_PID', '')
    wanted = set()
    for t in CA.TARGETS.get(pid, []):
        key = t.get('contract', t['function'])
        wanted.add(key)
        wanted.add(key.replace('!body', '').replace(':one', '').replace(':several', ''))   # the decorated form seen by callers
    wanted.update(EXTRA.get(pid, []))
    if pid == 'ALL':
        return list(CC.CASES)
    return [k for k, (contract, _) in CC.CASES.items() if contract in wanted]


def bounds(tier):
    return dict(contracts=_selected(), inputs_per_contract=9 if tier == 'quick' else 4 * DEEP, variables='2-4')


def chunks(tier, seed):
    n = 9 if tier == 'quick' else 12 * DEEP
    out = []
    for key in _selected():
        heavy = 'image' in key       # the relational product needs an interpretation of IMG/FIMG: ~20 s per input
        n = (3 if heavy else 9) if tier == 'quick' else (1 if heavy else 4) * DEEP
        step = 1 if tier == 'quick' else 4
        for k in range(0, n, step):
            out.append(('case_contract', [dict(key=key, seed=seed * 100003 + k + i) for i in range(min(step, n - k))]))
    return out


def case_contract(c, res):
    from vlib.vc import contracts_all as CA
    from vlib.vc import concrete as C, concrete_cases as CC
    CA.install()
    contract, mk = CC.CASES[c['key']]
    rnd = random.Random(c['seed'] * 7919 + 13)
    r = C.run_case(CA.REG, mk(c['seed']), rnd)
    res.count('status:' + r['status'])
    res.count('executed')
    if r['status'] == 'violation':
        raise Viol(f"contract:{contract}#{r['clause']}",
                   f"real execution violates the contract clause(s) {r['clause']}: input {r.get('input')} {r.get('what', '')}")
    if r['status'] == 'crash':
        raise RuntimeError(f"cross-check harness fault ({r.get('where')}): {r.get('detail')}")
    if r['status'] == 'ok':
        res.count('checked')
        return (c['key'], c['seed'])
    return None
