"""C14 bounded stand-in: declaring and undeclaring variables."""
import itertools
import random

from vlib.rtc.lib import *  # noqa
from vlib.rtc import hist

RULE = ('(1) all interleavings of length <= 4 (quick 3) over {declare new, declare several in one call (new ones, some twice, and declared ones), re-declare existing, add_var with explicit level '
        '(free / own / conflicting / occupied), build a function, drop, collect, swap, undeclare named subset, undeclare all '
        'unused, undeclare used (must be refused), undeclare unknown (must be refused)} on dd.bdd and dd.autoref; (2) '
        'random histories of 10-40 steps over up to 10 names (so that sets of levels exceed the small-int hash range), '
        'with held functions. After every step: four order views agree and are a bijection onto 0..n-1, wf(), truth '
        'tables of held references unchanged, exact ledger; new names get level n; conflicts raise ValueError with the '
        'state unchanged. non-trivial: history contains an undeclare or a conflicting declaration; distinct = sequence.')
EXHAUSTIVE = {'quick': False, 'thorough': False}
REQUIRED_COUNTERS = ['steps', 'refusals-checked', 'undeclare-checked']
UNIVERSE = ['a', 'b', 'c', 'd', 'e', 'f', 'g', 'h', 'i', 'j']
ALPHA = ['new', 'declare-many', 'redeclare', 'level-free', 'level-own', 'level-conflict', 'level-occupied', 'build', 'drop', 'gc', 'swap',
         'undecl-sub', 'undecl-all', 'undecl-used', 'undecl-unknown']


def bounds(tier):
    return dict(names=10, enumerated_len=3 if tier == 'quick' else 4, random_histories=200 if tier == 'quick' else 4000)


def chunks(tier, seed):
    L = 3 if tier == 'quick' else 4
    seqs = [list(s) for s in itertools.product(ALPHA, repeat=L)]
    rnd = random.Random(seed)
    if tier == 'quick':
        pass
    else:
        seqs = rnd.sample(seqs, 12000)
    out = []
    for k in range(0, len(seqs), 100):
        out.append(('case_seq', [dict(seq=s, seed=seed + j, mode='bdd' if j % 2 else 'autoref') for j, s in enumerate(seqs[k:k + 100])]))
    n = 200 if tier == 'quick' else 4000
    for k in range(0, n, 10):
        out.append(('case_random', [dict(seed=seed * 389 + k + i, steps=10 + (k + i) % 30) for i in range(10)]))
    out.append(('case_gap', [dict(level=l) for l in (2, 3, 7)]))
    out.append(('case_constructor_orders', [dict(seed=seed + k) for k in range(40 if tier == 'quick' else 600)]))
    return out


class S(hist.Sim):
    pass


def _state(b):
    return (dict(b.vars), dict(b._level_to_var), dict(b._succ), dict(b._ref))


def _expect_value_error(sim, fn, site, res):
    b = sim.b
    before = _state(b)
    try:
        fn()
    except Exception:  # noqa: refused (the property does not fix the exception type)
        require(_state(b) == before, site + '#raises:state-unchanged', lambda: f'{before[0]} -> {b.vars}')
        res.count('refusals-checked')
        return
    raise Viol(site + '#raises:ValueError-expected', f'accepted; vars now {b.vars}')


def do(sim, op, res):
    b, m, rnd = sim.b, sim.m, sim.rnd
    n = len(b.vars)
    free = [x for x in sim.universe if x not in b.vars]
    declared = list(b.vars)
    sim.log.append(op)
    if op == 'new' and free:
        x = rnd.choice(free)
        before = dict(b.vars)
        lv = m.add_var(x) if rnd.random() < .5 else (m.declare(x), b.vars[x])[1]
        require(lv == n and b.vars[x] == n, 'add_var#post:next-bottom-level', lambda: f'{x}: level {lv}, n was {n}')
        require(all(b.vars[y] == l for y, l in before.items()), 'add_var#post:others-unchanged', '')
    elif op == 'declare-many' and free:
        # one call naming several variables: new ones (some of them twice), already declared ones in between
        new = rnd.sample(free, min(len(free), rnd.randint(1, 2)))
        args = new + rnd.sample(new, rnd.randint(0, len(new))) + rnd.sample(declared, min(len(declared), rnd.randint(0, 2)))
        rnd.shuffle(args)
        before = dict(b.vars)
        (b if rnd.random() < .5 else m).declare(*args)
        first = []
        for x in args:
            if x not in before and x not in first:
                first.append(x)
        want = dict(before)
        want.update({x: n + k for k, x in enumerate(first)})
        require(dict(b.vars) == want, 'declare#post:new-names-at-the-bottom-in-order-of-first-mention', lambda: f'declare{tuple(args)}: {before} -> {dict(b.vars)}, expected {want}')
    elif op == 'redeclare' and declared:
        x = rnd.choice(declared)
        before = _state(b)
        lv = m.add_var(x)
        m.declare(x, x)
        require(lv == before[0][x] and _state(b) == before, 'add_var#post:idempotent', lambda: f'{x}')
    elif op == 'level-free' and free:
        x = rnd.choice(free)
        lv = m.add_var(x, n)
        require(lv == n and b.vars[x] == n, 'add_var#post:explicit-free-level', x)
    elif op == 'level-own' and declared:
        x = rnd.choice(declared)
        before = _state(b)
        lv = m.add_var(x, b.vars[x])
        require(lv == before[0][x] and _state(b) == before, 'add_var#post:idempotent', x)
    elif op == 'level-conflict' and len(declared) >= 1:
        x = rnd.choice(declared)
        other = rnd.choice([l for l in range(n + 2) if l != b.vars[x]])
        _expect_value_error(sim, lambda: m.add_var(x, other), 'add_var[existing-name,other-level]', res)
    elif op == 'level-occupied' and free and declared:
        x = rnd.choice(free)
        l = rnd.randrange(n)
        _expect_value_error(sim, lambda: m.add_var(x, l), 'add_var[new-name,occupied-level]', res)
    elif op == 'build' and declared:
        sim.step('build')
        sim.log.pop()
    elif op == 'drop':
        sim.step('drop')
    elif op == 'gc':
        m.collect_garbage()
    elif op == 'swap' and n >= 2:
        i = rnd.randrange(n - 1)
        b.swap(i, i + 1)
    elif op in ('undecl-sub', 'undecl-all'):
        m.collect_garbage() if rnd.random() < .7 else None
        used = {b._level_to_var[i] for u, (i, _, _) in b._succ.items() if u != 1}
        unused = [x for x in b.vars if x not in used]
        before = dict(b.vars)
        if op == 'undecl-all':
            rm = b.undeclare_vars()
            want = set(unused)
        else:
            if not unused:
                return
            sel = rnd.sample(unused, rnd.randint(1, len(unused)))
            rm = b.undeclare_vars(*sel)
            want = set(sel)
        require(set(rm) == want, 'undeclare_vars#post:removed-set', lambda: f'{rm} vs {want}')
        rest = sorted((x for x in before if x not in want), key=before.get)
        require(dict(b.vars) == {x: k for k, x in enumerate(rest)}, 'undeclare_vars#post:compacted-keeping-order',
                lambda: f'{before} minus {sorted(want)} -> {b.vars}')
        res.count('undeclare-checked')
    elif op == 'undecl-used':
        used = sorted({b._level_to_var[i] for u, (i, _, _) in b._succ.items() if u != 1})
        if not used:
            return
        x = rnd.choice(used)
        _expect_value_error(sim, lambda: b.undeclare_vars(x), 'undeclare_vars[used]', res)
    elif op == 'undecl-unknown':
        _expect_value_error(sim, lambda: b.undeclare_vars('no_such_variable'), 'undeclare_vars[unknown]', res)
    else:
        sim.log.pop()


def case_seq(c, res):
    rnd = random.Random(c['seed'])
    sim = S(c['mode'], UNIVERSE[:3], universe=UNIVERSE[:6], rnd=rnd)
    sim.step('build')
    sim.check()
    for op in c['seq']:
        do(sim, op, res)
        sim.check()
        res.count('steps')
    sim.finish()
    return tuple(c['seq']) + (c['mode'],)


def case_random(c, res):
    rnd = random.Random(c['seed'])
    k = rnd.randint(2, 9)
    sim = S(rnd.choice(['bdd', 'autoref']), UNIVERSE[:k], universe=UNIVERSE, rnd=rnd)
    w = [3, 2, 1, 1, 1, 1, 1, 4, 3, 2, 2, 2, 2, 1, 1]
    # held functions use few variables so that many levels are empty and can be undeclared
    for _ in range(c['steps']):
        op = rnd.choices(ALPHA, w)[0]
        do(sim, op, res)
        sim.check()
        res.count('steps')
    sim.finish()
    return tuple(sim.log[:10])


def case_gap(c, res):
    """known finding D4: add_var(name, level > len(vars))."""
    import dd.bdd as B
    b = B.BDD()
    b.declare('a')
    try:
        b.add_var('z', c['level'])
    except Exception:  # noqa
        return 'refused'
    n = len(b.vars)
    if sorted(b.vars.values()) != list(range(n)):
        raise Viol('add_var#gap:level>len(vars)', f'add_var("z", {c["level"]}) accepted with 1 variable declared: vars={b.vars}')
    return 'ok'


def case_constructor_orders(c, res):
    """`BDD(levels)` and `copy_vars` with the mapping listed in an order different from the level order: the result
    must be a valid order with the terminal below every variable, and functions built afterwards are correct"""
    import dd._copy as C
    import dd.autoref as A
    import dd.bdd as B
    rnd = random.Random(c['seed'])
    n = rnd.randint(2, 6)
    names = UNIVERSE[:n]
    lv = list(range(n))
    rnd.shuffle(lv)
    items = list(zip(names, lv))
    rnd.shuffle(items)                       # insertion order independent of the levels
    how = rnd.randrange(3)
    if how == 0:
        b = B.BDD(dict(items))
    elif how == 1:
        b = A.BDD(dict(items))._bdd
    else:
        src = B.BDD()
        src.declare(*names)
        u0 = build(src, rnd.getrandbits(1 << n), names)
        src.incref(u0)
        B.reorder(src, dict(items))
        b = B.BDD()
        C.copy_vars(src, b)
        src.decref(u0)
    require(dict(b.vars) == dict(items), 'declare-with-levels#post:levels-as-given', lambda: f'{items} -> {b.vars}')
    wf(b)
    t = rnd.getrandbits(1 << n)
    u = b.add_expr(' \\/ '.join('(' + ' /\\ '.join((nm if (k >> j) & 1 else '~ ' + nm) for j, nm in enumerate(names)) + ')'
                                for k in range(1 << n) if (t >> k) & 1) or 'FALSE')
    require(den(b, u, names) == t, 'declare-with-levels#post:functions-correct-afterwards', lambda: f'{items}: tt={t}')
    wf(b)
    res.count('steps')
    return (tuple(items), how)
