"""C05 bounded stand-in: add_expr against an independent reference reader of the documented grammar, and
the to_expr round trip."""
import gc
import itertools
import random
import re

from vlib.rtc.lib import *  # noqa

RULE = ('(a) exhaustive: every pair and triple of binary operator spellings (13 spellings + word-free classes) over distinct '
        'operand patterns, with and without redundant parentheses, prefix negations in both spellings, binder forms '
        '(\\A, \\E, \\S) in every operand position, ite(...), constants in the accepted spellings, both comment forms, @n for '
        'live nodes of either sign, on dd.bdd and dd.autoref, every order of 3 variables; (b) random formulas to depth 6; '
        '(c) two managers interleaved with failing parses in between; (d) add_expr(to_expr(u)) == u for every function of '
        '3 variables and sampled 4-variable functions, also after collections that re-use node numbers. Oracle: an '
        'independent tokenizer + precedence-climbing reader written from doc.md (precedence list, grammar, operator '
        'meanings) evaluated on truth tables. non-trivial: formula has >= 2 operators; distinct = formula text.')
EXHAUSTIVE = {'quick': False, 'thorough': False}
REQUIRED_COUNTERS = ['formulas-checked', 'roundtrips-checked']
NAMES = ['x', 'y', 'z']

# ---- independent reference reader (written from doc.md 1125-1310 and the statement of C05) -------------------
BIN = {  # spelling -> (class, precedence); higher binds tighter
    '<=>': ('equiv', 2), '<->': ('equiv', 2),
    '=>': ('implies', 3), '->': ('implies', 3),
    '-': ('diff', 4),
    '#': ('xor', 5), '^': ('xor', 5),
    '\\/': ('or', 6), '|': ('or', 6), '||': ('or', 6),
    '/\\': ('and', 7), '&': ('and', 7), '&&': ('and', 7),
}
TOK = re.compile(r'''\s*(?:
    (?P<c1>\\\*[^\n]*) | (?P<c2>\(\*[\s\S]*?\*\)) |
    (?P<op><=>|<->|=>|->|/\\|\\/|&&|\|\||\\A|\\E|\\S|[~!&|#^\-=(),:/@]) |
    (?P<name>[A-Za-z_][A-Za-z0-9_']*) | (?P<num>\d+) )''', re.X)


def tokenize(s):
    out = []
    pos = 0
    s = s.rstrip()
    while pos < len(s):
        m = TOK.match(s, pos)
        if not m or m.end() == pos:
            raise SyntaxError(s[pos:])
        pos = m.end()
        if m.group('c1') or m.group('c2'):
            continue
        for k in ('op', 'name', 'num'):
            if m.group(k) is not None:
                out.append((k, m.group(k)))
    return out


class Reader:
    def __init__(self, toks, names, nodes):
        self.t = toks
        self.i = 0
        self.names = names
        self.n = len(names)
        self.nodes = nodes  # int -> truth table for '@n'

    def peek(self):
        return self.t[self.i] if self.i < len(self.t) else (None, None)

    def eat(self, v=None):
        k, x = self.peek()
        if v is not None and x != v:
            raise SyntaxError(f'expected {v} got {x}')
        self.i += 1
        return x

    def expr(self, minp=0):
        lhs = self.unary()
        while True:
            k, x = self.peek()
            if k != 'op' or x not in BIN:
                break
            cls, p = BIN[x]
            if p < minp:
                break
            self.eat()
            rhs = self.expr(p + 1)      # left associative
            lhs = SPEC[cls](self.n, lhs, rhs)
        return lhs

    def names_list(self):
        out = [self.eat()]
        while self.peek()[1] == ',':
            self.eat()
            out.append(self.eat())
        return out

    def unary(self):
        k, x = self.peek()
        F = full(self.n)
        if x in ('~', '!') and k == 'op':
            self.eat()
            return ~self.expr(9) & F
        if x in ('\\A', '\\E'):
            self.eat()
            vs = self.names_list()
            self.eat(':')
            body = self.expr(0)        # scope extends as far to the right as possible
            js = [self.names.index(v) for v in vs]
            return tt_forall(body, js, self.n) if x == '\\A' else tt_exists(body, js, self.n)
        if x == '\\S':
            self.eat()
            pairs = []
            while True:
                new = self.eat(); self.eat('/'); old = self.eat()
                pairs.append((old, new))
                if self.peek()[1] != ',':
                    break
                self.eat()
            self.eat(':')
            body = self.expr(0)
            return tt_subst(body, {self.names.index(o): vmask(self.names.index(nw), self.n) for o, nw in pairs}, self.n)
        if x == '(':
            self.eat()
            r = self.expr(0)
            self.eat(')')
            return r
        if x == '@':
            self.eat()
            neg = False
            if self.peek()[1] == '-':
                self.eat(); neg = True
            u = int(self.eat())
            return self.nodes[-u if neg else u]
        if k == 'name':
            self.eat()
            if x == 'ite':
                self.eat('(')
                a = self.expr(0); self.eat(',')
                b = self.expr(0); self.eat(',')
                c = self.expr(0); self.eat(')')
                return tt_ite(a, b, c, self.n)
            if x in ('TRUE', 'True'):
                return F
            if x in ('FALSE', 'False'):
                return 0
            return vmask(self.names.index(x), self.n)
        raise SyntaxError(f'unexpected {x}')


def read(s, names, nodes=None):
    r = Reader(tokenize(s), names, nodes or {})
    v = r.expr(0)
    if r.i != len(r.t):
        raise SyntaxError('trailing tokens')
    return v


# ---- generators -----------------------------------------------------------------------------------------
BINSP = list(BIN)


def exhaustive_formulas():
    out = []
    for a, b in itertools.product(BINSP, repeat=2):
        for pat in (('x', 'y', 'z'), ('x', 'y', 'x'), ('~ x', 'y', '! z')):
            out.append(f'{pat[0]} {a} {pat[1]} {b} {pat[2]}')
        out.append(f'(x {a} y) {b} z')
        out.append(f'x {a} (y {b} z)')
    for a in BINSP:
        out.append(f'x {a} y {a} z {a} x')
        out.append(f'~ x {a} y')
        out.append(f'! (x {a} y)')
        out.append(f'\\E x: x {a} y')
        out.append(f'z {a} \\A x: x {a} y')
        out.append(f'(\\E x, y: x {a} y) {a} z')
        out.append(f'\\S y / x: x {a} z')
        out.append(f'\\S y / x, x / y: x {a} z {a} y')
        out.append(f'ite(x {a} y, y, z {a} x)')
        out.append(f'x {a} TRUE')
        out.append(f'False {a} y')
        out.append(f'x {a} y \\* trailing {a} comment')
        out.append(f'x (* inner {a} \n comment *) {a} y')
        out.append(f'@N {a} @-N')
        out.append(f'x {a} @M')
    out += ['TRUE', 'FALSE', 'True', 'False', 'x', '~ ~ x', '! ~ x', '((x))', 'ite(x, y, z)', 'ite(TRUE, x, y)',
            '\\A x: \\E y: x <=> y', '\\E x: x', '\\A x, y, z: x \\/ ~ x', "\\S z / x: \\E y: x /\\ y"]
    return out


def random_formula(rnd, depth, names):
    if depth == 0 or rnd.random() < .2:
        r = rnd.random()
        if r < .1:
            return rnd.choice(['TRUE', 'FALSE', 'True', 'False'])
        return rnd.choice(names)
    r = rnd.random()
    if r < .15:
        return f'{rnd.choice(["~", "!"])} {random_formula(rnd, depth - 1, names)}'
    if r < .25:
        return f'({random_formula(rnd, depth - 1, names)})'
    if r < .33:
        q = rnd.choice(['\\A', '\\E'])
        vs = ', '.join(rnd.sample(names, rnd.randint(1, 2)))
        return f'{q} {vs}: {random_formula(rnd, depth - 1, names)}'
    if r < .38:
        a, b = rnd.sample(names, 2)
        return f'\\S {a} / {b}: {random_formula(rnd, depth - 1, names)}'
    if r < .45:
        return 'ite(' + ', '.join(random_formula(rnd, depth - 1, names) for _ in range(3)) + ')'
    op = rnd.choice(BINSP)
    return f'{random_formula(rnd, depth - 1, names)} {op} {random_formula(rnd, depth - 1, names)}'


def bounds(tier):
    return dict(exhaustive_formulas=len(exhaustive_formulas()), orders=6 if tier == 'thorough' else 2,
                random_formulas=600 if tier == 'quick' else 20000 * DEEP, roundtrip_functions='256 (3 vars) + sampled 4 vars')


def chunks(tier, seed):
    rnd = random.Random(seed)
    forms = exhaustive_formulas()
    orders = list(itertools.permutations(NAMES))
    if tier == 'quick':
        orders = [orders[0], rnd.choice(orders[1:])]
    out = []
    for o in orders:
        for auto in (0, 1):
            for k in range(0, len(forms), 200):
                out.append(('case_formulas', [dict(order=list(o), auto=auto, forms=forms[k:k + 200])]))
    n = 600 if tier == 'quick' else 20000 * DEEP
    for k in range(0, n, 100):
        out.append(('case_random', [dict(seed=seed * 8191 + k, count=100)]))
    for o in orders:
        out.append(('case_roundtrip', [dict(order=list(o), seed=seed)]))
    out.append(('case_roundtrip4', [dict(seed=seed + k, count=100) for k in range(2 if tier == 'quick' else 30)]))
    out.append(('case_roundtrip_after_undeclare', [dict(seed=seed + k) for k in range(20 if tier == 'quick' else 300 * DEEP)]))
    out.append(('case_doc_grammar', [dict(kind='lowercase-constant'), dict(kind='dotted-name')]))
    out.append(('case_two_managers', [dict(seed=seed + k) for k in range(10 if tier == 'quick' else 200 * DEEP)]))
    return out


def _check(m, b, names, text, nodes, res, d=None):
    want = read(text, names, nodes)
    r = m.add_expr(text)
    rn = r.node if hasattr(r, 'node') else r
    got = (d.of(rn) if d else den(b, rn, names))
    require(got == want, 'add_expr#post:documented-meaning', lambda: f'{text!r} order={b.vars}: got {got} want {want}')
    res.count('formulas-checked')


def case_formulas(c, res):
    import dd.autoref as A
    names = NAMES
    m = A.BDD({nm: k for k, nm in enumerate(c['order'])})
    b = m._bdd
    mm = m if c['auto'] else b
    hold = m._wrap(build(b, 0b10010110, names))
    hold2 = m._wrap(build(b, 0b11100100, names))
    N, M = abs(hold.node), abs(hold2.node)
    nodes = {}
    for h in (hold, hold2):
        t = den(b, abs(h.node), names)
        nodes[abs(h.node)] = t
        nodes[-abs(h.node)] = ~t & full(3)
    d = Den(b, names)
    keys = []
    for f in c['forms']:
        text = f.replace('@-N', f'@-{N}').replace('@N', f'@{N}').replace('@M', f'@{M}')
        _check(mm, b, names, text, nodes, res, d)
        keys.append(f)
    wf(b, names)
    res.evals += len(c['forms']) - 1
    return keys


def case_random(c, res):
    import dd.autoref as A
    rnd = random.Random(c['seed'])
    names = ['p', 'q', 'r', "s'"][:rnd.randint(3, 4)]
    o = names[:]
    rnd.shuffle(o)
    m = A.BDD({nm: k for k, nm in enumerate(o)})
    b = m._bdd
    keys = []
    for i in range(c['count']):
        f = random_formula(rnd, rnd.randint(2, 6), names)
        _check(m if i % 2 else b, b, names, f, {}, res)
        keys.append(f)
        if i % 25 == 0:
            b.collect_garbage()
    wf(b, names)
    res.evals += c['count'] - 1
    return keys


def _roundtrip(m, b, names, t, res):
    u = build(b, t, names)
    b.incref(u)
    e = b.to_expr(u)
    want = read(e, names, {})
    require(want == t, 'to_expr#post:denotes-u', lambda: f'tt={t} u={u}: {e!r} reads as {want}')
    r = b.add_expr(e)
    require(r == u, 'to_expr#post:roundtrip', lambda: f'tt={t} u={u} expr={e!r} -> {r}')
    f = m._wrap(u)
    require(m.add_expr(m.to_expr(f)) == f and m.add_expr(f.to_expr()) == f, 'to_expr#post:roundtrip', f'autoref tt={t}')
    del f
    b.decref(u)
    res.count('roundtrips-checked')


def case_roundtrip(c, res):
    import dd.autoref as A
    names = NAMES
    m = A.BDD({nm: k for k, nm in enumerate(c['order'])})
    b = m._bdd
    rnd = random.Random(c['seed'])
    keys = []
    for t in range(256):
        _roundtrip(m, b, names, t, res)
        keys.append((t, tuple(c['order'])))
        if t % 7 == 0:
            gc.collect()
            b.collect_garbage()     # node numbers are re-used afterwards
    # second pass in another order of construction after collection
    for t in rnd.sample(range(256), 64):
        _roundtrip(m, b, names, t, res)
    wf(b, names)
    res.evals += 255 + 64
    return keys


def case_roundtrip4(c, res):
    import dd.autoref as A
    rnd = random.Random(c['seed'])
    names = ['a', 'b', 'c', 'd']
    o = names[:]
    rnd.shuffle(o)
    m = A.BDD({nm: k for k, nm in enumerate(o)})
    b = m._bdd
    keys = []
    for i in range(c['count']):
        t = rnd.getrandbits(16)
        _roundtrip(m, b, names, t, res)
        keys.append((t, tuple(o)))
        if i % 10 == 0:
            gc.collect(); b.collect_garbage()
    res.evals += c['count'] - 1
    return keys


def case_two_managers(c, res):
    """formulas alternate between two managers with different orders/contents; failing parses in between."""
    import dd.autoref as A
    import dd.bdd as B
    rnd = random.Random(c['seed'])
    names = ['p', 'q', 'r']
    m1 = B.BDD({'p': 0, 'q': 1, 'r': 2})
    m2 = A.BDD({'r': 0, 'q': 1, 'p': 2})
    warm_up(m2._bdd, names, rnd, steps=10)
    bad = ['p /\\ undeclared', 'p /\\', 'p q', '@999', 'ite(p, q)', '\\E : p', ')(']
    keys = []
    for i in range(30):
        mgr = rnd.choice([m1, m2])
        if rnd.random() < .3:
            e = rnd.choice(bad)
            try:
                mgr.add_expr(e)
            except Exception:
                pass
            else:
                raise Viol('add_expr#raises:rejected-formula', e)
            keys.append(('bad', e))
            continue
        f = random_formula(rnd, rnd.randint(1, 4), names)
        b = mgr if mgr is m1 else mgr._bdd
        _check(mgr, b, names, f, {}, res)
        wf(b, names)
        keys.append(f)
    return keys


def case_doc_grammar(c, res):
    """Two places where doc.md's grammar and the lexer disagree (known findings D9, D10)."""
    import dd.bdd as B
    b = B.BDD()
    b.declare('x')
    if c['kind'] == 'lowercase-constant':
        # doc.md: L.FALSE = Tok({"FALSE", "false"}), L.TRUE = Tok({"TRUE", "true"})
        try:
            ok = b.add_expr('x /\\ true') == b.var('x') and b.add_expr('false') == b.false
        except ValueError as e:
            raise Viol('add_expr#doc-grammar:lowercase-constant', f'`true`/`false` are read as variable names: {e}')
        require(ok, 'add_expr#doc-grammar:lowercase-constant', 'wrong value')
    else:
        # doc.md: NAME symbols include DOT
        b.declare('a.b')
        try:
            ok = b.add_expr('a.b /\\ x') == b.apply('and', b.var('a.b'), b.var('x'))
        except Exception as e:
            raise Viol('add_expr#doc-grammar:dotted-name', f'{type(e).__name__}: {e}')
        require(ok, 'add_expr#doc-grammar:dotted-name', 'wrong value')
    return c['kind']


def case_roundtrip_after_undeclare(c, res):
    """unused variables are removed (levels compacted) and the round trip must still hold"""
    import dd.bdd as B
    rnd = random.Random(c['seed'])
    allv = ['p0', 'a', 'p1', 'b', 'p2', 'c', 'p3']
    rnd.shuffle(allv)
    b = B.BDD()
    b.declare(*allv)
    names = ['a', 'b', 'c']
    held = []
    for _ in range(3):
        t = rnd.getrandbits(8)
        u = build(b, t, names)
        b.incref(u)
        held.append((u, t))
    extra = [v for v in allv if v.startswith('p')]
    rm = rnd.sample(extra, rnd.randint(1, len(extra)))
    if rnd.random() < .5:
        b.undeclare_vars(*rm)
    else:
        b.undeclare_vars()
    for u, t in held:
        e = b.to_expr(u)
        got = read(e, names, {})
        require(got == t, 'to_expr#post:denotes-u', lambda: f'after undeclare_vars: tt={t} u={u}: {e!r} reads as {got}; vars={b.vars}')
        require(b.add_expr(e) == u, 'to_expr#post:roundtrip', lambda: f'after undeclare_vars: {e!r}')
        res.count('roundtrips-checked')
    wf(b)
    for u, _ in held:
        b.decref(u)
    return ('undeclare', tuple(allv), tuple(sorted(rm)))
