"""C02 bounded stand-in: canonicity (one reference per truth table through every construction route) and
reducedness/orderedness after every step of histories."""
import itertools
import os
import random
import tempfile

from vlib.rtc.lib import *  # noqa
from vlib.rtc import hist

RULE = ('every function of <= 3 variables (sampled at 4) is built through five routes (node by node with find_or_add, '
        'connectives from variables, the parser via to_expr text, substitution, copy from a differently ordered manager) '
        'in one manager, for every variable order, on fresh and warmed-up managers: all routes must give the same '
        'reference, distinct functions distinct references, comparison with true/false decides validity; wf() (reduced, '
        'ordered, high edges regular, unique) after each route. Plus histories including swap/sift/undeclare/declare '
        'with wf() after every step. non-trivial: non-constant function; distinct = (truth table, order, warm).')
EXHAUSTIVE = {'quick': False, 'thorough': False}
REQUIRED_COUNTERS = ['routes-compared', 'steps']
NAMES = ['x', 'y', 'z']


def bounds(tier):
    return dict(variables=3, functions=256, orders=6 if tier == 'thorough' else 3, sampled_4var=200 if tier == 'quick' else 3000 * DEEP)


def chunks(tier, seed):
    rnd = random.Random(seed)
    orders = list(itertools.permutations(NAMES))
    if tier == 'quick':
        orders = [orders[0]] + rnd.sample(orders[1:], 2)
    out = []
    for o in orders:
        for warm in (0, 1):
            for part in range(4):
                out.append(('case_routes', [dict(order=list(o), warm=warm, part=part, seed=seed)]))
    n4 = 200 if tier == 'quick' else 3000 * DEEP
    for k in range(0, n4, 50):
        out.append(('case_routes4', [dict(seed=seed * 7919 + k, count=50)]))
    nh = 200 if tier == 'quick' else 3000 * DEEP
    for k in range(0, nh, 10):
        out.append(('case_history', [dict(seed=seed * 104729 + k + i, steps=10 + (k + i) % 50,
                                          names=hist.ALLNAMES[:3 + (k + i) % 3], universe=hist.ALLNAMES) for i in range(10)]))
    return out


def _routes(b, names, t, other, d, rnd):
    n = len(names)
    F = full(n)
    refs = {}
    refs['find_or_add'] = build(b, t, names)
    # connectives: disjunction of minterms through apply
    r = -1
    for k in range(1 << n):
        if (t >> k) & 1:
            cube = 1
            for j, nm in enumerate(names):
                v = b.var(nm)
                cube = b.apply('and', cube, v if (k >> j) & 1 else -v)
            r = b.apply('or', r, cube)
    refs['connectives'] = r
    # parser: formula text produced from the truth table (sum of products)
    terms = []
    for k in range(1 << n):
        if (t >> k) & 1:
            terms.append('(' + ' /\\ '.join((nm if (k >> j) & 1 else '~ ' + nm) for j, nm in enumerate(names)) + ')')
    refs['parser'] = b.add_expr(' \\/ '.join(terms) if terms else 'FALSE')
    # substitution: Shannon expansion on the first variable rebuilt with compose
    x = names[0]
    t0, t1 = cof(t, 0, 0, n), cof(t, 0, 1, n)
    u0, u1 = build(b, t0, names), build(b, t1, names)
    b.incref(u0); b.incref(u1)
    sel = b.ite(b.var(x), u1, u0)
    refs['ite'] = sel
    g = build(b, rnd.getrandbits(1 << n), names)
    b.incref(g)
    comp = b.let({x: g}, refs['find_or_add'])
    want = b.ite(g, u1, u0)
    require(comp == want, 'canonical#let-vs-ite', lambda: f'tt={t}')
    b.decref(g); b.decref(u0); b.decref(u1)
    # copy from another manager with another order
    uo = build(other, t, names)
    refs['copy'] = other.copy(uo, b)
    vals = set(refs.values())
    require(len(vals) == 1, 'canonical#routes-agree', lambda: f'tt={t} order={b.vars}: {refs}')
    u = refs['find_or_add']
    require(d.of(u) == t, 'canonical#denotation', lambda: f'tt={t}: {u}')
    require((u == 1) == (t == F) and (u == -1) == (t == 0), 'canonical#constants', lambda: f'tt={t}: {u}')
    return u


def case_routes(c, res):
    names = sorted(c['order'])
    rnd = random.Random(c['seed'])
    b = fresh(names, {nm: k for k, nm in enumerate(c['order'])})
    other = fresh(names, {nm: k for k, nm in enumerate(reversed(c['order']))})
    if c['warm']:
        warm_up(b, names, rnd, steps=40)
    d = Den(b, names)
    seen = {}
    N = 1 << (1 << len(names))
    lo, hi = c['part'] * N // 4, (c['part'] + 1) * N // 4
    keep = []
    for t in range(lo, hi):
        u = _routes(b, names, t, other, d, rnd)
        b.incref(u)
        keep.append(u)
        require(u not in seen, 'canonical#distinct', lambda: f'tt {t} and {seen[u]} share reference {u}')
        seen[u] = t
        require(-u not in seen or seen[-u] == (~t & full(len(names))), 'canonical#complement', t)
        res.count('routes-compared')
        if t % 16 == 0:
            wf(b, names)
    wf(b, names)
    wf(other, names)
    res.evals += hi - lo - 1
    release_all(b, keep)
    return [(t, tuple(c['order']), c['warm']) for t in range(max(lo, 1), min(hi, N - 1))]


def case_routes4(c, res):
    names = ['w', 'x', 'y', 'z']
    rnd = random.Random(c['seed'])
    o = names[:]
    rnd.shuffle(o)
    b = fresh(names, {nm: k for k, nm in enumerate(o)})
    o2 = names[:]
    rnd.shuffle(o2)
    other = fresh(names, {nm: k for k, nm in enumerate(o2)})
    warm_up(b, names, rnd, steps=30)
    d = Den(b, names)
    keys = []
    seen = {}
    keep = []
    for _ in range(c['count']):
        t = rnd.getrandbits(16)
        u = _routes(b, names, t, other, d, rnd)
        b.incref(u); keep.append(u)
        require(seen.setdefault(u, t) == t, 'canonical#distinct', t)
        res.count('routes-compared')
        keys.append((t, tuple(o)))
    wf(b, names)
    res.evals += c['count'] - 1
    release_all(b, keep)
    return keys


OPS = ['build', 'var', 'apply', 'ite', 'quant', 'let', 'expr', 'drop', 'gc', 'swap', 'sift', 'order', 'pairs', 'declare', 'undeclare', 'image', 'fork', 'copyout']
W = [4, 2, 4, 2, 2, 2, 1, 4, 2, 3, 1, 1, 1, 2, 2, 2, 1, 1]


def _canon_check(sim):
    """two held references are equal iff their truth tables are equal."""
    by_tt = {}
    for h, tt in sim.held.values():
        u = sim.node(h)
        v = by_tt.setdefault(tt, u)
        require(v == u, 'canonical#equal-functions-equal-refs',
                lambda: f'after {sim.log[-5:]}: refs {u} and {v} both denote {tt}')
    by_ref = {}
    for h, tt in sim.held.values():
        require(by_ref.setdefault(sim.node(h), tt) == tt, 'canonical#equal-refs-equal-functions', sim.node(h))


def case_history(c, res):
    return hist.run_history(c, res, OPS, W, extra_check=_canon_check)
