"""Random / enumerated histories over a real manager with an oracle-tracked truth table for every held
reference. After every step: wf(), exact ledger, denotation of every held reference.

Used by C02, C06, C07, C08, C09, C14, C17 with different operation mixes and configurations.
"""
import collections
import copy
import gc
import random

from vlib.rtc.lib import *  # noqa

ALLNAMES = ['a', 'b', 'c', 'd', 'e']


class Sim:
    def __init__(self, mode, names, universe=None, order=None, reordering=None, rnd=None):
        """mode: 'bdd' (explicit incref/decref on dd.bdd.BDD) or 'autoref' (Function handles)."""
        import dd.autoref as A
        import dd.bdd as B
        self.B, self.A = B, A
        self.mode = mode
        self.universe = list(universe or names)   # truth tables range over these names
        self.n = len(self.universe)
        self.rnd = rnd or random.Random(0)
        lv = shuffled_dict({nm: k for k, nm in enumerate(order or names)}, self.rnd)
        if mode == 'autoref':
            self.m = A.BDD(lv)
            self.b = self.m._bdd
        else:
            self.m = self.b = B.BDD(lv)
        self.held = {}     # key -> (handle/ref, tt)
        self.nid = 0
        self.log = []
        self.reordering = reordering
        if reordering is not None:
            self.m.configure(reordering=True)
            self.b._last_len = reordering

    # -- helpers -----------------------------------------------------------------------------------
    def tt_var(self, name):
        return vmask(self.universe.index(name), self.n)

    def declared(self):
        return [nm for nm in self.universe if nm in self.b.vars]

    def node(self, h):
        return h.node if self.mode == 'autoref' else h

    def keep(self, h, tt):
        if self.mode == 'bdd':
            self.b.incref(h)
        self.held[self.nid] = (h, tt)
        self.nid += 1
        return self.nid - 1

    def drop(self, key):
        h, _ = self.held.pop(key)
        if self.mode == 'bdd':
            self.b.decref(h)
        del h

    def pick(self):
        return self.held[self.rnd.choice(list(self.held))]

    def den(self, u):
        return den(self.b, u, self.universe_declared())

    def universe_declared(self):
        # oracle names: declared names only are needed to evaluate; pad to the universe by treating
        # undeclared names as don't-cares (they cannot occur in the diagram)
        return self.universe

    def counts(self):
        c = collections.Counter()
        for h, _ in self.held.values():
            c[abs(self.node(h))] += 1
        return c

    # -- the contract checked after every step ------------------------------------------------------
    def check(self, tag=''):
        if self.mode == 'autoref':
            gc.collect()
        b = self.b
        site = lambda s: s  # noqa
        ext = wf(b, None)
        cnt = self.counts()
        for u, e in ext.items():
            exp = cnt.get(u, 0) + (1 if u == 1 else 0)
            require(e == exp, 'RC-ledger',
                    lambda: f'after {self.log[-6:]}: node {u} ref-indeg={e} but {exp} references are held')
        d = Den(b, self.universe)
        for h, tt in self.held.values():
            got = d.of(self.node(h))
            require(got == tt, 'held-denotation',
                    lambda: f'after {self.log[-6:]}: held ref {self.node(h)} denotes {got}, expected {tt}')

    def check_collected(self):
        """after a full collection: exactly the nodes reachable from held references (and 1) remain."""
        roots = [self.node(h) for h, _ in self.held.values()]
        want = reachable(self.b, roots)
        got = set(self.b._succ)
        require(got == want, 'gc-exact',
                lambda: f'after {self.log[-6:]}: nodes {sorted(got)} but reachable from held = {sorted(want)}')

    # -- operations ---------------------------------------------------------------------------------
    def op_var(self):
        nm = self.rnd.choice(self.declared())
        self.log.append(('var', nm))
        self.keep(self.m.var(nm), self.tt_var(nm))

    def op_build(self):
        """node-by-node construction through find_or_add (dd.bdd only)."""
        names = self.declared()
        sub = self.rnd.sample(names, min(len(names), self.rnd.randint(1, 3)))
        t = self.rnd.getrandbits(1 << len(sub))
        self.log.append(('build', sub, t))
        if self.mode == 'bdd':
            u = build(self.b, t, sub)
        else:
            u = self.m._wrap(build(self.b, t, sub))
        # truth table over the universe
        tt = 0
        idx = [self.universe.index(s) for s in sub]
        for k in range(1 << self.n):
            kk = 0
            for j, i in enumerate(idx):
                kk |= ((k >> i) & 1) << j
            if (t >> kk) & 1:
                tt |= 1 << k
        self.keep(u, tt)

    def op_apply(self):
        cls = self.rnd.choice(['and', 'or', 'xor', 'implies', 'equiv', 'diff', 'not', 'ite'])
        sp = self.rnd.choice(SPELLINGS[cls])
        (f, t), (g, s), (h, r) = self.pick(), self.pick(), self.pick()
        self.log.append(('apply', sp, self.node(f), self.node(g), self.node(h)))
        if cls == 'not':
            self.keep(self.m.apply(sp, f), SPEC[cls](self.n, t))
        elif cls == 'ite':
            self.keep(self.m.apply(sp, f, g, h), SPEC[cls](self.n, t, s, r))
        else:
            self.keep(self.m.apply(sp, f, g), SPEC[cls](self.n, t, s))

    def op_ite(self):
        (f, t), (g, s), (h, r) = self.pick(), self.pick(), self.pick()
        self.log.append(('ite', self.node(f), self.node(g), self.node(h)))
        self.keep(self.m.ite(f, g, h), tt_ite(t, s, r, self.n))

    def op_quant(self):
        f, t = self.pick()
        names = self.declared()
        q = self.rnd.sample(names, self.rnd.randint(0, len(names)))
        fa = self.rnd.random() < .5
        self.log.append(('quantify', self.node(f), q, fa))
        js = [self.universe.index(x) for x in q]
        want = tt_forall(t, js, self.n) if fa else tt_exists(t, js, self.n)
        if self.rnd.random() < .5:
            r = self.m.quantify(f, set(q), fa)
        else:
            r = (self.m.forall if fa else self.m.exist)(q, f)
        self.keep(r, want)

    def op_let(self):
        f, t = self.pick()
        names = self.declared()
        kind = self.rnd.choice(['const', 'func', 'name'])
        sub = self.rnd.sample(names, self.rnd.randint(1, min(3, len(names))))
        if kind == 'const':
            d = {x: self.rnd.random() < .5 for x in sub}
            funcs = {self.universe.index(x): (full(self.n) if v else 0) for x, v in d.items()}
        elif kind == 'func':
            d, funcs = {}, {}
            for x in sub:
                g, s = self.pick()
                d[x] = g
                funcs[self.universe.index(x)] = s
        else:
            tg = [self.rnd.choice(names) for _ in sub]
            d = dict(zip(sub, tg))
            funcs = {self.universe.index(x): self.tt_var(y) for x, y in d.items()}
        self.log.append(('let', kind, self.node(f), {k: (self.node(v) if kind == 'func' else v) for k, v in d.items()}))
        self.keep(self.m.let(d, f), tt_subst(t, funcs, self.n))

    def op_expr(self):
        names = self.declared()
        x, y, z = (self.rnd.choice(names) for _ in range(3))
        forms = [(f'{x} & ~{y}', lambda X, Y, Z: X & ~Y), (f'({x} <-> {y}) ^ {z}', lambda X, Y, Z: ~(X ^ Y) ^ Z),
                 (f'ite({x}, {y}, {z}) => {x}', lambda X, Y, Z: ~((X & Y) | (~X & Z)) | X),
                 (f'\\E {x}: ({x} | {y}) & {z}', None)]
        e, fn = self.rnd.choice(forms)
        self.log.append(('add_expr', e))
        r = self.m.add_expr(e)
        if fn is None:
            X, Y, Z = self.tt_var(x), self.tt_var(y), self.tt_var(z)
            want = tt_exists((X | Y) & Z, [self.universe.index(x)], self.n)
        else:
            want = fn(self.tt_var(x), self.tt_var(y), self.tt_var(z)) & full(self.n)
        self.keep(r, want)

    def op_succ(self):
        """low / high / succ handles."""
        f, t = self.pick()
        u = self.node(f)
        if abs(u) == 1:
            return
        self.log.append(('succ', u))
        i, v, w = self.b._succ[abs(u)]
        j = self.universe.index(self.b._level_to_var[i])
        tp = t if u > 0 else ~t & full(self.n)
        tlo, thi = cof(tp, j, 0, self.n), cof(tp, j, 1, self.n)
        if self.mode == 'autoref':
            which = self.rnd.choice(['low', 'high', 'succ'])
            if which == 'succ':
                _, lo, hi = self.m.succ(f)
                self.keep(lo, tlo)
                self.keep(hi, thi)
            else:
                self.keep(getattr(f, which), tlo if which == 'low' else thi)
        else:
            self.keep(v, tlo)
            self.keep(w, thi)

    def op_copyh(self):
        f, t = self.pick()
        self.log.append(('handle-copy', self.node(f)))
        if self.mode == 'autoref':
            # a second Function object for the same node: through the manager, or as a shallow copy of the object
            self.keep(self.m._add_int(int(f)) if self.rnd.random() < .5 else copy.copy(f), t)
        else:
            self.keep(f, t)

    def op_drop(self):
        if self.held:
            k = self.rnd.choice(list(self.held))
            self.log.append(('drop', self.node(self.held[k][0])))
            self.drop(k)

    def op_gc(self):
        self.log.append(('collect_garbage',))
        self.m.collect_garbage()
        if self.mode == 'autoref':
            gc.collect()
        self.check_collected()

    def op_gc_roots(self):
        if self.mode != 'bdd':
            return self.op_gc()
        roots = [self.rnd.choice(list(self.b._succ)) for _ in range(3)]
        self.log.append(('collect_garbage', roots))
        self.b.collect_garbage(roots)

    def op_swap(self):
        n = len(self.b.vars)
        if n < 2:
            return
        i = self.rnd.randrange(n - 1)
        self.log.append(('swap', i, i + 1))
        if self.rnd.random() < .5:
            self.b.swap(i, i + 1)
        else:
            self.b.swap(self.b.var_at_level(i + 1), self.b.var_at_level(i))

    def op_sift(self):
        self.log.append(('reorder',))
        if self.mode == 'autoref':
            self.m.reorder()
        else:
            self.B.reorder(self.b)

    def op_order(self):
        p = list(self.b.vars)
        self.rnd.shuffle(p)
        o = shuffled_dict({nm: k for k, nm in enumerate(p)}, self.rnd)
        self.log.append(('reorder', o))
        if self.mode == 'autoref':
            self.m.reorder(o)
        else:
            self.B.reorder(self.b, o)
        require(dict(self.b.vars) == o, 'reorder#post:requested-order', lambda: f'{self.b.vars} != {o}')

    def op_pairs(self):
        names = list(self.b.vars)
        if len(names) < 2:
            return
        self.rnd.shuffle(names)
        k = self.rnd.randint(1, len(names) // 2)
        pairs = {names[2 * i]: names[2 * i + 1] for i in range(k)}
        self.log.append(('reorder_to_pairs', pairs))
        self.B.reorder_to_pairs(self.b, pairs)
        if True:
            for x, y in pairs.items():
                require(abs(self.b.vars[x] - self.b.vars[y]) == 1, 'reorder_to_pairs#post:adjacent',
                        lambda: f'{pairs} -> {self.b.vars}')

    def op_declare(self):
        free = [nm for nm in self.universe if nm not in self.b.vars]
        nm = self.rnd.choice(free) if free and self.rnd.random() < .7 else self.rnd.choice(self.universe)
        self.log.append(('declare', nm))
        before = dict(self.b.vars)
        if self.rnd.random() < .5:
            self.m.declare(nm)
        else:
            lv = self.m.add_var(nm)
            require(lv == self.b.vars[nm], 'add_var#post:returned-level', nm)
        if nm in before:
            require(dict(self.b.vars) == before, 'add_var#post:idempotent', lambda: f'{before} -> {self.b.vars}')
        else:
            require(self.b.vars[nm] == len(before) and all(self.b.vars[x] == l for x, l in before.items()),
                    'add_var#post:next-bottom-level', lambda: f'{before} -> {self.b.vars}')

    def op_undeclare(self):
        b = self.b
        used = {b._level_to_var[i] for i, _, _ in b._succ.values() if i < len(b.vars)}
        unused = [nm for nm in b.vars if nm not in used]
        before = dict(b.vars)
        if self.rnd.random() < .3:
            self.log.append(('undeclare_vars',))
            rm = b.undeclare_vars()
            want_rm = set(unused)
        else:
            if not unused:
                return
            sel = self.rnd.sample(unused, self.rnd.randint(1, len(unused)))
            if self.rnd.random() < .3:
                sel.append(sel[0])       # the same name twice
            self.log.append(('undeclare_vars', sel))
            rm = b.undeclare_vars(*sel)
            want_rm = set(sel)
        require(set(rm) == want_rm, 'undeclare_vars#post:removed-set', lambda: f'{rm} vs {want_rm}')
        rest = sorted((nm for nm in before if nm not in want_rm), key=before.get)
        require(dict(b.vars) == {nm: k for k, nm in enumerate(rest)}, 'undeclare_vars#post:compacted-order',
                lambda: f'{before} minus {want_rm} -> {b.vars}')

    def op_fork(self):
        """copy.copy(manager): work in the copy must not leak into the original"""
        self.log.append(('copy.copy + work in the copy',))
        fork_and_discard(self.b, self.declared(), self.rnd) if len(self.declared()) >= 1 else None

    def op_copy_out(self):
        """copy a held function into a second manager (different order, dynamic reordering on with a small threshold)
        and back: both copies must denote the same function; neither manager may be disturbed"""
        f, t = self.pick()
        names = self.declared()
        o = names[:]
        self.rnd.shuffle(o)
        self.log.append(('copy to second manager and back', self.node(f), o))
        if self.mode == 'autoref':
            other = self.A.BDD(shuffled_dict({nm: k for k, nm in enumerate(o)}, self.rnd))
            other.configure(reordering=True)
            other._bdd._last_len = self.rnd.choice([1, 2, 4])
            g = self.m.copy(f, other) if self.rnd.random() < .5 else self.A.copy_bdd(f, other)
            require(den(other._bdd, g.node, self.universe) == t, 'copy#post:same-function-by-name', lambda: f'{self.node(f)}')
            require(other.configure()['reordering'] is True, 'copy#post:reordering-setting-kept', '')
            back = other.copy(g, self.m)
            wf(other._bdd)
            del g
            self.keep(back, t)
        else:
            other = self.B.BDD(shuffled_dict({nm: k for k, nm in enumerate(o)}, self.rnd))
            other.configure(reordering=True)
            other._last_len = self.rnd.choice([1, 2, 4])
            g = self.b.copy(f, other)
            other.incref(g)
            require(den(other, g, self.universe) == t, 'copy#post:same-function-by-name', lambda: f'{f}')
            require(other.configure()['reordering'] is True, 'copy#post:reordering-setting-kept', '')
            back = other.copy(g, self.b)
            wf(other)
            other.decref(g)
            self.keep(back, t)

    def op_image(self):
        """relational product through dd.bdd.image with a (possibly non-adjacent) rename pair"""
        names = self.declared()
        if len(names) < 3 or not self.held:
            return
        (f, t), (g, s_) = self.pick(), self.pick()
        x, xp = self.rnd.sample(names, 2)
        jx, jxp = self.universe.index(x), self.universe.index(xp)
        # precondition of image: the rename target x is quantified
        self.log.append(('image', self.node(f), self.node(g), {xp: x}, {x}))
        conj = t & s_
        q = tt_exists(conj, [jx], self.n)
        want = tt_subst(q, {jxp: vmask(jx, self.n)}, self.n)
        if self.mode == 'autoref':
            r = self.A.image(f, g, {xp: x}, {x})
        else:
            r = self.B.image(f, g, {xp: x}, {x}, self.b)
        self.keep(r, want)

    def op_iop(self):
        """augmented assignment on a name bound to a held Function (`h = f; h &= g`): `h` becomes the conjunction / disjunction, the object
        that is still held elsewhere keeps its function"""
        if self.mode != 'autoref':
            return self.op_apply()
        (f, t), (g, s) = self.pick(), self.pick()
        which = self.rnd.choice(['&=', '|='])
        self.log.append((which, self.node(f), self.node(g)))
        h = f
        if which == '&=':
            h &= g
            want = t & s
        else:
            h |= g
            want = t | s
        self.keep(h, want)

    def op_json(self):
        """dump a few held functions to a JSON file and load them back into the same manager (dd.autoref): the loaded handles denote the
        same functions and the ledger stays exact (the nodes of the file already exist and are already referenced)"""
        if self.mode != 'autoref':
            return self.op_var()
        import os
        import shutil
        import tempfile
        ks = self.rnd.sample(list(self.held), min(len(self.held), self.rnd.randint(1, 3)))
        fs = [self.held[k] for k in ks]
        self.log.append(('dump + load json', [self.node(f) for f, _ in fs]))
        td = tempfile.mkdtemp(prefix='verif_hist_')
        cwd = os.getcwd()
        os.chdir(td)      # the JSON loader keeps its scratch files in a fixed directory below the current one
        try:
            fn = os.path.join(td, 'h.json')
            if self.rnd.random() < .5:
                self.m.dump(fn, [f for f, _ in fs])
                back = self.m.load(fn)
            else:
                self.m.dump(fn, {f'r{i}': f for i, (f, _) in enumerate(fs)})
                d = self.m.load(fn)
                back = [d[f'r{i}'] for i in range(len(fs))]
        finally:
            os.chdir(cwd)
            shutil.rmtree(td, ignore_errors=True)
        require(len(back) == len(fs), 'json-load#post:same-positions', lambda: f'{back}')
        for g, (_, t) in zip(back, fs):
            self.keep(g, t)

    OPS = dict(iop=op_iop, json=op_json, fork=op_fork, copyout=op_copy_out, image=op_image, var=op_var, build=op_build, apply=op_apply, ite=op_ite, quant=op_quant, let=op_let, expr=op_expr,
               succ=op_succ, copyh=op_copyh, drop=op_drop, gc=op_gc, gcroots=op_gc_roots, swap=op_swap,
               sift=op_sift, order=op_order, pairs=op_pairs, declare=op_declare, undeclare=op_undeclare)

    def step(self, op):
        needs_held = op in ('apply', 'ite', 'quant', 'let', 'succ', 'copyh', 'copyout', 'image', 'json', 'iop')
        if needs_held and not self.held:
            op = 'var'
        if op in ('var', 'build', 'expr', 'let', 'quant') and not self.declared():
            op = 'declare'
        self.OPS[op](self)

    def finish(self):
        """drop everything: nothing is referenced any more (C06/C08 closing clause)."""
        for k in list(self.held):
            self.drop(k)
        if self.mode == 'autoref':
            gc.collect()
        self.log.append(('final-collect',))
        self.m.collect_garbage()
        b = self.b
        require(set(b._succ) == {1} and b._ref[1] == 1, 'final#only-terminal-left',
                lambda: f'after dropping all references: nodes {sorted(b._succ)} refs {dict(b._ref)}')
        try:
            b.__del__()
        except AssertionError as e:
            raise Viol('final#shutdown-check', str(e)[:300])
        # the manager owns one reference to the terminal again for the interpreter's own __del__
        b._ref[1] = 1


def run_history(c, res, ops, weights=None, extra_check=None):
    rnd = random.Random(c['seed'])
    names = c.get('names', ALLNAMES[:4])
    sim = Sim(c.get('mode', 'bdd'), names, universe=c.get('universe'), order=c.get('order'),
              reordering=c.get('reordering'), rnd=rnd)
    steps = c.get('steps', 30)
    for _ in range(steps):
        op = rnd.choices(ops, weights)[0]
        sim.step(op)
        sim.check()
        if extra_check:
            extra_check(sim)
        res.count('steps')
    sim.finish()
    return [tuple(map(str, sim.log[:8]))]
