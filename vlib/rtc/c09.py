"""C09 bounded stand-in: fire the reordering request at the k-th node creation of every public operation."""
import gc
import itertools
import os
import random
import tempfile

from vlib.rtc.lib import *  # noqa

RULE = ('for every public operation of dd.autoref and of dd.bdd with referenced operands (var, apply per connective class '
        'and quantifier alias, ite, quantify/exist/forall (variables as list, set, one-shot iterator, generator), let with constants/functions/names, add_expr, cube, copy/copy_bdd '
        'into a second manager, find_or_add, image, preimage, pickle and JSON load, Function operators, succ/low/high) on '
        'random managers of 4-5 variables: the operation is first run with reordering enabled but never firing to count '
        'its K requests, then re-run on an identical manager with the request firing at k = 1..K (all k if K <= 12, else '
        '12 sampled); plus natural firing with thresholds 1, 2, 4. Checked: the signal never reaches the caller, result '
        'and all live references denote what the truth-table oracle says, wf(), exact ledger, reordering still enabled. '
        'non-trivial: the trigger actually fired; distinct = (operation, k, seed).')
EXHAUSTIVE = {'quick': False, 'thorough': False}
REQUIRED_COUNTERS = ['fired', 'ops-run']
OPS = ['var', 'apply', 'applyq', 'ite', 'quantify', 'let_const', 'let_func', 'let_name', 'add_expr', 'cube', 'copy',
       'copy_bdd', 'find_or_add', 'image', 'preimage', 'load_pickle', 'load_json', 'operators', 'succ', 'primitive']


def bounds(tier):
    return dict(variables='4-5', contexts_per_op=3 if tier == 'quick' else 40 * max(1, DEEP // 4), trigger_positions='all k <= 12, else 12 sampled')


def chunks(tier, seed):
    per = 3 if tier == 'quick' else 40 * max(1, DEEP // 4)
    out = []
    for op in OPS:
        for mode in ('autoref', 'bdd'):
            for k in range(0, per, 3):
                out.append(('case_op', [dict(op=op, mode=mode, seed=seed * 7907 + k + i) for i in range(min(3, per - k))]))
    return out


class Ctx:
    def __init__(self, c):
        import dd.autoref as A
        import dd.bdd as B
        self.A, self.B = A, B
        self.c = c
        rnd = self.rnd = random.Random(c['seed'])
        self.mode = c['mode']
        # image/preimage need primed partners adjacent
        if c['op'] in ('image', 'preimage'):
            self.names = ['x', 'xp', 'y', 'yp', 'z']
            order = self.names[:]
        else:
            self.names = ['a', 'b', 'c', 'd', 'e'][:4 + rnd.randint(0, 1)]
            order = self.names[:]
            rnd.shuffle(order)
        self.n = len(self.names)
        lv = shuffled_dict({nm: k for k, nm in enumerate(order)}, rnd)
        if self.mode == 'autoref':
            self.m = A.BDD(lv)
            self.b = self.m._bdd
        else:
            self.m = self.b = B.BDD(lv)
        self.held = []   # (handle, tt)
        for _ in range(4):
            t = rnd.getrandbits(1 << self.n)
            self.hold(self.wrap(build(self.b, t, self.names)), t)
        # second manager for copies
        o2 = self.names[:]
        rnd.shuffle(o2)
        if self.mode == 'autoref':
            self.m2 = A.BDD({nm: k for k, nm in enumerate(o2)})
            self.b2 = self.m2._bdd
        else:
            self.m2 = self.b2 = B.BDD({nm: k for k, nm in enumerate(o2)})
        self.m.configure(reordering=True)
        self.m2.configure(reordering=True)
        self.held2 = []

    def wrap(self, u):
        return self.m._wrap(u) if self.mode == 'autoref' else u

    def hold(self, h, t):
        if self.mode == 'bdd':
            self.b.incref(h)
        self.held.append((h, t))

    def node(self, h):
        return h.node if self.mode == 'autoref' else h

    def tv(self, nm):
        return vmask(self.names.index(nm), self.n)


def _prepare(ctx):
    """returns (thunk, expected truth table or None, target manager 'b' or 'b2', opname)."""
    c, rnd, m, b, n, names = ctx.c, ctx.rnd, ctx.m, ctx.b, ctx.n, ctx.names
    op = c['op']
    F = full(n)
    (f, tf), (g, tg), (h, th) = ctx.held[0], ctx.held[1], ctx.held[2]
    auto = ctx.mode == 'autoref'
    nd = ctx.node
    if op == 'var':
        nm = rnd.choice(names)
        return (lambda: m.var(nm)), ctx.tv(nm), 'b'
    if op == 'apply':
        cls = rnd.choice(['and', 'or', 'xor', 'implies', 'equiv', 'diff'])
        sp = rnd.choice(SPELLINGS[cls])
        return (lambda: m.apply(sp, f, g)), SPEC[cls](n, tf, tg), 'b'
    if op == 'applyq':
        sub = rnd.sample(names, 2)
        fa = rnd.random() < .5
        js = [names.index(x) for x in sub]
        want = tt_forall(tg, js, n) if fa else tt_exists(tg, js, n)
        tq = ctx.tv(sub[0]) & ctx.tv(sub[1])
        q = ctx.wrap(build(b, tq, names))
        ctx.hold(q, tq)
        sp = rnd.choice(['\\A', 'forall'] if fa else ['\\E', 'exists'])
        return (lambda: m.apply(sp, q, g)), want, 'b'
    if op == 'ite':
        return (lambda: m.ite(f, g, h)), tt_ite(tf, tg, th, n), 'b'
    if op == 'quantify':
        sub = rnd.sample(names, rnd.randint(1, 3))
        fa = rnd.random() < .5
        js = [names.index(x) for x in sub]
        want = tt_forall(tf, js, n) if fa else tt_exists(tf, js, n)
        which = rnd.randrange(4)
        if which == 1:
            return (lambda: (m.forall if fa else m.exist)(sub, f)), want, 'b'
        if which == 2:
            # the variables as a one-shot iterator (the parameter is documented as an iterable)
            return (lambda: (m.forall if fa else m.exist)(iter(sub), f)), want, 'b'
        if which == 3:
            return (lambda: m.quantify(f, (x for x in sub), forall=fa)), want, 'b'
        return (lambda: m.quantify(f, set(sub), fa)), want, 'b'
    if op == 'let_const':
        sub = rnd.sample(names, rnd.randint(1, 2))
        d = {x: rnd.random() < .5 for x in sub}
        return (lambda: m.let(d, f)), tt_subst(tf, {names.index(x): (F if v else 0) for x, v in d.items()}, n), 'b'
    if op == 'let_func':
        k = rnd.randint(1, 2)
        sub = rnd.sample(names, k)
        srcs = [(g, tg), (h, th)][:k]
        d = {x: s[0] for x, s in zip(sub, srcs)}
        return (lambda: m.let(d, f)), tt_subst(tf, {names.index(x): s[1] for x, s in zip(sub, srcs)}, n), 'b'
    if op == 'let_name':
        sub = rnd.sample(names, 2)
        d = {sub[0]: sub[1], sub[1]: sub[0]} if rnd.random() < .5 else {sub[0]: sub[1]}
        return (lambda: m.let(d, f)), tt_subst(tf, {names.index(x): ctx.tv(y) for x, y in d.items()}, n), 'b'
    if op == 'add_expr':
        x, y, z, w = (rnd.choice(names) for _ in range(4))
        e = f'({x} /\\ ~ {y}) \\/ ({z} <=> {w}) \\/ (\\E {x}: ({x} # {z}) /\\ {w})'
        X, Y, Z, W = ctx.tv(x), ctx.tv(y), ctx.tv(z), ctx.tv(w)
        want = ((X & ~Y) | ~(Z ^ W) | tt_exists((X ^ Z) & W, [names.index(x)], n)) & F
        return (lambda: m.add_expr(e)), want, 'b'
    if op == 'cube':
        sub = rnd.sample(names, 3)
        d = {x: rnd.random() < .5 for x in sub}
        want = F
        for x, v in d.items():
            want &= ctx.tv(x) if v else ~ctx.tv(x) & F
        return (lambda: m.cube(d)), want, 'b'
    if op == 'copy':
        return (lambda: m.copy(f, ctx.m2)), tf, 'b2'
    if op == 'copy_bdd':
        if auto:
            return (lambda: ctx.A.copy_bdd(f, ctx.m2)), tf, 'b2'
        return (lambda: ctx.B.copy_bdd(f, b, ctx.b2)), tf, 'b2'
    if op == 'find_or_add':
        # children strictly below the chosen variable
        top = b.var_at_level(0)
        j = names.index(top)
        t0, t1 = cof(tg, j, 0, n), cof(th, j, 1, n)
        lo, hi = ctx.wrap(build(b, t0, names)), ctx.wrap(build(b, t1, names))
        ctx.hold(lo, t0); ctx.hold(hi, t1)
        want = (ctx.tv(top) & t1) | (~ctx.tv(top) & t0 & F)
        if auto:
            return (lambda: m.find_or_add(top, lo, hi)), want, 'b'
        # dd.bdd: the public route a user has: var + ite, with the variable node referenced as well
        last, b._last_len = b._last_len, None
        xv = m.var(top)
        b._last_len = last
        ctx.hold(xv, ctx.tv(top))
        return (lambda: m.ite(xv, hi, lo)), want, 'b'
    if op == 'primitive':
        top = b.var_at_level(0)
        j = names.index(top)
        t0, t1 = cof(tg, j, 0, n), cof(th, j, 1, n)
        lo, hi = build(b, t0, names), build(b, t1, names)
        b.incref(lo); b.incref(hi)
        ctx.held.append((ctx.wrap(lo) if auto else lo, t0))
        ctx.held.append((ctx.wrap(hi) if auto else hi, t1))
        if auto:
            b.decref(lo); b.decref(hi)
        want = (ctx.tv(top) & t1) | (~ctx.tv(top) & t0 & F)
        return (lambda: ctx.wrap(b.find_or_add(b.vars[top], lo, hi))), want, 'b'
    if op in ('image', 'preimage'):
        X, XP, Y, YP, Z = (ctx.tv(v) for v in names)
        fa = rnd.random() < .3
        if op == 'image':
            # source over unprimed variables; rename primed -> unprimed; quantify unprimed partners
            ts = cofree(tg, [names.index('xp'), names.index('yp')], n)
            s = ctx.wrap(build(b, ts, names)); ctx.hold(s, ts)
            conj = tf & ts
            js = [names.index('x'), names.index('y')]
            q = tt_forall(conj, js, n) if fa else tt_exists(conj, js, n)
            want = tt_subst(q, {names.index('xp'): X, names.index('yp'): Y}, n)
            ren = {'xp': 'x', 'yp': 'y'}
            qv = {'x', 'y'}
            if auto:
                return (lambda: ctx.A.image(f, s, ren, qv, fa)), want, 'b'
            return (lambda: ctx.B.image(f, s, ren, qv, b, fa)), want, 'b'
        ts = cofree(tg, [names.index('xp'), names.index('yp')], n)
        s = ctx.wrap(build(b, ts, names)); ctx.hold(s, ts)
        rs = tt_subst(ts, {names.index('x'): XP, names.index('y'): YP}, n)
        conj = tf & rs
        js = [names.index('xp'), names.index('yp')]
        want = tt_forall(conj, js, n) if fa else tt_exists(conj, js, n)
        ren = {'x': 'xp', 'y': 'yp'}
        qv = {'xp', 'yp'}
        if auto:
            return (lambda: ctx.A.preimage(f, s, ren, qv, fa)), want, 'b'
        return (lambda: ctx.B.preimage(f, s, ren, qv, b, fa)), want, 'b'
    if op in ('load_pickle', 'load_json'):
        if op == 'load_json' and not auto:
            return None
        td = tempfile.mkdtemp(prefix='verif_c09_')
        ctx.tmp = td
        fn = os.path.join(td, 'f.p' if op == 'load_pickle' else 'f.json')
        last, b._last_len = b._last_len, None
        cwd = os.getcwd()
        os.chdir(td)
        try:
            m.dump(fn, [f, g])
        finally:
            os.chdir(cwd)
            b._last_len = last

        def thunk():
            os.chdir(td)
            try:
                if op == 'load_pickle':
                    return ctx.m2.load(fn, levels=False)[0]
                return ctx.m2.load(fn)[0]
            finally:
                os.chdir(cwd)
        return thunk, tf, 'b2'
    if op == 'operators':
        if not auto:
            return None
        which = rnd.choice(['&', '|', 'implies', 'equiv', '~', '<='])
        if which == '&':
            return (lambda: f & g), tf & tg, 'b'
        if which == '|':
            return (lambda: f | g), tf | tg, 'b'
        if which == 'implies':
            return (lambda: f.implies(g)), (~tf | tg) & F, 'b'
        if which == 'equiv':
            return (lambda: f.equiv(g)), ~(tf ^ tg) & F, 'b'
        if which == '~':
            return (lambda: ~f), ~tf & F, 'b'
        exp = (tf & ~tg & F) == 0
        return (lambda: ('bool', f <= g)), ('bool', exp), 'b'
    if op == 'succ':
        if not auto or abs(f.node) == 1:
            return None
        i, v, w = b._succ[abs(f.node)]
        j = names.index(b._level_to_var[i])
        tp = tf if f.node > 0 else ~tf & F
        return (lambda: f.high), cof(tp, j, 1, n), 'b'
    raise KeyError(op)


def cofree(t, js, n):
    for j in js:
        t = cof(t, j, 0, n)
    return t


def _run(c, k, res):
    """k = None: count requests only; k >= 1: fire at the k-th request; k = -T: natural threshold T."""
    import dd.bdd as B
    ctx = Ctx(c)
    prep = _prepare(ctx)
    if prep is None:
        return None
    thunk, want, where = prep
    state = {'n': 0, 'fired': 0}
    orig = B._request_reordering

    def req(bdd):
        if bdd._last_len is None:
            return
        state['n'] += 1
        if k is not None and k > 0 and state['n'] == k:
            state['fired'] += 1
            raise B._NeedsReordering()

    opname = f"dd.{'autoref' if ctx.mode == 'autoref' else 'bdd'}.{c['op']}"
    if c['op'] == 'primitive':
        opname = 'dd.bdd.BDD.find_or_add'
    if k is not None and k < 0:
        ctx.b._last_len = -k
        ctx.b2._last_len = -k
        natural_before = dict(ctx.b.vars), dict(ctx.b2.vars)
    else:
        B._request_reordering = req
    try:
        try:
            r = thunk()
        except B._NeedsReordering:
            raise Viol(f'signal-escapes:{opname}', f'k={k} seed={c["seed"]}: _NeedsReordering reached the caller')
    finally:
        B._request_reordering = orig
        if getattr(ctx, 'tmp', None):
            import shutil
            shutil.rmtree(ctx.tmp, ignore_errors=True)
    res.count('ops-run')
    if k is not None and k < 0:
        if natural_before != (dict(ctx.b.vars), dict(ctx.b2.vars)):
            state['fired'] = 1
    if state['fired']:
        res.count('fired')
    tb = ctx.b if where == 'b' else ctx.b2
    if isinstance(want, tuple):
        require(r == want, f'{opname}#post:same-result-as-without-reordering', lambda: f'k={k}: {r} vs {want}')
    else:
        rn = r.node if hasattr(r, 'node') else r
        got = den(tb, rn, ctx.names)
        require(got == want, f'{opname}#post:same-result-as-without-reordering',
                lambda: f'k={k} fired={state["fired"]} seed={c["seed"]}: result denotes {got}, oracle {want}')
    # operands and other live references unaffected
    for h, t in ctx.held:
        got = den(ctx.b, ctx.node(h), ctx.names)
        require(got == t, f'{opname}#post:live-references-unaffected', lambda: f'k={k}: {ctx.node(h)} {t}->{got}')
    require(ctx.m.configure()['reordering'] is True and ctx.m2.configure()['reordering'] is True,
            f'{opname}#post:reordering-still-enabled', f'k={k}')
    require(ctx.b._reordering_context is False, f'{opname}#post:context-flag-restored', f'k={k}')
    # canonical, exact counts
    r_keep = r
    if ctx.mode == 'autoref':
        gc.collect()
        for bb, handles in ((ctx.b, [h for h, _ in ctx.held] + ([r] if where == 'b' and hasattr(r, 'node') else [])),
                            (ctx.b2, ([r] if where == 'b2' and hasattr(r, 'node') else []))):
            ext = wf(bb)
            cnt = {}
            for h in handles:
                cnt[abs(h.node)] = cnt.get(abs(h.node), 0) + 1
            for u, e in ext.items():
                require(e == cnt.get(u, 0) + (1 if u == 1 else 0), f'{opname}#post:ledger',
                        lambda: f'k={k}: node {u} ref-indeg={e} live handles={cnt.get(u, 0)}')
    else:
        wf(ctx.b)
        wf(ctx.b2)
    # leave managers releasable
    del r_keep, r
    if ctx.mode == 'bdd':
        for h, _ in ctx.held:
            ctx.b.decref(h)
    ctx.held = []
    return state['n']


def case_op(c, res):
    K = _run(c, None, res)
    if K is None:
        return None
    ks = list(range(1, K + 1))
    if len(ks) > 12:
        rnd = random.Random(c['seed'])
        ks = sorted(rnd.sample(ks, 12))
    for k in ks:
        _run(c, k, res)
    for T in (1, 2, 4):
        _run(c, -T, res)
    res.evals += len(ks) + 3
    return [(c['op'], c['mode'], c['seed'], k) for k in ks]
