"""C17 bounded stand-in: rejected calls injected into histories leave everything intact."""
import gc
import os
import random
import shutil
import tempfile

from vlib.rtc.lib import *  # noqa
from vlib.rtc import hist

KINDS = ['var-undeclared', 'expr-undeclared', 'expr-syntax', 'expr-unknown-node', 'apply-unknown-op', 'apply-arity-unary',
         'apply-arity-binary', 'apply-arity-ternary', 'apply-unknown-node-1', 'apply-unknown-node-2', 'apply-foreign',
         'ite-unknown-node', 'let-undeclared', 'let-unknown-node', 'let-bad-value', 'quantify-undeclared', 'add_var-conflict',
         'add_var-occupied', 'reorder-bad-order-size', 'reorder-bad-order-names', 'swap-nonadjacent', 'swap-range',
         'undeclare-used', 'undeclare-unknown', 'load-missing-file', 'load-bad-extension', 'load-directory',
         'load-json-missing', 'dump-bad-extension', 'foa-bad-level', 'foa-unknown-low', 'foa-unknown-high',
         'count-small-n', 'cofactor-unknown-node', 'rename-undeclared', 'copy-foreign', 'to_expr-unknown', 'add_int-unknown',
         'pick_iter-unknown', 'Function-unknown-node', 'configure-unknown', 'cube-undeclared', 'support-foreign',
         'var_at_level-unknown', 'level_of_var-unknown', 'image-overlap', 'descendants-unknown']
RULE = ('each of %d kinds of rejected call (undeclared variable, foreign/unknown node in every argument position, unknown '
        'operator, wrong arity for every arity class, syntax errors at every token position of valid formulas, conflicting / '
        'occupied level, bad order, non-adjacent swap, variable in use, unreadable / missing / mistyped files, ...) injected '
        'after every step of random histories on dd.bdd and dd.autoref, dynamic reordering off and on; after each rejected '
        'call: wf(), exact ledger, truth table of every live reference, order bijection; then one successful operation, a '
        'JSON/pickle round trip in the same working directory and a collection must behave normally. non-trivial: the call '
        'raised; distinct = (kind, position in history, seed).' % len(KINDS))
EXHAUSTIVE = {'quick': False, 'thorough': False}
REQUIRED_COUNTERS = ['rejected-calls-checked', 'steps']
OPS = ['var', 'build', 'apply', 'ite', 'quant', 'let', 'drop', 'gc', 'swap', 'copyh']


def bounds(tier):
    return dict(kinds=len(KINDS), histories=200 if tier == 'quick' else 5000, steps='5-25', syntax_positions='every token position')


def chunks(tier, seed):
    n = 200 if tier == 'quick' else 5000
    out = []
    for k in range(0, n, 10):
        out.append(('case_history', [dict(seed=seed * 6007 + k + i, mode=['bdd', 'autoref'][(k + i) % 2],
                                          reordering=[None, 2, 8][(k + i) % 3]) for i in range(10)]))
    out.append(('case_syntax_positions', [dict(seed=seed + k, mode=['bdd', 'autoref'][k % 2]) for k in range(4 if tier == 'quick' else 40)]))
    return out


def rejected_call(sim, kind, other, td):
    """returns a thunk performing the rejected call, or None if not applicable in this state."""
    m, b, rnd = sim.m, sim.b, sim.rnd
    auto = sim.mode == 'autoref'
    held = [h for h, _ in sim.held.values()]
    f = rnd.choice(held)
    unknown = max(b._succ) + 7
    names = list(b.vars)
    A, B = sim.A, sim.B

    def foreign():
        # a reference that belongs to another manager / does not exist here
        if auto:
            return other.add_expr('q1 & ~q2 | q3 & q4 & q5')
        return unknown
    wrap_unknown = (lambda: foreign())
    k = kind
    if k == 'var-undeclared':
        return lambda: m.var('no_such_var')
    if k == 'expr-undeclared':
        return lambda: m.add_expr(f'{names[0]} /\\ no_such_var')
    if k == 'expr-syntax':
        return lambda: m.add_expr(rnd.choice([f'{names[0]} /\\', f'{names[0]} {names[0]}', '(', f'ite({names[0]}, {names[0]})',
                                              f'\\E : {names[0]}', f'{names[0]} $ {names[0]}', f'\\S {names[0]}: {names[0]}']))
    if k == 'expr-unknown-node':
        return lambda: m.add_expr(f'@{unknown} /\\ {names[0]}')
    if k == 'apply-unknown-op':
        return lambda: m.apply(rnd.choice(['nand', '<>', 'AND', '']), f, f)
    if k == 'apply-arity-unary':
        return lambda: m.apply('~', f, f)
    if k == 'apply-arity-binary':
        return (lambda: m.apply('and', f)) if rnd.random() < .5 else (lambda: m.apply('or', f, f, f))
    if k == 'apply-arity-ternary':
        return lambda: m.apply('ite', f, f)
    if k == 'apply-unknown-node-1':
        return lambda: m.apply('and', foreign(), f)
    if k == 'apply-unknown-node-2':
        return lambda: m.apply('xor', f, foreign())
    if k == 'apply-foreign':
        return lambda: m.apply('ite', f, f, foreign())
    if k == 'ite-unknown-node':
        pos = rnd.randrange(3)
        args = [f, f, f]
        return lambda: m.ite(*[foreign() if i == pos else a for i, a in enumerate(args)])
    if k == 'let-undeclared':
        return lambda: m.let({'no_such_var': rnd.choice([True, f, names[0]])}, f)
    if k == 'let-unknown-node':
        return lambda: m.let({names[0]: f}, foreign())
    if k == 'let-bad-value':
        return lambda: m.let({names[0]: 3.5}, f)
    if k == 'quantify-undeclared':
        return lambda: m.quantify(f, {'no_such_var'}, rnd.random() < .5)
    if k == 'add_var-conflict':
        x = rnd.choice(names)
        return lambda: m.add_var(x, (b.vars[x] + 1) % (len(names) + 1) if len(names) > 0 else 5)
    if k == 'add_var-occupied':
        return lambda: m.add_var('brand_new_name', rnd.randrange(len(names)))
    if k == 'reorder-bad-order-size':
        o = {x: i for i, x in enumerate(names[:-1])}
        return (lambda: m.reorder(o)) if auto else (lambda: B.reorder(b, o))
    if k == 'reorder-bad-order-names':
        o = {('zz' + x): i for i, x in enumerate(names)}
        return (lambda: m.reorder(o)) if auto else (lambda: B.reorder(b, o))
    if k == 'swap-nonadjacent':
        if len(names) < 3:
            return None
        return lambda: b.swap(0, 2)
    if k == 'swap-range':
        return lambda: b.swap(len(names) - 1, len(names))
    if k == 'undeclare-used':
        used = sorted({b._level_to_var[i] for u, (i, _, _) in b._succ.items() if u != 1})
        if not used:
            return None
        return lambda: b.undeclare_vars(rnd.choice(used))
    if k == 'undeclare-unknown':
        return lambda: b.undeclare_vars('no_such_var')
    if k == 'load-missing-file':
        return lambda: m.load(os.path.join(td, 'missing.p'))
    if k == 'load-bad-extension':
        return lambda: m.load(os.path.join(td, 'file.txt'))
    if k == 'load-directory':
        os.makedirs(os.path.join(td, 'adir.p'), exist_ok=True)
        return lambda: m.load(os.path.join(td, 'adir.p'))
    if k == 'load-json-missing':
        if not auto:
            return None
        return lambda: m.load(os.path.join(td, 'missing.json'))
    if k == 'dump-bad-extension':
        return lambda: m.dump(os.path.join(td, 'out.xyz'), [f])
    if k == 'foa-bad-level':
        return lambda: b.find_or_add(rnd.choice([-1, len(names), len(names) + 3]), -1, 1)
    if k == 'foa-unknown-low':
        return lambda: b.find_or_add(0, unknown, 1)
    if k == 'foa-unknown-high':
        return lambda: b.find_or_add(0, -1, unknown)
    if k == 'count-small-n':
        node = sim.node(f)
        s = len(b.support(node))
        if s == 0:
            return None
        return lambda: m.count(f, s - 1)
    if k == 'cofactor-unknown-node':
        return lambda: b.cofactor(unknown, {names[0]: True})
    if k == 'rename-undeclared':
        return lambda: m.let({names[0]: 'no_such_var'}, f)
    if k == 'copy-foreign':
        if auto:
            return lambda: m.copy(foreign(), other)
        return lambda: b.copy(unknown, other._bdd)
    if k == 'to_expr-unknown':
        return lambda: m.to_expr(foreign())
    if k == 'add_int-unknown':
        return lambda: m._add_int(unknown)
    if k == 'pick_iter-unknown':
        return lambda: list(m.pick_iter(foreign()))
    if k == 'Function-unknown-node':
        if not auto:
            return None
        return lambda: A.Function(unknown, m)
    if k == 'configure-unknown':
        return lambda: m.configure(no_such_option=True)
    if k == 'cube-undeclared':
        return lambda: m.cube({names[0]: True, 'no_such_var': False})
    if k == 'support-foreign':
        return lambda: m.support(foreign())
    if k == 'var_at_level-unknown':
        return lambda: m.var_at_level(len(names) + 2)
    if k == 'level_of_var-unknown':
        return lambda: m.level_of_var('no_such_var')
    if k == 'image-overlap':
        if len(names) < 2:
            return None
        ren = {names[0]: names[1], names[1]: names[0]}
        if auto:
            return lambda: A.image(f, f, ren, {names[0]})
        return lambda: B.image(f, f, ren, {names[0]}, b)
    if k == 'descendants-unknown':
        return lambda: b.descendants([unknown])
    raise KeyError(kind)


def after_normal(sim, td):
    """subsequent operations and collections behave normally."""
    sim.step(sim.rnd.choice(['apply', 'build', 'quant', 'let']))
    sim.check()
    if sim.held:
        h, t = sim.pick()
        cwd = os.getcwd()
        os.chdir(td)
        try:
            if sim.mode == 'autoref' and sim.rnd.random() < .5:
                sim.m.dump('ok.json', [h])
                r, = sim.m.load('ok.json')
            else:
                sim.m.dump('ok.p', [h])
                r, = sim.m.load('ok.p')
            require(den(sim.b, sim.node(r), sim.universe) == t, 'after-rejected-call#file-roundtrip-works', '')
            del r
        finally:
            os.chdir(cwd)
    sim.step('gc')
    sim.check()


def case_history(c, res):
    import dd.autoref as A
    rnd = random.Random(c['seed'])
    names = hist.ALLNAMES[:rnd.randint(3, 4)]
    sim = hist.Sim(c['mode'], names, rnd=rnd, reordering=c['reordering'])
    other = A.BDD()
    other.declare('q1', 'q2', 'q3', 'q4', 'q5')
    td = tempfile.mkdtemp(prefix='verif_c17_')
    keys = []
    try:
        for _ in range(3):
            sim.step('build')
        sim.check()
        for step in range(rnd.randint(5, 25)):
            sim.step(rnd.choice(OPS))
            sim.check()
            res.count('steps')
            kind = rnd.choice(KINDS)
            if not sim.held:
                continue
            cwd = os.getcwd()
            os.chdir(td)
            try:
                thunk = rejected_call(sim, kind, other, td)
                if thunk is None:
                    continue
                before_order = dict(sim.b.vars)
                before_setting = sim.m.configure()['reordering']
                sim.log.append(('REJECTED', kind))
                try:
                    try:
                        thunk()
                    finally:
                        thunk = None     # the closure may hold handles created for the call
                except sim.B._NeedsReordering:
                    if kind.startswith('foa-'):
                        # the primitive raises the signal before validating (known finding D1-primitive)
                        res.count('not-applicable')
                        sim.log.pop()
                        continue
                    raise Viol(f'rejected[{kind}]#signal-escapes', '_NeedsReordering reached the caller')
                except Exception as e:  # noqa: the call failed with an exception: everything must be intact
                    etype = type(e).__name__
                else:
                    res.count('not-raised:' + kind)
                    sim.log.pop()
                    continue
            finally:
                os.chdir(cwd)
            try:
                if c['reordering'] is None:
                    # (with dynamic reordering enabled a call may legitimately reorder before it fails;
                    # the order must then still be a valid bijection, which wf() checks)
                    require(dict(sim.b.vars) == before_order, 'order-unchanged', lambda: f'{before_order} -> {sim.b.vars}')
                require(sim.m.configure()['reordering'] == before_setting and sim.b._reordering_context is False,
                        'reordering-setting-unchanged', lambda: f'{before_setting} -> {sim.m.configure()}')
                sim.check()
                after_normal(sim, td)
            except Viol as v:
                raise Viol(f'rejected[{kind}]#{v.site}', f'{etype} raised, then: {v.detail}')
            except Exception as e2:
                if isinstance(e2, Viol):
                    raise
                import traceback
                raise Viol(f'rejected[{kind}]#subsequent-operation-failed', f'{etype} raised, then {traceback.format_exc()[-1500:]}')
            res.count('rejected-calls-checked')
            keys.append((kind, step, c['seed'] % 997))
        sim.finish()
    finally:
        shutil.rmtree(td, ignore_errors=True)
    return keys


def case_syntax_positions(c, res):
    """drop / duplicate / corrupt each token of otherwise valid formulas."""
    import dd.autoref as A
    from vlib.rtc import c05
    rnd = random.Random(c['seed'])
    names = ['p', 'q', 'r']
    sim = hist.Sim(c['mode'], names, rnd=rnd)
    for _ in range(3):
        sim.step('build')
    keys = []
    for _ in range(6):
        f = c05.random_formula(rnd, 3, names)
        toks = [x for _, x in c05.tokenize(f)]
        for i in range(len(toks)):
            for how in ('drop', 'dup', 'junk'):
                t2 = list(toks)
                if how == 'drop':
                    del t2[i]
                elif how == 'dup':
                    t2.insert(i, t2[i])
                else:
                    t2[i] = rnd.choice(['$', '?', ')', ',', ':'])
                text = ' '.join(t2)
                try:
                    c05.read(text, names, {})
                    continue       # still a valid formula
                except Exception:
                    pass
                try:
                    r = sim.m.add_expr(text)
                except Exception:
                    sim.check()
                    res.count('rejected-calls-checked')
                    keys.append(text)
                else:
                    del r
                    res.count('not-raised:syntax')
        sim.step('apply')
        sim.step('gc')
        sim.check()
    sim.finish()
    res.count('steps')
    return keys
