"""C13 bounded stand-in: image / preimage against the truth-table relational product."""
import itertools
import random

from vlib.rtc.lib import *  # noqa

RULE = ('one pair (x, xp) + a free variable: every transition relation of 3 variables x every admissible source/target x '
        'both quantifiers x every admissible qvars x every order with the pair adjacent (either way round) [preimage] or '
        'any order [image], rename/qvars given by name and by level, dd.bdd and dd.autoref; two and three pairs sampled (30 % with dynamic reordering enabled and a threshold the call crosses). '
        'Documented preconditions enforced on inputs: keys disjoint from values; image: each rename target is quantified '
        'or absent from both operands; preimage: pairs adjacent and target independent of the rename values. Inputs '
        'outside them are counted (outside_precondition), not judged. Oracle: rename, conjoin, quantify on truth tables. Level-shift histories '
        '(lib.shift_history: two pairs kept adjacent, unused variables between them undeclared / declared, node numbers re-used). '
        'non-trivial: result non-constant; distinct = (op, trans tt, set tt, qvars, quantifier, order).')
EXHAUSTIVE = {'quick': False, 'thorough': True}
REQUIRED_COUNTERS = ['image-checked', 'preimage-checked', 'image-nonadjacent-checked', 'products-after-level-shift', 'products-with-dynamic-reordering']


def bounds(tier):
    return dict(one_pair='exhaustive over 256 relations x admissible sets' if tier == 'thorough' else '64 sampled relations x admissible sets',
                multi_pair_samples=150 if tier == 'quick' else 4000 * DEEP)


def chunks(tier, seed):
    rnd = random.Random(seed)
    out = []
    orders = [o for o in itertools.permutations(['x', 'xp', 'y'])]
    rel = list(range(256))
    if tier == 'quick':
        rel = rnd.sample(rel, 64)
    for o in orders:
        for k in range(0, len(rel), 32):
            out.append(('case_one_pair', [dict(order=list(o), rels=rel[k:k + 32], seed=seed)]))
    ns = 40 if tier == 'quick' else 400 * DEEP
    for k in range(0, ns, 10):
        out.append(('case_shift', [dict(seed=seed * 4441 + k + i, steps=30) for i in range(10)]))
    n = 150 if tier == 'quick' else 4000 * DEEP
    for k in range(0, n, 25):
        out.append(('case_multi', [dict(seed=seed * 211 + k + i) for i in range(25)]))
    return out


def _image_oracle(tr, src, ren, qv, fa, names):
    n = len(names)
    conj = tr & src
    js = [names.index(q) for q in qv]
    q = tt_forall(conj, js, n) if fa else tt_exists(conj, js, n)
    return tt_subst(q, {names.index(k): vmask(names.index(v), n) for k, v in ren.items()}, n)


def _preimage_oracle(tr, tgt, ren, qv, fa, names):
    n = len(names)
    rt = tt_subst(tgt, {names.index(k): vmask(names.index(v), n) for k, v in ren.items()}, n)
    conj = tr & rt
    js = [names.index(q) for q in qv]
    return tt_forall(conj, js, n) if fa else tt_exists(conj, js, n)


def _call(kind, m, b, auto, as_levels, u, v, ren, qv, fa):
    import dd.autoref as A
    import dd.bdd as B
    if as_levels and not auto:
        ren = {b.vars[k]: b.vars[x] for k, x in ren.items()}
        qv = {b.vars[q] for q in qv}
    if auto:
        f = (A.image if kind == 'image' else A.preimage)
        return f(m._wrap(u), m._wrap(v), ren, set(qv), fa).node
    f = (B.image if kind == 'image' else B.preimage)
    return f(u, v, ren, set(qv), b, fa)


def case_one_pair(c, res):
    import dd.autoref as A
    names = ['x', 'xp', 'y']
    n = 3
    m = A.BDD({nm: k for k, nm in enumerate(c['order'])})
    b = m._bdd
    d = Den(b, names)
    jx, jxp, jy = 0, 1, 2
    adjacent = abs(b.vars['x'] - b.vars['xp']) == 1
    refs = []
    for t in range(256):
        u = build(b, t, names)
        b.incref(u)
        refs.append(u)
    keys = []
    cnt = 0
    qsets = [s for k in range(4) for s in itertools.combinations(names, k)]
    for tr in c['rels']:
        for ts in range(256):
            fa = (tr + ts) % 2 == 1
            auto = (tr + ts) % 3 == 0
            as_levels = (tr + ts) % 5 == 0
            # image: rename {xp: x}; target x must be quantified or absent from both operands
            for qv in qsets:
                ok = ('x' in qv) or (not tt_depends(tr, jx, n) and not tt_depends(ts, jx, n))
                if not ok:
                    res.count('outside_precondition')
                    continue
                if (tr * 7 + ts + len(qv)) % 4:
                    continue
                want = _image_oracle(tr, ts, {'xp': 'x'}, qv, fa, names)
                r = _call('image', m, b, auto, as_levels, refs[tr], refs[ts], {'xp': 'x'}, qv, fa)
                got = d.of(r)
                require(got == want, 'image#post:relational-product',
                        lambda: f'trans={tr} source={ts} qvars={qv} forall={fa} order={c["order"]}: got {got} want {want}')
                res.count('image-checked' if adjacent else 'image-nonadjacent-checked')
                cnt += 1
                if want not in (0, 255):
                    keys.append(('image', tr, ts, qv, fa))
            # preimage: rename {x: xp}; pairs adjacent; target independent of xp
            if adjacent and not tt_depends(ts, jxp, n):
                for qv in qsets:
                    if (tr * 3 + ts + len(qv)) % 4:
                        continue
                    want = _preimage_oracle(tr, ts, {'x': 'xp'}, qv, fa, names)
                    r = _call('preimage', m, b, auto, as_levels, refs[tr], refs[ts], {'x': 'xp'}, qv, fa)
                    got = d.of(r)
                    require(got == want, 'preimage#post:relational-product',
                            lambda: f'trans={tr} target={ts} qvars={qv} forall={fa} order={c["order"]}: got {got} want {want}')
                    res.count('preimage-checked')
                    cnt += 1
                    if want not in (0, 255):
                        keys.append(('preimage', tr, ts, qv, fa))
            elif adjacent:
                res.count('outside_precondition')
    wf(b, names)
    release_all(b, refs)
    res.evals += cnt
    return keys


def case_multi(c, res):
    import dd.autoref as A
    rnd = random.Random(c['seed'])
    npairs = rnd.randint(2, 3)
    base = ['x', 'y', 'w'][:npairs]
    names = []
    for v in base:
        names += [v, v + 'p']
    names.append('z')
    # order: pairs adjacent (either way round), blocks shuffled
    blocks = [[v, v + 'p'] if rnd.random() < .5 else [v + 'p', v] for v in base] + [['z']]
    rnd.shuffle(blocks)
    order = [x for blk in blocks for x in blk]
    m = A.BDD({nm: k for k, nm in enumerate(order)})
    b = m._bdd
    n = len(names)
    F = full(n)
    kind = rnd.choice(['image', 'preimage'])
    fa = rnd.random() < .3
    auto = rnd.random() < .5
    as_levels = rnd.random() < .3
    tr = rnd.getrandbits(1 << n) & rnd.getrandbits(1 << n) | rnd.getrandbits(1 << n)
    tr &= F
    npr = [names.index(v + 'p') for v in base]
    st = rnd.getrandbits(1 << n)
    sub = rnd.sample(base, rnd.randint(1, npairs))
    if kind == 'image':
        ren = {v + 'p': v for v in sub}
        # targets must be quantified or absent
        qv = set(sub) | set(rnd.sample(names, rnd.randint(0, 2)))
        qv -= set(ren)  # keys are renamed afterwards; quantifying them is legal but makes rename moot
        want = _image_oracle(tr, st, ren, qv, fa, names)
    else:
        ren = {v: v + 'p' for v in sub}
        for j in npr:
            st = cof(st, j, 0, n)
        qv = set(v + 'p' for v in sub) | set(rnd.sample(names, rnd.randint(0, 1)))
        want = _preimage_oracle(tr, st, ren, qv, fa, names)
    u, v = build(b, tr, names), build(b, st, names)
    b.incref(u); b.incref(v)
    dyn = rnd.random() < .3
    if dyn:
        # dynamic reordering enabled with a threshold that the call itself crosses (operands are referenced): the product is the same
        m.configure(reordering=True)
        b._last_len = rnd.choice([1, 2, len(b), len(b) + 2])
        res.count('products-with-dynamic-reordering')
    r = _call(kind, m, b, auto, as_levels, u, v, ren, qv, fa)
    got = den(b, r, names)
    require(got == want, f'{kind}#post:relational-product',
            lambda: f'pairs={ren} qvars={qv} forall={fa} trans={tr} set={st} order={order} dynamic-reordering={dyn}: got {got} want {want}')
    require(den(b, u, names) == tr and den(b, v, names) == st, f'{kind}#post:operands-unchanged', lambda: f'dynamic-reordering={dyn}')
    res.count(kind + '-checked')
    wf(b, names)
    b.decref(u); b.decref(v)
    return (kind, tr, st, tuple(sorted(qv)), fa)


def case_shift(c, res):
    """image / preimage over two primed/unprimed pairs of a few held relations and sets while unused variables between the pairs are
    undeclared / declared and node numbers are re-used (lib.shift_history; the pairs stay adjacent)"""
    keys = []
    base = ['x', 'y']

    def query(m, b, names, held, rnd):
        n = len(names)
        (u, tr), (v0, st) = rnd.choice(held), rnd.choice(held)
        kind = rnd.choice(['image', 'preimage'])
        fa = rnd.random() < .3
        auto = rnd.random() < .4
        as_levels = rnd.random() < .3
        sub = rnd.sample(base, rnd.randint(1, 2))
        if kind == 'image':
            ren = {x + 'p': x for x in sub}
            qv = set(sub) | set(rnd.sample(names, rnd.randint(0, 1)))
            qv -= set(ren)
            want = _image_oracle(tr, st, ren, qv, fa, names)
        else:
            ren = {x: x + 'p' for x in sub}
            for x in base:
                st = cof(st, names.index(x + 'p'), 0, n)
            qv = set(x + 'p' for x in sub) | set(rnd.sample(names, rnd.randint(0, 1)))
            want = _preimage_oracle(tr, st, ren, qv, fa, names)
        v = build(b, st, names)
        b.incref(v)
        r = _call(kind, m, b, auto, as_levels, u, v, ren, qv, fa)
        got = den(b, r, names)
        b.decref(v)
        require(got == want, f'{kind}#post:relational-product',
                lambda: f'after declarations changed: pairs={ren} qvars={qv} forall={fa} trans={tr} set={st} order={dict(b.vars)}: got {got} want {want}')
        res.count('products-after-level-shift')
        keys.append((kind, tr, st, tuple(sorted(qv)), fa, tuple(sorted(b.vars, key=b.vars.get))))
    shift_history(c, res, query, names=('x', 'xp', 'y', 'yp'), blocks=[('x', 'xp'), ('y', 'yp')], swaps=False)
    return keys
