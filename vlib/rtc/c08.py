"""C08 bounded stand-in: dd.autoref histories with a registry of live Function handles."""
import gc
import itertools
import random

from vlib.rtc.lib import *  # noqa
from vlib.rtc import hist

RULE = ('random histories (10-60 steps) and all sequences of length 3 over {var, operators, ite, quantify, let, add_expr, '
        'low/high/succ handles, handle copies (through the manager and by copy.copy), augmented assignments (&=, |=) on a second name of a held Function, drops in any order, collect_garbage, sifting, reorder-to-order, late declarations, JSON dump + load into the same manager} on '
        'dd.autoref with 3-5 variables, dynamic reordering off / on (thresholds 1,2,4,8); after every step: wf(), '
        'ref == in-edges + number of live Function objects for every node, truth table of every live Function; at '
        'the end all handles dropped -> collection leaves only the terminal and BDD.__del__ passes. non-trivial: '
        'history drops a handle before a collection or reordering; distinct = operation sequence prefix.')
EXHAUSTIVE = {'quick': False, 'thorough': False}
REQUIRED_COUNTERS = ['steps']
OPS = ['var', 'build', 'apply', 'ite', 'quant', 'let', 'expr', 'succ', 'copyh', 'drop', 'gc', 'sift', 'order', 'copyout', 'image', 'declare', 'json', 'iop']
W = [3, 3, 5, 2, 2, 2, 1, 2, 2, 6, 3, 1, 1, 1, 1, 2, 1, 2]


def bounds(tier):
    return dict(variables='3-5', random_histories=300 if tier == 'quick' else 5000, enumerated_len=3)


def chunks(tier, seed):
    n = 300 if tier == 'quick' else 5000
    out = []
    for k in range(0, n, 10):
        out.append(('case_random', [dict(seed=seed * 15485863 + k + i, steps=10 + (k + i) % 50, mode='autoref',
                                         names=hist.ALLNAMES[:3 + (k + i) % 3],
                                         # some variables are declared late, after nodes and handles exist
                                         universe=hist.ALLNAMES[:3 + (k + i) % 3 + (k + i) % 2 * 2],
                                         reordering=[None, 1, 2, 4, 8][(k + i) % 5]) for i in range(10)]))
    alpha = ['apply', 'succ', 'drop', 'gc', 'sift', 'copyh']
    seqs = [list(s) for s in itertools.product(alpha, repeat=3)]
    for k in range(0, len(seqs), 36):
        out.append(('case_enum', [dict(seq=s, seed=seed, reordering=(None if j % 2 else 2)) for j, s in enumerate(seqs[k:k + 36])]))
    out.append(('case_del_idempotent', [dict(seed=seed)]))
    return out


def _reordering_still_on(sim):
    if sim.reordering is not None:
        require(sim.m.configure()['reordering'] is True, 'reordering#still-enabled', sim.log[-3:])


def case_random(c, res):
    return hist.run_history(c, res, OPS, W, extra_check=_reordering_still_on)


def case_enum(c, res):
    rnd = random.Random(c['seed'])
    sim = hist.Sim('autoref', hist.ALLNAMES[:3], rnd=rnd, reordering=c['reordering'])
    for _ in range(3):
        sim.step('build')
    sim.step('apply')
    sim.check()
    for op in c['seq']:
        sim.step(op)
        sim.check()
        res.count('steps')
    sim.finish()
    return (tuple(c['seq']), c['reordering'])


def case_del_idempotent(c, res):
    """__del__ called explicitly and again by the interpreter releases exactly one reference."""
    import dd.autoref as A
    m = A.BDD()
    m.declare('x', 'y')
    f = m.add_expr('x & y')
    g = m._add_int(int(f))
    u = abs(f.node)
    before = m._bdd._ref[u]
    g.__del__()
    require(m._bdd._ref[u] == before - 1, 'Function.__del__#releases-one', (before, m._bdd._ref[u]))
    g.__del__()
    del g
    gc.collect()
    require(m._bdd._ref[u] == before - 1, 'Function.__del__#idempotent', (before, m._bdd._ref[u]))
    # failing constructor takes no reference
    try:
        A.Function(12345, m)
        raise Viol('Function.__init__#refuses-unknown-node', '')
    except Viol:
        raise
    except Exception:  # noqa: refused (the property does not fix the exception type)
        pass
    wf(m._bdd)
    del f
    gc.collect()
    m.collect_garbage()
    require(set(m._bdd._succ) == {1}, 'final#only-terminal-left', sorted(m._bdd._succ))
    res.count('steps')
    return 'del'
