"""C03 bounded stand-in: quantification against the truth-table quantifier."""
import itertools
import random

from vlib.rtc.lib import *  # noqa
from vlib.rtc import hist

RULE = ('every function of 3 variables (both signs arise as complements), every subset of variables (incl. empty and '
        'undeclared-in-support), both quantifiers, every variable order, fresh and warmed-up managers, through '
        'quantify/exist/forall/apply(\\A,\\E,forall,exists) on dd.bdd and quantify/exist/forall on dd.autoref; sampled '
        'at 4-5 variables; histories (5 names, 25-64 steps) in which quantifications alternate with undeclare_vars / declare / '
        'swap / sifting / reorder / collect_garbage and every result is re-checked after each later step; level-shift histories (held functions over 4 names, 3 unused spare variables undeclared / declared between single- and two-variable quantifications, no collection in between). Result truth table == OR/AND of cofactors; result independent of quantified variables; '
        'non-trivial: non-empty subset meeting the support; distinct = (truth table, subset, quantifier, order).')
EXHAUSTIVE = {'quick': False, 'thorough': True}
REQUIRED_COUNTERS = ['quantify-checked', 'apply-quantifier-checked', 'quantify-in-history', 'quantify-after-level-shift']
NAMES = ['x', 'y', 'z']


def bounds(tier):
    return dict(variables=3, functions=256, subsets=8, orders=6 if tier == 'thorough' else 3, sampled_5var=300 if tier == 'quick' else 5000 * DEEP,
                histories=120 if tier == 'quick' else 300 * DEEP, level_shift_histories=60 if tier == 'quick' else 300 * DEEP)


def chunks(tier, seed):
    rnd = random.Random(seed)
    orders = list(itertools.permutations(NAMES))
    if tier == 'quick':
        orders = [orders[0]] + rnd.sample(orders[1:], 2)
    out = []
    for o in orders:
        for warm in (0, 1):
            for part in range(2):
                out.append(('case_all3', [dict(order=list(o), warm=warm, part=part, seed=seed)]))
    nh = 120 if tier == 'quick' else 300 * DEEP
    for k in range(0, nh, 10):
        out.append(('case_history', [dict(seed=seed * 7907 + k + i, steps=25 + (k + i) % 40, mode='autoref' if (k + i) % 3 == 0 else 'bdd',
                                          names=hist.ALLNAMES[:5], order=None) for i in range(10)]))
    ns = 60 if tier == 'quick' else 300 * DEEP
    for k in range(0, ns, 10):
        out.append(('case_shift', [dict(seed=seed * 4409 + k + i, steps=40) for i in range(10)]))
    n5 = 300 if tier == 'quick' else 5000 * DEEP
    for k in range(0, n5, 50):
        out.append(('case_sampled', [dict(seed=seed * 31337 + k, count=50, nvars=4 + (k // 50) % 2, dyn=(k // 100) % 2)]))
    return out


def _check_one(b, m, names, d, u, t, sub, fa, res, route):
    n = len(names)
    js = [names.index(x) for x in sub]
    want = tt_forall(t, js, n) if fa else tt_exists(t, js, n)
    cube = None
    if route == 2:
        last, b._last_len = b._last_len, None
        # the variables are given by the support of the first operand: a cube of any polarity has the same support
        cube = b.cube({x: ((t * 31 + sum(map(ord, x))) % 3 != 0) for x in sub}) if sub else 1
        b.incref(cube)       # operands of dd.bdd calls are referenced (precondition of C09/C03 under reordering)
        b._last_len = last
    if b._last_len is not None:
        b._last_len = 1      # dynamic reordering enabled: make the request fire inside this very call
    if route == 0:
        r = b.quantify(u, set(sub), forall=fa)
    elif route == 1:
        # as a list, sometimes naming a variable twice
        r = (b.forall if fa else b.exist)(list(sub) + list(sub[:len(sub) % 2]), u)
    elif route == 2:
        # apply: first operand's support gives the variables, second operand is the body
        sp = SPELL_Q[fa][len(sub) % 2]
        r = b.apply(sp, cube, u)
        res.count('apply-quantifier-checked')
    else:
        f = m._wrap(u)
        r = (m.forall if fa else m.exist)(set(sub), f).node if len(sub) % 2 else m.quantify(f, sub, fa).node
    got = d.of(r)
    if cube is not None:
        b.decref(cube)
    require(got == want, '_quantify#post:QE',
            lambda: f'route={route} tt={t} u={u} qvars={sub} forall={fa} order={b.vars}: got {got} want {want}')
    for j in js:
        require(not tt_depends(got, j, n), 'quantify#post:independent-of-qvars', lambda: f'tt={t} {sub}')
    supp = tt_support(t, n)
    if not (set(js) & supp):
        require(r == u, 'quantify#post:outside-support-unchanged', lambda: f'tt={t} u={u} qvars={sub}: {r}')
    res.count('quantify-checked')


SPELL_Q = {True: ['\\A', 'forall'], False: ['\\E', 'exists']}


def case_all3(c, res):
    import dd.autoref as A
    names = sorted(c['order'])
    m = A.BDD({nm: k for k, nm in enumerate(c['order'])})
    b = m._bdd
    rnd = random.Random(c['seed'])
    if c['warm']:
        warm_up(b, names, rnd, steps=40)
    n = len(names)
    d = Den(b, names)
    subsets = [s for k in range(n + 1) for s in itertools.combinations(names, k)]
    N = 1 << (1 << n)
    lo, hi = c['part'] * N // 2, (c['part'] + 1) * N // 2
    keys = []
    cnt = 0
    for t in range(lo, hi):
        u = build(b, t, names)
        b.incref(u)
        for sub in subsets:
            for fa in (False, True):
                for route in range(4):
                    _check_one(b, m, names, d, u, t, sub, fa, res, route)
                    cnt += 1
                if sub and (set(names.index(x) for x in sub) & tt_support(t, n)):
                    keys.append((t, sub, fa, tuple(c['order'])))
        b.decref(u)
        if c['warm'] and t % 32 == 0:
            b.collect_garbage()
            d.reset()
    wf(b, names)
    res.evals += cnt - 1
    return keys


HOPS = ['var', 'build', 'apply', 'quant', 'drop', 'gc', 'swap', 'sift', 'declare', 'undeclare', 'order']
HW = [2, 3, 3, 8, 3, 2, 2, 1, 2, 3, 1]


def case_history(c, res):
    """quantification inside histories: between the queries variables are undeclared / declared, levels are swapped, garbage is
    collected and node numbers are re-used; every result is kept and its truth table re-checked after every later step"""
    def quantified(sim):
        if sim.log and sim.log[-1][0] == 'quantify':
            res.count('quantify-in-history')
    return hist.run_history(c, res, HOPS, HW, extra_check=quantified)


def case_shift(c, res):
    """quantifications of a few held functions over small subsets while unused variables are undeclared / declared, levels swapped and
    node numbers re-used (lib.shift_history)"""
    keys = []

    def query(m, b, names, held, rnd):
        n = len(names)
        u, t = rnd.choice(held)
        sub = tuple(rnd.sample(names, rnd.choice([1, 1, 1, 2, 2, 3])))
        fa = rnd.random() < .5
        js = [names.index(v) for v in sub]
        want = tt_forall(t, js, n) if fa else tt_exists(t, js, n)
        route = rnd.randrange(3)
        if route == 0:
            r = b.quantify(u, set(sub), forall=fa)
        elif route == 1:
            r = (b.forall if fa else b.exist)(list(sub), u)
        else:
            r = (m.forall if fa else m.exist)(set(sub), m._wrap(u)).node
        got = den(b, r, names)
        require(got == want, '_quantify#post:QE',
                lambda: f'after declarations changed: u={u} tt={t} qvars={sub} forall={fa} order={dict(b.vars)}: got {got} want {want}')
        res.count('quantify-after-level-shift')
        keys.append((t, sub, fa, tuple(sorted(b.vars, key=b.vars.get))))
    shift_history(c, res, query)
    return keys


def case_sampled(c, res):
    import dd.autoref as A
    rnd = random.Random(c['seed'])
    names = ['a', 'b', 'c', 'd', 'e'][:c['nvars']]
    o = names[:]
    rnd.shuffle(o)
    m = A.BDD({nm: k for k, nm in enumerate(o)})
    b = m._bdd
    warm_up(b, names, rnd, steps=20)
    dyn = bool(c.get('dyn'))
    if dyn:
        # dynamic reordering enabled with a small threshold: operands below are referenced
        m.configure(reordering=True)
        b._last_len = rnd.choice([1, 2, 4, 8])
    d = Den(b, names) if not dyn else type('D', (), {'of': staticmethod(lambda u: den(b, u, names)), 'reset': staticmethod(lambda: None)})
    keys = []
    n = len(names)
    for _ in range(c['count']):
        t = rnd.getrandbits(1 << n)
        u = build(b, t, names)
        b.incref(u)
        sub = tuple(rnd.sample(names, rnd.randint(0, n)))
        fa = rnd.random() < .5
        for route in range(4):
            _check_one(b, m, names, d, u, t, sub, fa, res, route)
        b.decref(u)
        keys.append((t, sub, fa))
    wf(b, names)
    res.evals += c['count'] - 1
    return keys
