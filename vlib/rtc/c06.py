"""C06 bounded stand-in: histories on dd.bdd.BDD with exact ledger, exact collection, no stale cache."""
import itertools
import random

from vlib.rtc.lib import *  # noqa
from vlib.rtc import hist

RULE = ('random histories (length 10-80) and all histories of length <= 4 over {build, apply, ite, quantify, let, '
        'handle copy, drop, collect_garbage(), collect_garbage(roots), swap, sift, reorder-to-order} on dd.bdd.BDD with '
        '3-4 variables; after every step: W1-W8, computed-table validity, ref = in-edges + held references for every '
        'node, truth table of every held reference; after every full collection: stored nodes == reachable from held. '
        'non-trivial: history contains a collection or reordering; distinct = operation sequence prefix.')
EXHAUSTIVE = {'quick': False, 'thorough': False}
REQUIRED_COUNTERS = ['steps']
OPS = ['build', 'var', 'apply', 'ite', 'quant', 'let', 'copyh', 'drop', 'gc', 'gcroots', 'swap', 'sift', 'order', 'succ', 'fork', 'copyout']
W = [4, 2, 4, 3, 2, 2, 1, 5, 3, 2, 2, 1, 1, 1, 1, 1]


def bounds(tier):
    return dict(variables='3-4', random_histories=400 if tier == 'quick' else 6000 * DEEP, max_len=80,
                enumerated_len=3 if tier == 'quick' else 4)


def chunks(tier, seed):
    n = 400 if tier == 'quick' else 6000 * DEEP
    out = []
    per = 10
    for k in range(0, n, per):
        out.append(('case_random', [dict(seed=seed * 100003 + k + i, steps=10 + (k + i) % 70,
                                         names=hist.ALLNAMES[:3 + (k + i) % 2],
                                         # every fourth history goes through dd.autoref: the external references are then the
                                         # live Function objects (anything else that holds a count shows up in the ledger)
                                         mode='autoref' if (k + i) % 4 == 3 and k + i < 4000 else 'bdd') for i in range(per)]))
    L = 3 if tier == 'quick' else 4
    alpha = ['build', 'ite', 'drop', 'gc', 'swap', 'gcroots', 'fork']
    seqs = [list(s) for s in itertools.product(alpha, repeat=L)]
    for k in range(0, len(seqs), 40):
        out.append(('case_enum', [dict(seq=s, seed=seed) for s in seqs[k:k + 40]]))
    return out


def case_random(c, res):
    if c.get('mode') == 'autoref':
        from vlib.rtc import c08
        return hist.run_history(c, res, c08.OPS, c08.W)
    return hist.run_history(c, res, OPS, W)


def case_enum(c, res):
    rnd = random.Random(c['seed'])
    sim = hist.Sim('bdd', hist.ALLNAMES[:3], rnd=rnd)
    # a small non-trivial start state
    for _ in range(3):
        sim.step('build')
    sim.step('ite')
    sim.check()
    for op in c['seq']:
        sim.step(op)
        sim.check()
        res.count('steps')
    sim.finish()
    return tuple(c['seq'])
