"""C12 bounded stand-in: pickle / JSON / whole-manager dump-load round trips."""
import copy
import gc
import itertools
import os
import random
import shutil
import tempfile

from vlib.rtc.lib import *  # noqa

RULE = ('tuples of 1-5 functions of 3-4 variables (incl. constants, shared sub-graphs, complemented roots, managers whose node '
        'numbers were re-used after a collection so that parents precede children) dumped as list and as dict roots to '
        'pickle (dd.bdd and dd.autoref) and JSON (dd.autoref), loaded into: a fresh manager, the same manager, a manager '
        'declaring the variables in the same order, in a different order with levels=False / load_order in {False,True}; '
        'a different order with levels=True must be refused with ValueError; pickle dumped without roots loads without '
        'error; whole-manager pickle (_dump_manager/_load_manager) and copy.copy reproduce the manager. Judged by truth '
        'table per name/position, wf() of the receiver, exact ledger after the autoref loaders; functions of several hundred nodes over '
        '12-14 variables loaded (JSON, pickle) into receivers with dynamic reordering enabled, compared on 200 sampled assignments. non-trivial: a root is '
        'non-constant; distinct = (format, target kind, root truth tables).')
EXHAUSTIVE = {'quick': False, 'thorough': False}
REQUIRED_COUNTERS = ['pickle-roundtrips', 'json-roundtrips', 'manager-roundtrips', 'refused-as-documented', 'large-roundtrips']


def bounds(tier):
    return dict(variables='3-4', roots='1-5', cases=120 if tier == 'quick' else 3000 * DEEP)


def chunks(tier, seed):
    n = 120 if tier == 'quick' else 3000 * DEEP
    out = []
    for k in range(0, n, 10):
        out.append(('case_roundtrip', [dict(seed=seed * 613 + k + i) for i in range(10)]))
    for k in range(4 if tier == 'quick' else 4 * DEEP):
        out.append(('case_large', [dict(seed=seed * 617 + k)]))
    return out


def _in_tmp(fn):
    def w(c, res):
        td = tempfile.mkdtemp(prefix='verif_c12_')
        cwd = os.getcwd()
        os.chdir(td)
        try:
            return fn(c, res, td)
        finally:
            os.chdir(cwd)
            shutil.rmtree(td, ignore_errors=True)
    w.__name__ = fn.__name__
    return w


def _mk_source(rnd, names, auto):
    import dd.autoref as A
    o = names[:]
    rnd.shuffle(o)
    m = A.BDD({nm: k for k, nm in enumerate(o)})
    b = m._bdd
    n = len(names)
    # re-use node numbers: temporaries first, collected, so that later parents get small numbers
    if rnd.random() < .6:
        warm_up(b, names, rnd, steps=25)
        tmp = [m._wrap(build(b, rnd.getrandbits(1 << n), names)) for _ in range(4)]
        keep = m._wrap(build(b, rnd.getrandbits(1 << n), names))
        del tmp
        gc.collect()
        b.collect_garbage()
    roots = []
    for _ in range(rnd.randint(1, 5)):
        r = rnd.random()
        if r < .1:
            t = rnd.choice([0, full(n)])
        elif r < .3 and roots:
            t = ~roots[-1][1] & full(n)
        elif r < .5 and roots:
            t = roots[-1][1] & rnd.getrandbits(1 << n)
        else:
            t = rnd.getrandbits(1 << n)
        roots.append((m._wrap(build(b, t, names)), t))
    return m, roots


def _target(kind, rnd, names, src, held):
    import dd.autoref as A
    if kind == 'fresh':
        return A.BDD()
    if kind == 'same':
        return src
    if kind == 'same-order':
        t = A.BDD(dict(src.vars))
        _populate(t, rnd, names, held)
        return t
    o = names[:]
    while True:
        rnd.shuffle(o)
        lv = {nm: k for k, nm in enumerate(o)}
        if lv != dict(src.vars) or len(names) < 2:
            break
    t = A.BDD(lv)
    if rnd.random() < .5:
        t.declare('extra')
    _populate(t, rnd, names, held)
    return t


def _populate(t, rnd, names, held):
    """the receiving manager already holds functions of its own (in two thirds of the cases), built the way the source builds its
    nodes, so that node numbers and (level, low, high) triples of the file coincide with nodes of the receiver that mean other
    functions"""
    if rnd.random() < .34:
        return
    tb = t._bdd
    n = len(names)
    for _ in range(rnd.randint(1, 4)):
        held.append(t._wrap(build(tb, rnd.getrandbits(1 << n), names)))
    # the same small formulas over the receiver's own variables at the same levels as in the source (isomorphic tables)
    lv = sorted(tb.vars, key=tb.vars.get)
    for _ in range(rnd.randint(0, 2)):
        x, y = rnd.sample(lv[:len(names)], 2)
        held.append(t.add_expr(rnd.choice(['{x} /\\ {y}', '{x} \\/ ~ {y}', '{x} <=> {y}']).format(x=x, y=y)))


def _judge(tm, loaded, roots, as_dict, names, site, live):
    tb = tm._bdd
    allnames = sorted(set(names) | set(tb.vars))
    if as_dict:
        require(isinstance(loaded, dict) and set(loaded) == {f'r{i}' for i in range(len(roots))}, site + '#post:same-names', lambda: f'{loaded}')
        got = [loaded[f'r{i}'] for i in range(len(roots))]
    else:
        require(isinstance(loaded, list) and len(loaded) == len(roots), site + '#post:same-positions', lambda: f'{loaded}')
        got = loaded
    for i, (g, (_, t)) in enumerate(zip(got, roots)):
        node = g.node if hasattr(g, 'node') else g
        # lift t over `names` to allnames
        idx = [allnames.index(x) for x in names]
        tl = 0
        for k in range(1 << len(allnames)):
            kk = sum(((k >> idx[j]) & 1) << j for j in range(len(names)))
            if (t >> kk) & 1:
                tl |= 1 << k
        d = den(tb, node, allnames)
        require(d == tl, site + '#post:same-function', lambda: f'root {i}: got {d} want {tl}; target order {tb.vars}')
    gc.collect()      # before the counts are read: handles that are only waiting for the cyclic collector are not live
    ext = wf(tb, None)
    cnt = {}
    for h in live():
        if h.bdd is tm:
            cnt[abs(h.node)] = cnt.get(abs(h.node), 0) + 1
    for u, e in ext.items():
        require(e == cnt.get(u, 0) + (1 if u == 1 else 0), site + '#post:exact-counts',
                lambda: f'node {u}: ref-indeg={e}, live handles {cnt.get(u, 0)}')


@_in_tmp
def case_roundtrip(c, res, td):
    held = []
    try:
        return _case_roundtrip(c, res, td, held)
    finally:
        # the receiver's own functions are kept in a list of this frame, not on the manager (no reference cycle manager <-> handle)
        del held[:]


def _case_roundtrip(c, res, td, HELD):
    import dd.autoref as A
    import dd.bdd as B
    rnd = random.Random(c['seed'])
    names = ['a', 'b', 'c', 'd'][:rnd.randint(3, 4)]
    src, roots = _mk_source(rnd, names, True)
    as_dict = rnd.random() < .5
    fmt = rnd.choice(['pickle', 'pickle', 'json', 'pickle-bdd'])
    kind = rnd.choice(['fresh', 'same', 'same-order', 'other-order'])
    handles = [h for h, _ in roots]
    rdump = {f'r{i}': h for i, h in enumerate(handles)} if as_dict else list(handles)
    site = f'{fmt}-load[{kind}]'
    key = (fmt, kind, as_dict, tuple(t for _, t in roots))
    if fmt == 'json' and all(abs(h.node) == 1 for h in handles) and False:
        return None
    tm = _target(kind, rnd, names, src, HELD)
    loaded = None
    if fmt == 'pickle':
        src.dump('f.p', rdump)
        levels = rnd.random() < .5
        if kind == 'other-order' and levels:
            try:
                tm.load('f.p', levels=True)
            except Exception:  # noqa: refused (the property does not fix the exception type)
                res.count('refused-as-documented')
                wf(tm._bdd)
                return key
            raise Viol(site + '#raises:conflicting-levels', 'load(levels=True) into a different order was accepted')
        loaded = tm.load('f.p', levels=levels if kind != 'other-order' else False)
        res.count('pickle-roundtrips')
    elif fmt == 'pickle-bdd':
        # through dd.bdd directly, integer roots
        bs = src._bdd
        ints = {k: v.node for k, v in rdump.items()} if as_dict else [v.node for v in rdump]
        bs.dump('g.p', ints)
        tb = tm._bdd
        levels = kind != 'other-order'
        li = tb.load('g.p', levels=levels)
        loaded = {k: tm._wrap(v) for k, v in li.items()} if as_dict else [tm._wrap(v) for v in li]
        res.count('pickle-roundtrips')
    else:
        if all(True for _ in handles):
            src.dump('f.json', rdump)
        lo = rnd.random() < .5
        if lo and kind in ('same', 'other-order'):
            # load_order reorders the receiver to the file's order; fine for both
            pass
        import dd._copy as C
        if lo and set(tm.vars) - set(names):
            # the file's order does not mention every variable of the receiver: the loader refuses
            try:
                C.load_json('f.json', tm, load_order=True)
            except Exception:  # noqa: refused
                res.count('refused-as-documented')
                wf(tm._bdd)
                return key
            raise Viol(site + '#raises:order-of-fewer-variables', 'accepted')
        loaded = C.load_json('f.json', tm, load_order=lo) if lo else tm.load('f.json')
        res.count('json-roundtrips')
    _judge(tm, loaded, roots, as_dict, names, site,
           lambda: handles + (list(loaded.values()) if isinstance(loaded, dict) else list(loaded)) + list(HELD))
    # pickle without roots: stores every node and loads back without error
    if rnd.random() < .4:
        src.dump('all.p')
        fresh_m = A.BDD()
        out = fresh_m.load('all.p')
        wf(fresh_m._bdd)
        require(len(fresh_m._bdd) >= len(src._bdd), 'pickle-load[no-roots]#post:every-node-loaded',
                lambda: f'{len(fresh_m._bdd)} vs {len(src._bdd)}')
        res.count('pickle-roundtrips')
    # whole-manager pickle and copy.copy
    if rnd.random() < .4:
        bs = src._bdd
        bs._dump_manager('m.p')
        bm = B.BDD._load_manager('m.p')
        bc = copy.copy(bs)
        for b2 in (bm, bc):
            require(b2._succ == bs._succ and b2._ref == bs._ref and dict(b2.vars) == dict(bs.vars) and
                    b2._min_free == bs._min_free, 'manager-roundtrip#post:reproduces', '')
            wf(b2, None)
            for h, t in roots:
                require(den(b2, h.node, names) == t, 'manager-roundtrip#post:same-functions', t)
            # independent of the original afterwards
            x = b2.add_expr(f'{names[0]} & ~{names[1]}')
            wf(b2, None)
            b2._ref = {k: 0 for k in b2._ref}
            b2._ref[1] = 1
        res.count('manager-roundtrips')
    loaded = None
    return key


@_in_tmp
def case_large(c, res, td):
    """a function of several hundred nodes over 12-14 variables, dumped (JSON / pickle) and loaded into a receiver whose dynamic reordering
    is enabled, so that the receiver reorders itself (and collects garbage) in the middle of the load; compared on sampled assignments"""
    import dd.autoref as A
    rnd = random.Random(c['seed'])
    n = rnd.randint(12, 14)
    names = [f'x{i}' for i in range(n)]
    src = A.BDD()
    src.declare(*names)
    f = src.false
    cubes = []
    for _ in range(rnd.randint(18, 30)):
        lits = {v: rnd.random() < .5 for v in rnd.sample(names, rnd.randint(3, 5))}
        cubes.append(lits)
        f = f | src.cube(lits)
    roots = [f, ~f] if rnd.random() < .5 else [f]
    fmt = rnd.choice(['json', 'json', 'pickle'])
    tm = A.BDD()
    order = names[:]
    if rnd.random() < .5:
        rnd.shuffle(order)
        tm.declare(*order)
    tm.configure(reordering=True)
    if fmt == 'json':
        src.dump('big.json', roots)
        loaded = tm.load('big.json')
    else:
        src.dump('big.p', roots)
        loaded = tm.load('big.p', levels=False)
    site = f'{fmt}-load[large, reordering enabled]'
    require(len(loaded) == len(roots), site + '#post:same-positions', lambda: f'{loaded}')
    require(tm.configure()['reordering'] is True, site + '#post:reordering-setting-kept', '')
    tb = tm._bdd
    for k in range(200):
        a = {v: rnd.random() < .5 for v in names}
        if k % 4 == 0:
            a.update(rnd.choice(cubes))
        want = any(all(a[v] == val for v, val in cu.items()) for cu in cubes)
        for g, neg in zip(loaded, (False, True)):
            val = tm.let(a, g)
            require(val in (tm.true, tm.false) and (val == tm.true) == (want != neg), site + '#post:same-function',
                    lambda: f'{len(src)} nodes dumped; assignment {a}: loaded root {"~f" if neg else "f"} gives {val}, the dumped function {want != neg}')
    val = g = None        # the last evaluation result is a handle on the terminal
    gc.collect()
    ext = wf(tb, None)
    cnt = {}
    for h in loaded:
        cnt[abs(h.node)] = cnt.get(abs(h.node), 0) + 1
    for u, e in ext.items():
        require(e == cnt.get(u, 0) + (1 if u == 1 else 0), site + '#post:exact-counts', lambda: f'node {u}: ref-indeg={e}, live handles {cnt.get(u, 0)}')
    res.count('large-roundtrips')
    return (fmt, n, len(src))
