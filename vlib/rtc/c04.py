"""C04 bounded stand-in: `let` = exact simultaneous substitution (constants, functions, names)."""
import itertools
import random

from vlib.rtc.lib import *  # noqa

RULE = ('every function of 3 variables x every partial assignment of constants (27) x every variable map (4^3 incl. '
        'swaps and non-injective maps, over 3 variables + 1 spare) x sampled tuples of replacement functions (1-3 '
        'variables substituted at once, replacements may mention replaced variables) x every order, on dd.bdd and '
        'dd.autoref, fresh and warmed-up managers; 4-5 variables sampled; level-shift histories (lib.shift_history: held functions over 4 '
        'names, small substitutions between undeclarations / declarations of unused variables, swaps and re-use of node numbers). Oracle: truth-table substitution with all '
        'replacements evaluated under the original assignment. non-trivial: substituted variable in the support; '
        'distinct = (kind, truth table, substitution, order).')
EXHAUSTIVE = {'quick': False, 'thorough': False}
REQUIRED_COUNTERS = ['cofactor-checked', 'compose-checked', 'rename-checked', 'let-after-level-shift']
NAMES = ['x', 'y', 'z']


def bounds(tier):
    return dict(variables=3, functions=256, orders=6 if tier == 'thorough' else 2,
                compose_samples_per_function=6 if tier == 'quick' else 40, sampled_5var=200 if tier == 'quick' else 4000 * DEEP)


def chunks(tier, seed):
    rnd = random.Random(seed)
    orders = list(itertools.permutations(NAMES + ['s']))
    orders = rnd.sample(orders, 2 if tier == 'quick' else 8)
    out = []
    for o in orders:
        for warm in (0, 1):
            for part in range(4):
                out.append(('case_all3', [dict(order=list(o), warm=warm, part=part, seed=seed,
                                               ncomp=6 if tier == 'quick' else 40)]))
    ns = 60 if tier == 'quick' else 600 * DEEP
    for k in range(0, ns, 10):
        out.append(('case_shift', [dict(seed=seed * 4421 + k + i, steps=40) for i in range(10)]))
    n5 = 200 if tier == 'quick' else 4000 * DEEP
    for k in range(0, n5, 25):
        out.append(('case_sampled', [dict(seed=seed * 7 + k, count=25, nvars=4 + (k // 25) % 2, dyn=(k // 50) % 2)]))
    return out


def _let(m, b, auto, d, u):
    """call let through dd.bdd or dd.autoref."""
    if not auto:
        return b.let(d, u)
    f = m._wrap(u)
    if d and isinstance(next(iter(d.values())), int) and not isinstance(next(iter(d.values())), bool):
        d = {k: m._wrap(v) for k, v in d.items()}
    return m.let(d, f).node


def check_let(m, b, names, den_, u, t, kind, d, funcs, res, auto):
    n = len(names)
    before = den_.of(u)
    r = _let(m, b, auto, d, u)
    got = den_.of(r)
    want = tt_subst(t, funcs, n)
    require(got == want, f'let[{kind}]#post:substitution',
            lambda: f'tt={t} u={u} d={d} order={b.vars} auto={auto}: got {got} want {want}')
    require(den_.of(u) == before == t, f'let[{kind}]#post:operand-unchanged', lambda: f'tt={t}')
    res.count({'const': 'cofactor-checked', 'func': 'compose-checked', 'name': 'rename-checked'}[kind])


def case_all3(c, res):
    import dd.autoref as A
    names = sorted(c['order'])          # ['s','x','y','z']
    m = A.BDD({nm: k for k, nm in enumerate(c['order'])})
    b = m._bdd
    rnd = random.Random(c['seed'] + c['part'])
    if c['warm']:
        warm_up(b, names, rnd, steps=40)
    n = len(names)
    d = Den(b, names)
    core = NAMES
    cj = [names.index(x) for x in core]
    N = 256
    lo, hi = c['part'] * N // 4, (c['part'] + 1) * N // 4
    keys = []
    F = full(n)
    for t3 in range(lo, hi):
        # lift the 3-variable table to the 4-name universe
        t = 0
        for k in range(1 << n):
            kk = sum(((k >> cj[i]) & 1) << i for i in range(3))
            if (t3 >> kk) & 1:
                t |= 1 << k
        u = build(b, t, names)
        b.incref(u)
        auto = t3 % 2
        # constants: every partial assignment
        for vals in itertools.product([None, False, True], repeat=3):
            dd_ = {x: v for x, v in zip(core, vals) if v is not None}
            if not dd_:
                continue
            funcs = {names.index(x): (F if v else 0) for x, v in dd_.items()}
            check_let(m, b, names, d, u, t, 'const', dd_, funcs, res, auto)
        # names: every map core -> names (incl. identity parts, swaps, collisions)
        for tg in itertools.product(names, repeat=3):
            dd_ = {x: y for x, y in zip(core, tg)}
            # also partial maps: drop identity entries half of the time
            if t3 % 3 == 0:
                dd_ = {x: y for x, y in dd_.items() if x != y} or dd_
            funcs = {names.index(x): vmask(names.index(y), n) for x, y in dd_.items()}
            check_let(m, b, names, d, u, t, 'name', dd_, funcs, res, auto)
        # functions
        for _ in range(c['ncomp']):
            sub = rnd.sample(names, rnd.randint(1, 3))
            dd_, funcs = {}, {}
            hold = []
            for x in sub:
                tg = rnd.getrandbits(1 << n)
                g = build(b, tg, names)
                b.incref(g)
                hold.append(g)
                dd_[x] = g
                funcs[names.index(x)] = tg
            check_let(m, b, names, d, u, t, 'func', dd_, funcs, res, auto)
            release_all(b, hold)
        keys.append((t3, tuple(c['order']), c['warm']))
        b.decref(u)
        if c['warm'] and t3 % 16 == 0:
            b.collect_garbage()
            d.reset()
    wf(b, names)
    res.evals += (hi - lo) * (26 + 64 + c['ncomp']) - 1
    return keys


def case_sampled(c, res):
    import dd.autoref as A
    rnd = random.Random(c['seed'])
    names = ['a', 'b', 'c', 'd', 'e'][:c['nvars']]
    o = names[:]
    rnd.shuffle(o)
    m = A.BDD({nm: k for k, nm in enumerate(o)})
    b = m._bdd
    warm_up(b, names, rnd, steps=20)
    dyn = bool(c.get('dyn'))
    if dyn:
        # dynamic reordering enabled with a small threshold: operands below are referenced
        m.configure(reordering=True)
        b._last_len = rnd.choice([1, 2, 4, 8])
    d = Den(b, names) if not dyn else type('D', (), {'of': staticmethod(lambda u: den(b, u, names)), 'reset': staticmethod(lambda: None)})
    n = len(names)
    F = full(n)
    keys = []
    for _ in range(c['count']):
        t = rnd.getrandbits(1 << n)
        u = build(b, t, names)
        b.incref(u)
        kind = rnd.choice(['const', 'name', 'func'])
        sub = rnd.sample(names, rnd.randint(1, n))
        hold = []
        if kind == 'const':
            dd_ = {x: rnd.random() < .5 for x in sub}
            funcs = {names.index(x): (F if v else 0) for x, v in dd_.items()}
        elif kind == 'name':
            dd_ = {x: rnd.choice(names) for x in sub}
            funcs = {names.index(x): vmask(names.index(y), n) for x, y in dd_.items()}
        else:
            dd_, funcs = {}, {}
            for x in sub:
                tg = rnd.getrandbits(1 << n)
                g = build(b, tg, names)
                b.incref(g); hold.append(g)
                dd_[x] = g
                funcs[names.index(x)] = tg
        check_let(m, b, names, d, u, t, kind, dd_, funcs, res, rnd.random() < .5)
        release_all(b, hold)
        b.decref(u)
        keys.append((kind, t, tuple(sorted(map(str, dd_.items())))))
    wf(b, names)
    res.evals += c['count'] - 1
    return keys


def case_shift(c, res):
    """small substitutions into a few held functions while unused variables are undeclared / declared, levels swapped and node numbers
    re-used (lib.shift_history)"""
    keys = []

    def query(m, b, names, held, rnd):
        n = len(names)
        F = full(n)
        u, t = rnd.choice(held)
        kind = rnd.choice(['const', 'name', 'func'])
        sub = rnd.sample(names, rnd.choice([1, 1, 2]))
        hold = []
        if kind == 'const':
            d = {x: rnd.random() < .5 for x in sub}
            funcs = {names.index(x): (F if v else 0) for x, v in d.items()}
        elif kind == 'name':
            d = {x: rnd.choice(names) for x in sub}
            funcs = {names.index(x): vmask(names.index(y), n) for x, y in d.items()}
        else:
            d, funcs = {}, {}
            for x in sub:
                g, tg = rnd.choice(held)
                d[x] = g
                funcs[names.index(x)] = tg
        auto = rnd.random() < .4
        r = _let(m, b, auto, d, u)
        got = den(b, r, names)
        want = tt_subst(t, funcs, n)
        require(got == want, f'let[{kind}]#post:substitution',
                lambda: f'after declarations changed: tt={t} u={u} d={d} order={dict(b.vars)} auto={auto}: got {got} want {want}')
        release_all(b, hold)
        res.count('let-after-level-shift')
        keys.append((kind, t, tuple(sorted(map(str, d.items()))), tuple(sorted(b.vars, key=b.vars.get))))
    shift_history(c, res, query)
    return keys
