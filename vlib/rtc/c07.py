"""C07 bounded stand-in: reordering never changes what a held reference denotes."""
import itertools
import os
import random
import subprocess
import sys

from vlib.rtc.lib import *  # noqa
from vlib.rtc import hist

RULE = ('for sets of 1-3 held functions (every function of 3 variables singly; sampled pairs/triples; sampled over '
        '4-6 variables), every starting order: every adjacent swap (by level and by name, both argument orders), '
        'sifting (1-3 repetitions), reorder to every target permutation, reorder_to_pairs for every pairing; with '
        'dynamic reordering disabled and enabled (small threshold); plus unreferenced garbage present. Checked: truth '
        'table, integer identity and external count of every held reference, wf(), four order views, requested '
        'order / adjacency, sifting does not grow the manager. Sifting iterates a set of names, so thorough runs '
        'repeat under PYTHONHASHSEED 0..7. non-trivial: a held function depends on a moved variable; distinct = '
        '(operation, held truth tables, start order).')
EXHAUSTIVE = {'quick': False, 'thorough': False}
REQUIRED_COUNTERS = ['swap-checked', 'sift-checked', 'order-checked', 'pairs-checked']
NAMES = ['x', 'y', 'z']


def bounds(tier):
    return dict(variables='3 (all functions) and 4-6 (sampled)', orders=6, held_sets='1-3 functions',
                hashseeds=1 if tier == 'quick' else 8)


def chunks(tier, seed):
    out = []
    orders = list(itertools.permutations(NAMES))
    for o in orders:
        for part in range(2):
            out.append(('case_single3', [dict(order=list(o), part=part, seed=seed, dyn=part)]))
    n = 150 if tier == 'quick' else 3000 * DEEP
    for k in range(0, n, 15):
        out.append(('case_sets', [dict(seed=seed * 1000003 + k + i, nvars=3 + (k + i) % 4, dyn=(k + i) % 3 == 0)
                                  for i in range(15)]))
    if tier == 'thorough':
        for hs in range(1, 8):
            out.append(('case_hashseed', [dict(hashseed=hs, seed=seed)]))
    return out


def _snapshot(b, held, names):
    d = Den(b, names)
    return [(u, d.of(u), b._ref[abs(u)]) for u in held]


def _verify(b, held, snap, names, what, size_before=None):
    ext = wf(b, names)
    d = Den(b, names)
    for (u, t, rc), u2 in zip(snap, held):
        require(abs(u) in b._succ, f'{what}#post:held-node-kept', lambda: f'node {u} deleted')
        got = d.of(u)
        require(got == t, f'{what}#post:held-denotation', lambda: f'ref {u}: {t} -> {got}; order now {b.vars}')
    cnt = {}
    for u in held:
        cnt[abs(u)] = cnt.get(abs(u), 0) + 1
    for u, e in ext.items():
        require(e == cnt.get(u, 0) + (1 if u == 1 else 0), f'{what}#post:external-count',
                lambda: f'node {u}: ref-indeg={e}, held {cnt.get(u, 0)}')
    if size_before is not None:
        require(len(b) <= size_before, f'{what}#post:not-larger', lambda: f'{size_before} -> {len(b)}')


def _ops_all(b, B, held, names, res, rnd, light=False):
    """apply every kind of reordering once, checking after each."""
    n = len(b.vars)
    # adjacent swaps
    for i in range(n - 1):
        for form in range(3 if not light else 1):
            snap = _snapshot(b, held, names)
            before = dict(b.vars)
            x, y = b.var_at_level(i), b.var_at_level(i + 1)
            if form == 0:
                b.swap(i, i + 1)
            elif form == 1:
                b.swap(y, x)
            else:
                b.swap(i + 1, i)
            want = dict(before)
            want[x], want[y] = before[y], before[x]
            require(dict(b.vars) == want, 'swap#post:levels-exchanged', lambda: f'{before} swap {i} -> {b.vars}')
            _verify(b, held, snap, names, 'swap')
            res.count('swap-checked')
    # sifting
    for rep in range(1 if light else 2):
        snap = _snapshot(b, held, names)
        b.collect_garbage()
        size = len(b)
        B.reorder(b)
        _verify(b, held, snap, names, 'sift', size_before=size)
        res.count('sift-checked')
    # to a given order
    perms = list(itertools.permutations(sorted(b.vars)))
    if len(perms) > 6:
        perms = rnd.sample(perms, 4 if light else 8)
    for p in perms:
        snap = _snapshot(b, held, names)
        o = shuffled_dict({nm: k for k, nm in enumerate(p)}, rnd)     # listed in no particular order
        B.reorder(b, o)
        require(dict(b.vars) == o, 'reorder#post:requested-order', lambda: f'{b.vars} != {o}')
        _verify(b, held, snap, names, 'reorder-to-order')
        res.count('order-checked')
    # pairs
    vs = sorted(b.vars)
    for x, y in itertools.permutations(vs, 2):
        snap = _snapshot(b, held, names)
        B.reorder_to_pairs(b, {x: y})
        require(abs(b.vars[x] - b.vars[y]) == 1, 'reorder_to_pairs#post:adjacent', lambda: f'{x},{y}: {b.vars}')
        _verify(b, held, snap, names, 'reorder_to_pairs')
        res.count('pairs-checked')
        if light:
            break


def case_single3(c, res):
    import dd.bdd as B
    names = sorted(c['order'])
    rnd = random.Random(c['seed'])
    lo, hi = c['part'] * 128, (c['part'] + 1) * 128
    keys = []
    for t in range(lo, hi):
        b = fresh(names, shuffled_dict({nm: k for k, nm in enumerate(c['order'])}, rnd))
        if c['dyn']:
            b.configure(reordering=True)
            b._last_len = 1
        b._last_len, ll = None, b._last_len
        u = build(b, t, names)
        b.incref(u)
        # some unreferenced garbage as well
        build(b, rnd.getrandbits(8), names)
        b._last_len = ll
        _ops_all(b, B, [u], names, res, rnd, light=(t % 8 != 0))
        require((b._last_len is not None) == bool(c['dyn']), 'reorder#post:reordering-setting-kept', b._last_len)
        b.decref(u)
        keys.append((t, tuple(c['order']), c['dyn']))
    res.evals += hi - lo - 1
    return keys


def case_sets(c, res):
    import dd.bdd as B
    rnd = random.Random(c['seed'])
    names = hist.ALLNAMES[:c['nvars']] if c['nvars'] <= 5 else hist.ALLNAMES + ['f']
    o = names[:]
    rnd.shuffle(o)
    b = fresh(names, shuffled_dict({nm: k for k, nm in enumerate(o)}, rnd))
    n = len(names)
    held = []
    for _ in range(rnd.randint(1, 3)):
        u = build(b, rnd.getrandbits(1 << n), names)
        b.incref(u)
        held.append(u)
    if rnd.random() < .5:
        held.append(held[0])
        b.incref(held[0])
    for _ in range(2):
        build(b, rnd.getrandbits(1 << n), names)
    if c['dyn']:
        b.configure(reordering=True)
        b._last_len = rnd.choice([1, 2, 4])
    _ops_all(b, B, held, names, res, rnd, light=True)
    # multi-pair reorder_to_pairs: every requested pair adjacent afterwards is only promised pairwise;
    # we check denotations and, for a single chain of disjoint pairs processed in order, the last pair.
    vs = names[:]
    rnd.shuffle(vs)
    pairs = {vs[2 * i]: vs[2 * i + 1] for i in range(len(vs) // 2)}
    snap = _snapshot(b, held, names)
    B.reorder_to_pairs(b, pairs)
    _verify(b, held, snap, names, 'reorder_to_pairs')
    for x, y in pairs.items():
        require(abs(b.vars[x] - b.vars[y]) == 1, 'reorder_to_pairs#post:adjacent', lambda: f'{pairs}: {b.vars}')
    # an already adjacent pair listed first, a distant pair after it
    if len(names) >= 4:
        o2 = sorted(b.vars, key=b.vars.get)
        pairs2 = {o2[0]: o2[1], o2[2]: o2[-1]} if rnd.random() < .5 else {o2[-1]: o2[-2], o2[0]: o2[-3]}
        snap = _snapshot(b, held, names)
        B.reorder_to_pairs(b, pairs2)
        _verify(b, held, snap, names, 'reorder_to_pairs')
        for x, y in pairs2.items():
            require(abs(b.vars[x] - b.vars[y]) == 1, 'reorder_to_pairs#post:adjacent', lambda: f'{pairs2}: {b.vars}')
        res.count('pairs-checked')
    release_all(b, held)
    return [(tuple(o), len(held), c['dyn'], c['seed'] % 1000)]


def case_hashseed(c, res):
    """re-run the sifting cases in a child interpreter with another PYTHONHASHSEED."""
    env = dict(os.environ, PYTHONHASHSEED=str(c['hashseed']), VERIF_TIER='quick')
    code = ('import sys, json; sys.path.insert(0, %r); from vlib import harness; import logging, warnings;'
            'logging.disable(50); warnings.simplefilter("ignore"); sys.unraisablehook=lambda *a: None;'
            'r = harness.run_cases("vlib.rtc.c07", "case_sets", [dict(seed=%d + i, nvars=3 + i %% 4, dyn=i %% 3 == 0) for i in range(60)]);'
            'print(json.dumps(dict(fails=r.fails, crashes=r.crashes, n=r.evals, counters=r.counters)))'
            % (os.path.dirname(os.path.dirname(os.path.dirname(os.path.abspath(__file__)))), c['seed'] * 77 + c['hashseed'] * 1000))
    p = subprocess.run([sys.executable, '-c', code], env=env, capture_output=True, text=True, timeout=600)
    import json
    out = json.loads(p.stdout.strip().splitlines()[-1])
    for k, v in out['counters'].items():
        res.count(k, v)
    res.evals += out['n']
    if out['crashes']:
        raise RuntimeError(out['crashes'][0]['tb'])
    if out['fails']:
        f = out['fails'][0]
        raise Viol(f['site'], f"PYTHONHASHSEED={c['hashseed']} case={f['case']}: {f['detail']}")
    return ('hashseed', c['hashseed'])
