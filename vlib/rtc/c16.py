"""C16 bounded stand-in: generated text-mode DDDMP files."""
import os
import random
import shutil
import tempfile

from vlib.rtc.lib import *  # noqa

RULE = ('generated DDDMP text files: 1-4 roots (either sign, constants excluded) over 2-5 support variables inside 2-8 declared '
        'variables; variable identification modes .varinfo 0 (ids), 1 (permids), 3 (names); optional .auxids line; with .orderedvarnames (all '
        'variables) or without (levels from .permids, with gaps, not increasing in .ids order); support listed in id order '
        'that differs from the level order; node numbers a random permutation (not creation order, parents may precede '
        'children), node lines children-first or shuffled. Oracle: the truth table of each root computed from the generated '
        'functions themselves, compared by variable name with every element of bdd.roots; wf() of the returned manager; in half of the '
        'cases a second unrelated file of the same byte length is written to the same path right after the first and loaded. '
        'non-trivial: >= 2 internal nodes; distinct = (mode, order, root truth tables, numbering).')
EXHAUSTIVE = {'quick': False, 'thorough': False}
REQUIRED_COUNTERS = ['files-checked']


def bounds(tier):
    return dict(files=200 if tier == 'quick' else 6000 * DEEP, support_vars='2-5', declared_vars='2-8')


def chunks(tier, seed):
    n = 200 if tier == 'quick' else 6000 * DEEP
    return [('case_file', [dict(seed=seed * 4099 + k + i) for i in range(20)]) for k in range(0, n, 20)]


def _gen(rnd):
    import dd.bdd as B
    nv = rnd.randint(2, 8)
    allv = [f'v{k}' for k in range(nv)]              # index = position in this list
    level_order = allv[:]
    rnd.shuffle(level_order)                          # level -> name
    ns = rnd.randint(2, min(5, nv))
    supp = sorted(rnd.sample(allv, ns), key=allv.index)   # support in id order
    ordered = rnd.random() < .6
    varinfo = rnd.choice([0, 1, 3] if ordered else [0, 1])
    # source diagram in a scratch manager ordered like the file
    sb = B.BDD({nm: k for k, nm in enumerate(level_order)})
    n = len(supp)
    roots = []
    for _ in range(rnd.randint(1, 4)):
        while True:
            t = rnd.getrandbits(1 << n)
            if t not in (0, full(n)):
                break
        u = build(sb, t, supp)
        sb.incref(u)
        roots.append((u, t))
    nodes = sorted(sb.descendants([u for u, _ in roots]))
    # the support actually used
    used_levels = {sb._succ[u][0] for u in nodes if u != 1}
    used = [nm for nm in supp if sb.vars[nm] in used_levels]
    if len(used) < 1:
        return None
    supp_f = used
    # numbering: random permutation of 1..N with terminal anywhere
    ids = list(range(1, len(nodes) + 1))
    rnd.shuffle(ids)
    num = dict(zip(nodes, ids))
    permid = {nm: level_order.index(nm) for nm in allv}
    lines = []
    for u in nodes:
        i, v, w = sb._succ[u]
        if u == 1:
            lines.append((u, f'{num[u]} T 1 0 0'))
            continue
        nm = sb._level_to_var[i]
        info = {0: allv.index(nm), 1: permid[nm], 3: nm}[varinfo]
        then_, else_ = num[w], (num[abs(v)] if v > 0 else -num[abs(v)])
        lines.append((u, f'{num[u]} {info} {allv.index(nm)} {then_} {else_}'))
    if rnd.random() < .5:
        rnd.shuffle(lines)
    else:
        lines.sort(key=lambda x: -sb._succ[x[0]][0])   # children (deeper levels) first
    rootids = [(num[abs(u)] if u > 0 else -num[abs(u)]) for u, _ in roots]
    hdr = ['# generated', '.ver DDDMP-2.0', '.mode A', f'.varinfo {varinfo}', f'.nnodes {len(nodes)}',
           f'.nvars {nv}', f'.nsuppvars {len(supp_f)}', '.suppvarnames ' + ' '.join(supp_f)]
    if ordered:
        hdr.append('.orderedvarnames ' + ' '.join(level_order))
    hdr += ['.ids ' + ' '.join(str(allv.index(x)) for x in supp_f),
            '.permids ' + ' '.join(str(permid[x]) for x in supp_f)]
    if rnd.random() < .4:
        # auxiliary ids: any numbers; they identify nothing in the modes the loader supports
        hdr.append('.auxids ' + ' '.join(str(rnd.randint(0, 20)) for _ in supp_f))
    hdr += [
            f'.nroots {len(rootids)}', '.rootids ' + ' '.join(map(str, rootids)), '.nodes']
    return dict(hdr=hdr, lines=[l for _, l in lines], level_order=level_order, ordered=ordered, supp_f=supp_f, permid=permid, supp=supp,
                roots=roots, sb=sb, varinfo=varinfo, ids=ids)


def _text(g, pad=0):
    return '\n'.join(['# generated' + '.' * pad] + g['hdr'][1:] + g['lines'] + ['.end', ''])


def _judge(b, g, text, res):
    level_order, ordered, supp_f, permid, supp, roots, sb = (g[k] for k in ('level_order', 'ordered', 'supp_f', 'permid', 'supp', 'roots', 'sb'))
    wf(b, None)
    declared = set(b.vars)
    want_decl = set(level_order) if ordered else set(supp_f)
    require(declared == want_decl, 'dddmp.load#post:declared-variables', lambda: f'{sorted(declared)} vs {sorted(want_decl)}\n{text}')
    # relative order of the variables as in the file
    rel = sorted(declared, key=lambda x: permid[x])
    require(sorted(declared, key=b.vars.get) == rel, 'dddmp.load#post:order-of-levels', lambda: f'{b.vars}\n{text}')
    got = set()
    for r in b.roots:
        require(isinstance(r, int) and abs(r) in b._succ, 'dddmp.load#post:roots-are-references', lambda: f'{r}\n{text}')
        got.add(den(b, r, supp))
    want = {t for _, t in roots}
    require(got == want, 'dddmp.load#post:roots-denote-file-functions',
            lambda: f'got {sorted(got)} want {sorted(want)} (over {supp})\n{text}')
    for u, _ in roots:
        sb.decref(u)
    res.count('files-checked')
    return (g['varinfo'], ordered, tuple(level_order), tuple(sorted(want)), tuple(g['ids'][:6]))


def case_file(c, res):
    import dd.dddmp as D
    rnd = random.Random(c['seed'])
    gs = [_gen(rnd)]
    if gs[0] is None:
        return None
    if rnd.random() < .5:
        # a second, unrelated file written to the *same path* right after the first, padded (in its comment line) to the same number of
        # bytes: what the loader returns depends on the content of the file, not on its name, size or time stamp
        g2 = _gen(rnd)
        if g2 is not None:
            gs.append(g2)
    L = max(len(_text(g)) for g in gs)
    td = tempfile.mkdtemp(prefix='verif_c16_')
    key = None
    try:
        fn = os.path.join(td, 'f.dddmp')
        for g in gs:
            text = _text(g, L - len(_text(g)))
            with open(fn, 'w') as f:
                f.write(text)
            b = D.load(fn)
            k = _judge(b, g, text, res)
            key = key or k
            if g is not gs[0]:
                res.count('same-path-rewritten')
    finally:
        shutil.rmtree(td, ignore_errors=True)
    return key
