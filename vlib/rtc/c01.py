"""C01 bounded stand-in: connectives and ITE against truth tables (3 variables exhaustive pairs)."""
import itertools
import random

from vlib.rtc.lib import *  # noqa

NAMES = ['x', 'y', 'z']
RULE = ('all ordered pairs of the 256 functions of 3 variables for one spelling of every connective class x '
        'all 6 variable orders x {fresh, warmed-up} managers; every alias spelling on sampled pairs; ITE triples '
        '(all 16^3 over 2 variables, sampled over 3); dd.autoref Function operators on all pairs of 2-variable '
        'functions; level-shift histories (lib.shift_history: connectives, ite and `<=` on held functions of 4 variables between undeclarations / '
        'declarations of unused variables, swaps and re-use of node numbers). A case is non-trivial if no operand is constant; distinct = (kind, class, operand truth tables, order).')
EXHAUSTIVE = {'quick': False, 'thorough': False}
REQUIRED_COUNTERS = ['apply-checked', 'ite-checked', 'operator-checked', 'apply-after-level-shift']


def bounds(tier):
    return dict(variables=3, pairs='256^2 per class', orders=6 if tier == 'thorough' else 2,
                ite_triples='16^3 exhaustive (2 vars) + sampled (3 vars)')


def chunks(tier, seed):
    orders = list(itertools.permutations(NAMES))
    if tier == 'quick':
        rnd = random.Random(seed)
        orders = [orders[0], rnd.choice(orders[1:])]
    out = []
    for oi, o in enumerate(orders):
        for cls in ['and', 'or', 'xor', 'implies', 'equiv', 'diff']:
            for warm in (0, 1):
                for part in range(4):
                    out.append(('case_pairs', [dict(order=list(o), cls=cls, warm=warm, part=part, seed=seed)]))
        out.append(('case_aliases', [dict(order=list(o), seed=seed + k, warm=k % 2) for k in range(2)]))
        out.append(('case_ite2', [dict(order=list(o[:2]), warm=w, seed=seed) for w in (0, 1)]))
        for k in range(4 if tier == 'quick' else 16):
            out.append(('case_ite3', [dict(order=list(o), seed=seed * 100 + k, warm=k % 2,
                                           count=3000 if tier == 'quick' else 20000 * DEEP)]))
        out.append(('case_function_ops', [dict(order=list(o[:2]), seed=seed)]))
    ns = 40 if tier == 'quick' else 400 * DEEP
    for k in range(0, ns, 10):
        out.append(('case_shift', [dict(seed=seed * 4447 + k + i, steps=40) for i in range(10)]))
    return out


def _mgr(order, warm, seed):
    names = sorted(order)
    b = fresh(names, {nm: k for k, nm in enumerate(order)})
    if warm:
        warm_up(b, names, random.Random(seed), steps=40)
        wf(b, names)
    return b, names


def _all_funcs(b, names):
    n = len(names)
    refs = []
    for t in range(1 << (1 << n)):
        u = build(b, t, names)
        b.incref(u)
        refs.append(u)
    return refs


def case_pairs(c, res):
    b, names = _mgr(c['order'], c['warm'], c['seed'])
    n = len(names)
    refs = _all_funcs(b, names)
    d = Den(b, names)
    op = SPELLINGS[c['cls']][0]
    spec = SPEC[c['cls']]
    N = len(refs)
    lo, hi = c['part'] * N // 4, (c['part'] + 1) * N // 4
    for a in range(lo, hi):
        for bb in range(N):
            r = b.apply(op, refs[a], refs[bb])
            got = d.of(r)
            want = spec(n, a, bb)
            require(got == want, f'apply[{c["cls"]}]#post:connective',
                    lambda: f'op={op!r} operands tt={a},{bb} order={c["order"]} warm={c["warm"]}: got {got} want {want}')
            res.count('apply-checked')
    res.evals += (hi - lo) * N - 1
    # negation for every function
    for a in range(N):
        for sp in SPELLINGS['not']:
            require(d.of(b.apply(sp, refs[a])) == SPEC['not'](n, a), 'apply[not]#post:connective', f'{sp} tt={a}')
    wf(b, names)
    release_all(b, refs)
    return [(c['cls'], tuple(c['order']), c['warm'], a) for a in range(max(lo, 1), min(hi, N - 1))]


def case_aliases(c, res):
    b, names = _mgr(c['order'], c['warm'], c['seed'])
    n = len(names)
    rnd = random.Random(c['seed'])
    d = Den(b, names)
    keys = []
    for _ in range(300):
        ta, tb, tc = (rnd.getrandbits(1 << n) for _ in range(3))
        ua, ub, uc = build(b, ta, names), build(b, tb, names), build(b, tc, names)
        for u in (ua, ub, uc):
            b.incref(u)
        for cls, sps in SPELLINGS.items():
            for sp in sps:
                if cls == 'not':
                    r = b.apply(sp, ua)
                    want = SPEC[cls](n, ta)
                elif cls == 'ite':
                    r = b.apply(sp, ua, ub, uc)
                    want = SPEC[cls](n, ta, tb, tc)
                else:
                    r = b.apply(sp, ua, ub)
                    want = SPEC[cls](n, ta, tb)
                require(d.of(r) == want, f'apply[{cls}]#post:connective',
                        lambda: f'spelling {sp!r} operands tt={ta},{tb},{tc} order={c["order"]}')
                res.count('apply-checked')
                keys.append((cls, sp, ta, tb))
        for u in (ua, ub, uc):
            b.decref(u)
        if rnd.random() < .1:
            b.collect_garbage()
            d.reset()
    wf(b, names)
    return keys


def case_ite2(c, res):
    b, names = _mgr(c['order'], c['warm'], c['seed'])
    n = 2
    refs = _all_funcs(b, names)
    d = Den(b, names)
    for g in range(16):
        for u in range(16):
            for v in range(16):
                r = b.ite(refs[g], refs[u], refs[v])
                require(d.of(r) == tt_ite(g, u, v, n), 'ite#post:denotation', lambda: f'tt={g},{u},{v}')
                res.count('ite-checked')
    res.evals += 16 ** 3 - 1
    wf(b, names)
    release_all(b, refs)
    return [('ite2', tuple(c['order']), c['warm'], g) for g in range(1, 15)]


def case_ite3(c, res):
    b, names = _mgr(c['order'], c['warm'], c['seed'])
    n = 3
    rnd = random.Random(c['seed'])
    refs = _all_funcs(b, names)
    d = Den(b, names)
    keys = []
    for _ in range(c['count']):
        g, u, v = rnd.randrange(256), rnd.randrange(256), rnd.randrange(256)
        r = b.ite(refs[g], refs[u], refs[v])
        require(d.of(r) == tt_ite(g, u, v, n), 'ite#post:denotation',
                lambda: f'tt={g},{u},{v} order={c["order"]} warm={c["warm"]}')
        res.count('ite-checked')
        keys.append(('ite3', g, u, v))
    res.evals += c['count'] - 1
    wf(b, names)
    release_all(b, refs)
    return keys


def case_function_ops(c, res):
    """`Function` operators ~ & | implies equiv <= < == != through dd.autoref."""
    import dd.autoref as A
    names = sorted(c['order'])
    m = A.BDD({nm: k for k, nm in enumerate(c['order'])})
    n = len(names)
    b = m._bdd
    F = full(n)
    fs = [m._wrap(build(b, t, names)) for t in range(1 << (1 << n))]
    d = Den(b, names)
    keys = []
    for ta, fa in enumerate(fs):
        require(d.of((~fa).node) == (~ta & F), 'Function.__invert__#post', ta)
        for tb, fb in enumerate(fs):
            chk = [('&', (fa & fb), ta & tb), ('|', (fa | fb), ta | tb),
                   ('implies', fa.implies(fb), (~ta | tb) & F), ('equiv', fa.equiv(fb), ~(ta ^ tb) & F)]
            for nm, r, want in chk:
                require(d.of(r.node) == want, f'Function.{nm}#post', lambda: f'{ta},{tb}')
            require((fa == fb) == (ta == tb), 'Function.__eq__#post', lambda: f'{ta},{tb}')
            require((fa != fb) == (ta != tb), 'Function.__ne__#post', lambda: f'{ta},{tb}')
            require((fa <= fb) == ((ta & ~tb & F) == 0), 'Function.__le__#post', lambda: f'{ta},{tb}')
            require((fa < fb) == ((ta & ~tb & F) == 0 and ta != tb), 'Function.__lt__#post', lambda: f'{ta},{tb}')
            res.count('operator-checked')
            keys.append(('fop', ta, tb))
        require((fa == m.true) == (ta == F) and (fa == m.false) == (ta == 0), 'Function.__eq__#const', ta)
    res.evals += len(fs) ** 2 - 1
    r = chk = fa = fb = None
    del fs[:]
    return keys


def case_shift(c, res):
    """connectives on a few held functions (dd.bdd.apply / ite, dd.autoref operators, `<=`) while unused variables are undeclared / declared,
    levels swapped and node numbers re-used (lib.shift_history)"""
    keys = []

    def query(m, b, names, held, rnd):
        n = len(names)
        F = full(n)
        (f, t), (g, s_), (h, r_) = rnd.choice(held), rnd.choice(held), rnd.choice(held)
        if rnd.random() < .5:
            f, t = -f, ~t & F
        if rnd.random() < .5:
            g, s_ = -g, ~s_ & F
        cls = rnd.choice(['and', 'or', 'xor', 'implies', 'equiv', 'diff', 'not', 'ite', 'le'])
        if cls == 'le':
            got = m._wrap(f) <= m._wrap(g)
            require(got == ((t & ~s_ & F) == 0), '__le__#post:implication', lambda: f'after declarations changed: {f} <= {g}: {got} (tt {t}, {s_}) order={dict(b.vars)}')
            res.count('apply-after-level-shift')
            return
        sp = rnd.choice(SPELLINGS[cls])
        auto = rnd.random() < .4
        w = (lambda x: m._wrap(x)) if auto else (lambda x: x)
        mm = m if auto else b
        if cls == 'not':
            r, want = mm.apply(sp, w(f)), SPEC[cls](n, t)
        elif cls == 'ite':
            r, want = (mm.apply(sp, w(f), w(g), w(h)) if rnd.random() < .5 else mm.ite(w(f), w(g), w(h))), SPEC[cls](n, t, s_, r_)
        else:
            r, want = mm.apply(sp, w(f), w(g)), SPEC[cls](n, t, s_)
        got = den(b, r.node if auto else r, names)
        require(got == want, f'apply[{cls}]#post:connective',
                lambda: f'after declarations changed: {sp}({f}, {g}, {h}) tt=({t}, {s_}, {r_}) order={dict(b.vars)} auto={auto}: got {got} want {want}')
        res.count('apply-after-level-shift')
        keys.append((cls, t, s_, tuple(sorted(b.vars, key=b.vars.get))))
    shift_history(c, res, query)
    return keys
