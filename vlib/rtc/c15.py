"""C15 bounded stand-in: bdd_to_mdd and MDD operations."""
import itertools
import random

from vlib.rtc.lib import *  # noqa

RULE = ('(a) conversion: 1-3 integer variables of 1-2 bits (<= 5 bits), every/random integer-variable order (levels listed in a '
        'dict order different from the level order), random initial bit order, 1-4 referenced BDD functions of either sign: '
        'each MDD reference evaluated on every integer assignment equals the BDD on the encoded bits (first listed bit least '
        'significant), is complemented iff the BDD reference is, BDD truth tables intact afterwards, MDD well-formed and '
        'canonical (equal functions <-> equal references among all converted and derived references); (b) MDD histories: '
        'ite / every apply alias pointwise on truth tables over the integer space, incref/decref, collect_garbage with '
        're-use of freed node numbers: survivors == reachable from referenced, counts == in-edges + held. non-trivial: '
        'non-constant function; distinct = (bit layout, function truth tables) / operation sequence.')
EXHAUSTIVE = {'quick': False, 'thorough': False}
REQUIRED_COUNTERS = ['conversions-checked', 'mdd-ops-checked', 'mdd-collections-checked']


def bounds(tier):
    return dict(bits='<=5', int_vars='1-3', conversions=150 if tier == 'quick' else 4000 * DEEP, histories=100 if tier == 'quick' else 3000 * DEEP)


def chunks(tier, seed):
    n = 150 if tier == 'quick' else 4000 * DEEP
    out = []
    for k in range(0, n, 15):
        out.append(('case_convert', [dict(seed=seed * 1009 + k + i) for i in range(15)]))
    h = 100 if tier == 'quick' else 3000 * DEEP
    for k in range(0, h, 10):
        out.append(('case_mdd_history', [dict(seed=seed * 2003 + k + i) for i in range(10)]))
    return out


# ---- MDD oracle -----------------------------------------------------------------------------------------
def mdd_points(mdd):
    vs = sorted(mdd.vars, key=lambda v: mdd.vars[v]['level'])
    lens = [mdd.vars[v]['len'] for v in vs]
    return vs, lens, list(itertools.product(*[range(l) for l in lens]))


def mdd_eval(mdd, u, point_by_level):
    neg = False
    x = u
    while abs(x) != 1:
        if x < 0:
            neg = not neg
        t = mdd._succ[abs(x)]
        x = t[1 + point_by_level[t[0]]]
    if x < 0:
        neg = not neg
    return not neg


def mdd_tt(mdd, u):
    vs, lens, pts = mdd_points(mdd)
    t = 0
    for k, p in enumerate(pts):
        if mdd_eval(mdd, u, p):
            t |= 1 << k
    return t, len(pts)


def mdd_wf(mdd, held=None):
    S = mdd._succ
    n = len(mdd.vars)
    require(1 in S and S[1][0] == n, 'MDD-W1-terminal', lambda: f'{S.get(1)}')
    seen = {}
    indeg = {u: 0 for u in S}
    for u, t in S.items():
        if u == 1:
            continue
        i, nodes = t[0], t[1:]
        var = [v for v, d in mdd.vars.items() if d['level'] == i]
        require(len(var) == 1 and len(nodes) == mdd.vars[var[0]]['len'], 'MDD-W3-arity', lambda: f'{u}:{t}')
        require(all(x and abs(x) in S for x in nodes), 'MDD-W3-children', lambda: f'{u}:{t}')
        require(nodes[0] > 0, 'MDD-W3-first-edge-regular', lambda: f'{u}:{t}')
        require(len(set(nodes)) > 1, 'MDD-W3-reduced', lambda: f'{u}:{t}')
        require(all(S[abs(x)][0] > i for x in nodes), 'MDD-W3-ordered', lambda: f'{u}:{t}')
        require(t not in seen, 'MDD-W4-unique', lambda: f'{t}')
        seen[t] = u
        require(mdd._pred.get(t) == u, 'MDD-W4-pred', lambda: f'{t}')
        for x in nodes:
            indeg[abs(x)] += 1
    require(set(mdd._ref) == set(S), 'MDD-W6-ref-domain', '')
    if held is not None:
        for u in S:
            exp = indeg[u] + held.get(u, 0)
            require(mdd._ref[u] == exp, 'MDD-RC-ledger', lambda: f'node {u}: ref={mdd._ref[u]} in-edges+held={exp}')
    for (g, a, b), r in mdd._ite_table.items():
        require(all(abs(z) in S for z in (g, a, b, r)), 'MDD-W7-cache-live', lambda: f'{(g, a, b)}->{r}')
        tg, N = mdd_tt(mdd, g)
        ta, _ = mdd_tt(mdd, a)
        tb, _ = mdd_tt(mdd, b)
        tr, _ = mdd_tt(mdd, r)
        require(tr == (tg & ta) | (~tg & tb & ((1 << N) - 1)), 'MDD-W7-cache-correct', lambda: f'{(g, a, b)}->{r}')


def case_convert(c, res):
    import dd.bdd as B
    import dd.mdd as M
    rnd = random.Random(c['seed'])
    nint = rnd.randint(1, 3)
    ivars = ['i', 'j', 'k'][:nint]
    dv = {}
    bits_all = []
    budget = 5
    for v in ivars:
        nb = rnd.randint(1, 2) if budget >= 2 else 1
        budget -= nb
        bits = [f'{v}{b}' for b in range(nb)]
        dv[v] = dict(len=2 ** nb, bitnames=bits)
        bits_all += bits
    lv = list(range(nint))
    rnd.shuffle(lv)
    for v, l in zip(ivars, lv):
        dv[v]['level'] = l
    # the dict lists variables in an order independent of their levels
    items = list(dv.items())
    rnd.shuffle(items)
    dvars = dict(items)
    order = bits_all[:]
    rnd.shuffle(order)
    b = B.BDD({nm: k for k, nm in enumerate(order)})
    names = sorted(bits_all)
    n = len(names)
    held = []
    for _ in range(rnd.randint(1, 4)):
        t = rnd.getrandbits(1 << n)
        if rnd.random() < .3:
            t = cof(t, rnd.randrange(n), 0, n)
        u = build(b, t, names)
        b.incref(u)
        held.append((u, t))
    build(b, rnd.getrandbits(1 << n), names)   # garbage
    mdd, umap = M.bdd_to_mdd(b, dvars)
    wf(b, names)
    for u, t in held:
        require(den(b, u, names) == t, 'bdd_to_mdd#post:bdd-intact', lambda: f'{u}')
    mdd_wf(mdd)
    by_level = sorted(ivars, key=lambda v: dvars[v]['level'])
    by_tt = {}
    for u, t in held:
        require(abs(u) in umap, 'bdd_to_mdd#post:every-referenced-node-mapped', lambda: f'{u} not in {sorted(umap)}')
        r = umap[abs(u)]
        r = r if u > 0 else -r
        # "complemented when the BDD reference is": the MDD edge for u is the edge for |u| negated (by construction
        # above); check values pointwise
        for p in itertools.product(*[range(dvars[v]['len']) for v in by_level]):
            k = 0
            for v, val in zip(by_level, p):
                for bi, bit in enumerate(dvars[v]['bitnames']):
                    if (val >> bi) & 1:
                        k |= 1 << names.index(bit)
            got = mdd_eval(mdd, r, p)
            require(got == bool((t >> k) & 1), 'bdd_to_mdd#post:same-value-on-encoded-bits',
                    lambda: f'bdd ref {u} (tt {t}) mdd ref {r} at {dict(zip(by_level, p))}: {got}; dvars={dvars} bit order={b.vars}')
        mt, N = mdd_tt(mdd, r)
        prev = by_tt.setdefault(mt, r)
        require(prev == r, 'MDD-canonical#equal-functions-equal-refs', lambda: f'{prev} and {r}')
    # derived functions stay canonical and pointwise
    refs = [(umap[abs(u)] if u > 0 else -umap[abs(u)]) for u, _ in held]
    for x in refs:
        mdd.incref(x)
    F = None
    for x, y in itertools.product(refs, repeat=2):
        tx, N = mdd_tt(mdd, x)
        ty, _ = mdd_tt(mdd, y)
        F = (1 << N) - 1
        for cls in ('and', 'or', 'xor', 'implies', 'equiv', 'diff'):
            r = mdd.apply(SPELLINGS[cls][len(str(x)) % len(SPELLINGS[cls])], x, y)
            want = {'and': tx & ty, 'or': tx | ty, 'xor': tx ^ ty, 'implies': (~tx | ty) & F,
                    'equiv': ~(tx ^ ty) & F, 'diff': tx & ~ty & F}[cls]
            tr, _ = mdd_tt(mdd, r)
            require(tr == want, f'MDD.apply[{cls}]#post:pointwise', lambda: f'{x},{y}')
            prev = by_tt.setdefault(tr, r)
            require(prev == r, 'MDD-canonical#equal-functions-equal-refs', lambda: f'{prev} and {r} both denote {tr}; dvars={dvars}')
            require((r == 1) == (tr == F) and (r == -1) == (tr == 0), 'MDD-canonical#constants', lambda: f'{r}')
    mdd_wf(mdd)
    for u, _ in held:
        b.decref(u)
    res.count('conversions-checked')
    return (tuple(sorted((v, d['level'], d['len']) for v, d in dvars.items())), tuple(order), tuple(t for _, t in held))


def case_mdd_history(c, res):
    import dd.mdd as M
    rnd = random.Random(c['seed'])
    nint = rnd.randint(1, 3)
    ivars = ['i', 'j', 'k'][:nint]
    lv = list(range(nint))
    rnd.shuffle(lv)
    dvars = {v: dict(level=l, len=rnd.choice([2, 3, 4]), bitnames=[]) for v, l in zip(ivars, lv)}
    mdd = M.MDD(dvars)
    vs, lens, pts = mdd_points(mdd)
    N = len(pts)
    F = (1 << N) - 1
    held = []   # (ref, tt)

    def literal():
        j = rnd.randrange(nint)
        var = vs[j]
        S = [rnd.random() < .5 for _ in range(lens[j])]
        r = mdd.find_or_add(j, *[(1 if s else -1) for s in S])
        t = 0
        for k, p in enumerate(pts):
            if S[p[j]]:
                t |= 1 << k
        return r, t

    def keep(r, t):
        mdd.incref(r)
        held.append((r, t))

    log = []
    for step in range(rnd.randint(5, 40)):
        op = rnd.choice(['lit', 'lit', 'apply', 'apply', 'ite', 'drop', 'drop', 'gc', 'not'])
        log.append(op)
        if op == 'lit' or not held:
            keep(*literal())
        elif op == 'apply':
            (x, tx), (y, ty) = rnd.choice(held), rnd.choice(held)
            cls = rnd.choice(['and', 'or', 'xor', 'implies', 'equiv', 'diff'])
            r = mdd.apply(rnd.choice(SPELLINGS[cls]), x, y)
            want = {'and': tx & ty, 'or': tx | ty, 'xor': tx ^ ty, 'implies': (~tx | ty) & F,
                    'equiv': ~(tx ^ ty) & F, 'diff': tx & ~ty & F}[cls]
            got, _ = mdd_tt(mdd, r)
            require(got == want, f'MDD.apply[{cls}]#post:pointwise', lambda: f'after {log[-6:]}: {x},{y} -> {r}')
            res.count('mdd-ops-checked')
            if rnd.random() < .6:
                keep(r, want)
        elif op == 'ite':
            (g, tg), (x, tx), (y, ty) = rnd.choice(held), rnd.choice(held), rnd.choice(held)
            r = mdd.ite(g, x, y) if rnd.random() < .5 else mdd.apply('ite', g, x, y)
            want = (tg & tx) | (~tg & ty & F)
            got, _ = mdd_tt(mdd, r)
            require(got == want, 'MDD.ite#post:pointwise', lambda: f'after {log[-6:]}: {g},{x},{y} -> {r}')
            res.count('mdd-ops-checked')
            if rnd.random() < .6:
                keep(r, want)
        elif op == 'not':
            x, tx = rnd.choice(held)
            r = mdd.apply(rnd.choice(SPELLINGS['not']), x)
            require(mdd_tt(mdd, r)[0] == ~tx & F, 'MDD.apply[not]#post:pointwise', x)
            keep(r, ~tx & F)
        elif op == 'drop':
            x, _ = held.pop(rnd.randrange(len(held)))
            mdd.decref(x)
        elif op == 'gc':
            mdd.collect_garbage()
            want = {1}
            st = [abs(x) for x, _ in held]
            while st:
                u = st.pop()
                if u in want:
                    continue
                want.add(u)
                st += [abs(z) for z in mdd._succ[u][1:]]
            require(set(mdd._succ) == want, 'MDD.collect_garbage#post:exactly-reachable',
                    lambda: f'after {log[-6:]}: {sorted(mdd._succ)} vs {sorted(want)}')
            res.count('mdd-collections-checked')
        cnt = {}
        for x, _ in held:
            cnt[abs(x)] = cnt.get(abs(x), 0) + 1
        mdd_wf(mdd, cnt)
        by_tt = {}
        for x, t in held:
            got, _ = mdd_tt(mdd, x)
            require(got == t, 'MDD-held-denotation', lambda: f'after {log[-6:]}: {x}')
            require(by_tt.setdefault(t, x) == x, 'MDD-canonical#equal-functions-equal-refs', lambda: f'{x}')
    return tuple(log[:12])
