"""C18 bounded stand-in: structural views (succ/low/high, descendants, sizes, networkx and DOT exports)."""
import itertools
import os
import random
import re
import shutil
import tempfile

from vlib.rtc.lib import *  # noqa

RULE = ('every function of 3 variables (both signs) and sampled root sets of 1-4 functions over 3-5 variables (roots in '
        'every sign pattern and order), every order of 3 variables, fresh and warmed-up managers, dd.bdd and dd.autoref: '
        '(1) u == negated(ite(var, high, low)) on truth tables through succ / Function.var/level/low/high/negated; (2) '
        'descendants, len(u), dag_size == independently computed reachable set; len(bdd) == stored nodes; (3) to_nx: node '
        'set == reachable, level attributes, exactly one then- and one else-edge per decision node, complement marks, '
        'evaluation of the graph == truth table; (4) DOT text from dump (parsed back): node set, level rows, solid=then / '
        'dashed=else, "-1" complement marks on else- and reference edges, evaluation from each reference node == truth '
        'table of that root; (5) the same Function objects asked repeatedly (len, dag_size, var, level, low, high, support) while '
        'the manager is reordered under them (2-3 groups of 4-6 variables moved between a separated and an interleaved order, sifting, '
        'swaps). non-trivial: non-constant roots; distinct = (root truth tables, order).')
EXHAUSTIVE = {'quick': False, 'thorough': False}
REQUIRED_COUNTERS = ['same-handle-queries', 'expansion-checked', 'descendants-checked', 'nx-checked', 'dot-checked']
NAMES = ['x', 'y', 'z']


def bounds(tier):
    return dict(variables='3 (all functions), 3-5 (sampled root sets)', orders=6 if tier == 'thorough' else 2,
                root_sets=150 if tier == 'quick' else 4000 * DEEP)


def chunks(tier, seed):
    rnd = random.Random(seed)
    orders = list(itertools.permutations(NAMES))
    if tier == 'quick':
        orders = [orders[0], rnd.choice(orders[1:])]
    out = []
    for o in orders:
        for warm in (0, 1):
            out.append(('case_all3', [dict(order=list(o), warm=warm, seed=seed)]))
    n = 150 if tier == 'quick' else 4000 * DEEP
    for k in range(0, n, 15):
        out.append(('case_rootsets', [dict(seed=seed * 3001 + k + i) for i in range(15)]))
    for k in range(0, 12 if tier == 'quick' else 12 * DEEP, 6):
        out.append(('case_same_handle', [dict(seed=seed * 3011 + k + i) for i in range(6)]))
    return out


def check_expansion(m, b, names, d, u, t, res):
    n = len(names)
    F = full(n)
    i, v, w = b.succ(u)
    f = m._wrap(u)
    require(f.negated == (u < 0), 'Function.negated#post', u)
    require(f.level == i, 'Function.level#post', u)
    if abs(u) == 1:
        require(v is None and w is None and f.low is None and f.high is None and f.var is None, 'succ#post:terminal', u)
        require(i == len(b.vars), 'succ#post:terminal-level', i)
        return
    var = b.var_at_level(i)
    require(f.var == var, 'Function.var#post', lambda: f'{f.var} vs {var}')
    vm = vmask(names.index(var), n)
    for lo, hi, how in ((v, w, 'succ'), (f.low.node, f.high.node, 'low/high'), (m.succ(f)[1].node, m.succ(f)[2].node, 'autoref.succ')):
        base = (vm & d.of(hi)) | (~vm & d.of(lo) & F)
        got = (~base & F) if u < 0 else base
        require(got == t, f'{how}#post:expansion-reproduces-u', lambda: f'u={u} tt={t}: ({i},{lo},{hi}) gives {got}')
        require(not tt_depends(d.of(hi), names.index(var), n) and not tt_depends(d.of(lo), names.index(var), n),
                f'{how}#post:children-below', u)
    res.count('expansion-checked')


def check_descendants(m, b, roots, res):
    want = reachable(b, roots)
    got = b.descendants(list(roots))
    require(set(got) == want, 'descendants#post:exactly-reachable', lambda: f'roots={roots}: {sorted(got)} vs {sorted(want)}')
    for r in roots:
        f = m._wrap(r)
        wr = reachable(b, [r])
        require(len(f) == len(wr) and f.dag_size == len(wr), 'dag_size#post', lambda: f'{r}: {len(f)} vs {len(wr)}')
    require(len(b) == len(b._succ) == len(m), '__len__#post', '')
    res.count('descendants-checked')


def check_nx(b, names, roots, tts, res):
    import dd.bdd as B
    g = B.to_nx(b, set(roots))
    want = reachable(b, roots) if roots else set()
    require(set(g.nodes) == want, 'to_nx#post:node-set', lambda: f'roots={roots}: {sorted(g.nodes)} vs {sorted(want)}')
    n = len(names)
    F = full(n)
    for u in g.nodes:
        require(g.nodes[u]['level'] == b._succ[u][0], 'to_nx#post:level', u)
        out = list(g.out_edges(u, data=True))
        if u == 1:
            require(not out, 'to_nx#post:terminal-has-no-edges', out)
            continue
        th = [e for e in out if e[2]['value'] is True]
        el = [e for e in out if e[2]['value'] is False]
        require(len(th) == 1 and len(el) == 1 and len(out) == 2, 'to_nx#post:one-then-one-else-edge',
                lambda: f'node {u}: {out}')
    memo = {}

    def ev(u):
        if u == 1:
            return F
        if u in memo:
            return memo[u]
        r = 0
        vm = vmask(names.index(b.var_at_level(g.nodes[u]['level'])), n)
        for _, x, dt in g.out_edges(u, data=True):
            tx = ev(x)
            if dt['complement']:
                tx = ~tx & F
            r |= (vm & tx) if dt['value'] else (~vm & tx & F)
        memo[u] = r
        return r
    for r, t in zip(roots, tts):
        got = ev(abs(r))
        got = got if r > 0 else ~got & F
        require(got == t, 'to_nx#post:graph-evaluates-to-function', lambda: f'root {r}: {got} vs {t}')
    res.count('nx-checked')


EDGE = re.compile(r'^\s*("?[\w-]+"?) -> ("?[\w-]+"?) \[(.*)\];\s*$')
NODE = re.compile(r'^\s*("?[\w-]+"?) \[(.*)\];\s*$')


def parse_dot(text):
    edges, nodes, row_of = [], {}, {}
    cur = None
    rows = []
    for line in text.splitlines():
        s = line.strip()
        if s.startswith('subgraph'):
            cur = []
            rows.append(cur)
            continue
        if s == '}':
            cur = None
            continue
        me = EDGE.match(line)
        if me:
            attrs = dict(re.findall(r'(\w+)="([^"]*)"', me.group(3)))
            edges.append((me.group(1).strip('"'), me.group(2).strip('"'), attrs))
            continue
        mn = NODE.match(line)
        if mn and cur is not None:
            attrs = dict(re.findall(r'(\w+)="([^"]*)"', mn.group(2)))
            nm = mn.group(1).strip('"')
            nodes[nm] = attrs
            cur.append(nm)
    return nodes, edges, rows


def check_dot(m, b, names, roots, tts, res, auto, td):
    fn = os.path.join(td, 'g.dot')
    if auto:
        m.dump(fn, roots=[m._wrap(r) for r in roots])
    else:
        b.dump(fn, roots=list(roots))
    text = open(fn).read()
    nodes, edges, rows = parse_dot(text)
    n = len(names)
    F = full(n)
    want = reachable(b, roots)
    real = {k for k in nodes if re.fullmatch(r'\d+', k)}
    require({int(k) for k in real} == want, 'dot#post:node-set', lambda: f'roots={roots}: {sorted(real)} vs {sorted(want)}\n{text}')
    # level rows
    for row in rows:
        lab = [k for k in row if k.startswith('L')]
        require(len(lab) == 1, 'dot#post:one-level-label-per-row', row)
        lv = nodes[lab[0]]['label']
        for k in row:
            if re.fullmatch(r'\d+', k):
                require(lv == str(b._succ[int(k)][0]), 'dot#post:node-in-its-level-row', lambda: f'node {k} in row {lv}\n{text}')
            elif k.startswith('ref'):
                require(lv == 'ref', 'dot#post:reference-row', k)
    succ = {}
    for a, c, at in edges:
        if at.get('style') == 'invis':
            continue
        succ.setdefault(a, []).append((c, at))
    memo = {}

    def ev(k):
        if k == '1':
            require(k not in succ, 'dot#post:terminal-has-no-edges', k)
            return F
        if k in memo:
            return memo[k]
        label = nodes[k]['label']
        var = label.rsplit('-', 1)[0]
        require(var in names and label == f'{var}-{k}', 'dot#post:node-label', label)
        es = succ.get(k, [])
        th = [e for e in es if e[1].get('style') == 'solid']
        el = [e for e in es if e[1].get('style') == 'dashed']
        require(len(th) == 1 and len(el) == 1 and len(es) == 2, 'dot#post:one-solid-one-dashed-edge', lambda: f'node {k}: {es}\n{text}')
        require('taillabel' not in th[0][1], 'dot#post:then-edge-regular', k)
        vm = vmask(names.index(var), n)
        t1 = ev(th[0][0])
        t0 = ev(el[0][0])
        if el[0][1].get('taillabel') == '-1':
            t0 = ~t0 & F
        r = (vm & t1) | (~vm & t0 & F)
        memo[k] = r
        return r
    seen_refs = set()
    for r, t in zip(roots, tts):
        k = f'ref{r}'
        require(k in nodes and nodes[k]['label'] == f'@{r}', 'dot#post:reference-node', lambda: f'{k}\n{text}')
        if k in seen_refs:
            continue
        seen_refs.add(k)
        es = succ.get(k, [])
        # a root listed twice yields two identical reference edges; they must agree
        kinds = {(c, at.get('taillabel')) for c, at in es}
        require(len(kinds) == 1 and es, 'dot#post:reference-edge', lambda: f'{k}: {es}\n{text}')
        c, tl = next(iter(kinds))
        got = ev(c)
        if tl == '-1':
            got = ~got & F
        require(got == t, 'dot#post:graph-evaluates-to-function', lambda: f'root {r}: got {got} want {t}\n{text}')
    res.count('dot-checked')


def case_all3(c, res):
    import dd.autoref as A
    names = sorted(c['order'])
    m = A.BDD({nm: k for k, nm in enumerate(c['order'])})
    b = m._bdd
    rnd = random.Random(c['seed'])
    if c['warm']:
        warm_up(b, names, rnd, steps=40)
    td = tempfile.mkdtemp(prefix='verif_c18_')
    keys = []
    try:
        d = Den(b, names)
        prev = None
        for t in range(256):
            u = build(b, t, names)
            b.incref(u)
            for r, tt in ((u, t), (-u, ~t & 255)):
                check_expansion(m, b, names, d, r, tt, res)
            roots = [u] if prev is None else [(-u if t % 3 == 0 else u), prev]
            tts = [den(b, r, names) for r in roots]
            check_descendants(m, b, roots, res)
            check_nx(b, names, roots, tts, res)
            check_dot(m, b, names, roots, tts, res, t % 2 == 0, td)
            if prev is not None:
                b.decref(prev)
            prev = u
            if t % 8 == 0:
                # collections in between: the following functions re-use the freed node numbers (a view that remembered something
                # about a number would report it for another function)
                b.collect_garbage()
                d.reset()
            keys.append((t, tuple(c['order']), c['warm']))
        b.decref(prev)
        b.collect_garbage()
        require(len(b) == 1, '__len__#post:after-collection', len(b))
    finally:
        shutil.rmtree(td, ignore_errors=True)
    res.evals += 255
    return keys


def case_rootsets(c, res):
    import dd.autoref as A
    rnd = random.Random(c['seed'])
    names = ['a', 'b', 'c', 'd', 'e'][:rnd.randint(3, 5)]
    o = names[:]
    rnd.shuffle(o)
    m = A.BDD({nm: k for k, nm in enumerate(o)})
    b = m._bdd
    n = len(names)
    roots, tts = [], []
    for _ in range(rnd.randint(1, 4)):
        t = rnd.getrandbits(1 << n)
        if rnd.random() < .3:
            t = cof(t, rnd.randrange(n), 1, n)
        u = build(b, t, names)
        if rnd.random() < .5:
            u, t = -u, ~t & full(n)
        b.incref(u)
        roots.append(u)
        tts.append(t)
    if rnd.random() < .3:
        roots.append(-roots[0]); tts.append(~tts[0] & full(n)); b.incref(roots[0])
    build(b, rnd.getrandbits(1 << n), names)   # unreferenced nodes must not appear
    if c['seed'] % 3 == 0:
        # declare extra variables at random positions is not possible after the fact; instead remove the unused ones
        # (levels are compacted): the views must follow
        b.collect_garbage()
        b.undeclare_vars()
        order_views_ok(b)
    td = tempfile.mkdtemp(prefix='verif_c18_')
    try:
        check_descendants(m, b, roots, res)
        check_nx(b, names, roots, tts, res)
        check_dot(m, b, names, roots, tts, res, rnd.random() < .5, td)
        d = Den(b, names)
        for r, t in zip(roots, tts):
            check_expansion(m, b, names, d, r, t, res)
    finally:
        shutil.rmtree(td, ignore_errors=True)
    release_all(b, roots)
    return (tuple(o), tuple(tts))


def case_same_handle(c, res):
    """the same Function objects are asked again and again (len, dag_size, var, level, low, high, support, count) while the manager is
    reordered under them: functions over disjoint variable groups whose sizes depend on the order are moved between a good and a bad
    order, in such a way that the total number of nodes may stay the same while the size of each function changes; every answer is
    compared with a fresh traversal of the stored triples"""
    import dd.autoref as A
    rnd = random.Random(c['seed'])
    k = rnd.randint(2, 3)
    groups = rnd.randint(2, 3)
    m = A.BDD()
    b = m._bdd
    sep, mix = [], []
    for g in range(groups):
        xs = [f'g{g}a{i}' for i in range(k)]
        ys = [f'g{g}b{i}' for i in range(k)]
        sep.append(xs + ys)
        mix.append([v for pair in zip(xs, ys) for v in pair])
    layout = [rnd.random() < .5 for _ in range(groups)]
    m.declare(*[v for g in range(groups) for v in (mix[g] if layout[g] else sep[g])])
    fs = []
    for g in range(groups):
        e = ' | '.join(f'(g{g}a{i} & g{g}b{i})' for i in range(k))
        fs.append(m.add_expr(e))
    if rnd.random() < .5:
        fs.append(fs[0] & ~fs[1])
    m.collect_garbage()

    def ask(tag):
        for f in fs:
            wr = reachable(b, [f.node])
            require(len(f) == len(wr) and f.dag_size == len(wr), 'dag_size#post',
                    lambda: f'{tag}: len={len(f)} dag_size={f.dag_size}, but {len(wr)} nodes are reachable from {f.node} (order {dict(b.vars)})')
            i, lo, hi = b._succ[abs(f.node)]
            require(f.level == i and f.var == b._level_to_var[i], 'var#post:top-variable', lambda: f'{tag}: {f.var} at {f.level} vs level {i}')
            require(abs(f.low.node) == abs(lo) and f.high.node == hi, 'low/high#post:stored-triple', lambda: f'{tag}: node {f.node}')
            sup = {b._level_to_var[b._succ[x][0]] for x in wr if x != 1}
            require(f.support == sup, 'support#post:variables-of-reachable-nodes', lambda: f'{tag}: {sorted(f.support)} vs {sorted(sup)}')
        require(len(m) == len(b._succ), '__len__#post', tag)
        res.count('same-handle-queries')
    ask('after construction')
    for step in range(rnd.randint(3, 6)):
        x = rnd.random()
        if x < .6:
            layout = [not v if rnd.random() < .7 else v for v in layout]
            order = [v for g in range(groups) for v in (mix[g] if layout[g] else sep[g])]
            m.reorder(shuffled_dict({v: i for i, v in enumerate(order)}, rnd))
            tag = f'after reorder to {order}'
        elif x < .8:
            m.reorder()
            tag = 'after sifting'
        else:
            i = rnd.randrange(len(b.vars) - 1)
            b.swap(i, i + 1)
            tag = f'after swap({i}, {i + 1})'
        ask(tag)
    wf(b)
    return (k, groups, tuple(layout))
