"""Run-time contract library for the bounded stand-in (DESIGN.md section 6).

Independent oracles written from DESIGN.md section 2 and the property statements, never from
`assert_consistent`, `to_expr` or any other repository helper:

* truth tables as integer bit masks (`den`): bit k of the mask is the value of the function under the k-th
  assignment, where variable `names[j]` has value `(k >> j) & 1`;
* `wf(b)`: re-check of W1-W8 (+ W7 computed table) on a real `dd.bdd.BDD`, returning the external-reference
  ledger `ext[u] = ref[u] - indeg[u]`;
* `build(b, t, names)`: construct the function with truth table `t` bottom-up through `find_or_add`.
"""
import random
import functools
import itertools
import os
import sys

REPO = os.environ.get('VERIF_REPO', '/repo')
if sys.path[0] != REPO:
    sys.path.insert(0, REPO)


# depth multiplier of the sampled parts of the thorough tier (the quick tier is not affected)
DEEP = int(__import__("os").environ.get("VERIF_THOROUGH_SCALE", "24"))


class Viol(Exception):
    """A run-time contract (taken from a property statement) failed on the real code."""

    def __init__(self, site, detail=''):
        super().__init__(f'{site}: {detail}')
        self.site = site
        self.detail = detail


def require(cond, site, detail=''):
    if not cond:
        raise Viol(site, detail() if callable(detail) else detail)


@functools.lru_cache(None)
def full(n):
    return (1 << (1 << n)) - 1


@functools.lru_cache(None)
def vmask(j, n):
    m = 0
    for k in range(1 << n):
        if (k >> j) & 1:
            m |= 1 << k
    return m


def cof(t, j, val, n):
    """Truth table of t with variable j fixed to val (result does not depend on j)."""
    m = vmask(j, n)
    s = 1 << j
    if val:
        hi = t & m
        return hi | (hi >> s)
    lo = t & ~m & full(n)
    return lo | (lo << s)


def tt_exists(t, js, n):
    for j in js:
        t = cof(t, j, 0, n) | cof(t, j, 1, n)
    return t


def tt_forall(t, js, n):
    for j in js:
        t = cof(t, j, 0, n) & cof(t, j, 1, n)
    return t


def tt_ite(g, u, v, n):
    return (g & u) | (~g & v & full(n))


def tt_depends(t, j, n):
    return cof(t, j, 0, n) != cof(t, j, 1, n)


def tt_support(t, n):
    return {j for j in range(n) if tt_depends(t, j, n)}


def tt_eval(t, k):
    return (t >> k) & 1


def tt_subst(t, funcs, n):
    """Simultaneous substitution: variable j := funcs[j] (a truth table) for j in funcs; all replacements
    are evaluated under the original assignment."""
    r = 0
    for k in range(1 << n):
        k2 = k
        for j, g in funcs.items():
            if (g >> k) & 1:
                k2 |= (1 << j)
            else:
                k2 &= ~(1 << j)
        if (t >> k2) & 1:
            r |= 1 << k
    return r


def tt_count(t):
    return bin(t).count('1')


SPEC = {
    'not': lambda n, a: ~a & full(n),
    'and': lambda n, a, b: a & b,
    'or': lambda n, a, b: a | b,
    'xor': lambda n, a, b: a ^ b,
    'implies': lambda n, a, b: (~a | b) & full(n),
    'equiv': lambda n, a, b: ~(a ^ b) & full(n),
    'diff': lambda n, a, b: a & ~b & full(n),
    'ite': lambda n, a, b, c: tt_ite(a, b, c, n),
}
# spelling classes from the statement of C01 (TLA+, Promela and word spellings)
SPELLINGS = {
    'not': ['~', 'not', '!'],
    'and': ['and', '/\\', '&', '&&'],
    'or': ['or', '\\/', '|', '||'],
    'xor': ['#', 'xor', '^'],
    'implies': ['=>', '->', 'implies'],
    'equiv': ['<=>', '<->', 'equiv'],
    'diff': ['diff', '-'],
    'ite': ['ite'],
}
CLASS_OF = {s: c for c, ss in SPELLINGS.items() for s in ss}


def den(b, u, names):
    """Truth table of reference `u` of the `dd.bdd.BDD` `b` over `names`, by Shannon expansion along
    `_succ` (memoised per node)."""
    n = len(names)
    idx = {nm: j for j, nm in enumerate(names)}
    memo = {1: full(n)}
    F = full(n)
    succ = b._succ
    l2v = b._level_to_var

    def rec(x):
        r = memo.get(x)
        if r is not None:
            return r
        i, v, w = succ[x]
        m = vmask(idx[l2v[i]], n)
        tv = rec(abs(v))
        if v < 0:
            tv = ~tv & F
        tw = rec(abs(w))
        if w < 0:
            tw = ~tw & F
        r = (m & tw) | (~m & tv & F)
        memo[x] = r
        return r
    t = rec(abs(u))
    return t if u > 0 else ~t & F


def den_walk(b, u, names, k):
    """Value of `u` under the k-th assignment by walking succ() and flipping at complemented edges."""
    x = u
    neg = False
    idx = {nm: j for j, nm in enumerate(names)}
    while abs(x) != 1:
        i, v, w = b.succ(x)
        if x < 0:
            neg = not neg
        x = w if (k >> idx[b.var_at_level(i)]) & 1 else v
    if x < 0:
        neg = not neg
    return not neg


def build(b, t, names):
    """Reference denoting truth table `t` over `names`, built with find_or_add along the current order."""
    n = len(names)
    order = sorted(range(n), key=lambda j: b.vars[names[j]])
    memo = {}

    def rec(t, pos):
        if t == 0:
            return -1
        if t == full(n):
            return 1
        key = (t, pos)
        if key in memo:
            return memo[key]
        j = order[pos]
        lo = rec(cof(t, j, 0, n), pos + 1)
        hi = rec(cof(t, j, 1, n), pos + 1)
        r = b.find_or_add(b.vars[names[j]], lo, hi)
        memo[key] = r
        return r
    # the primitive find_or_add is the source of the reordering signal (known finding D1-primitive), so the
    # harness's own construction route runs with requests suspended
    last, b._last_len = b._last_len, None
    try:
        return rec(t, 0)
    finally:
        b._last_len = last


def order_views_ok(b):
    """W8: the four order views describe one bijection names <-> 0..n-1."""
    n = len(b.vars)
    require(sorted(b.vars.values()) == list(range(n)), 'W8-bijection',
            lambda: f'vars={b.vars}')
    require(len(b._level_to_var) == n, 'W8-inverse', lambda: f'{b._level_to_var} vs {b.vars}')
    for v, l in b.vars.items():
        require(b._level_to_var.get(l) == v, 'W8-inverse', lambda: f'{b._level_to_var} vs {b.vars}')
        require(b.level_of_var(v) == l and b.var_at_level(l) == v, 'W8-views', v)
    require(b.var_levels == dict(b.vars), 'W8-views', 'var_levels')


def wf(b, names=None, cache=True):
    """Re-check W1-W8 on a real manager; returns ext = ref - indeg (the external-reference ledger)."""
    S = b._succ
    n = len(b.vars)
    order_views_ok(b)
    require(1 in S and S[1] == (n, None, None), 'W1-terminal', lambda: f'succ[1]={S.get(1)} n={n}')
    seen = {}
    for u, (i, v, w) in S.items():
        require(isinstance(u, int) and u >= 1, 'W2-ids', u)
        if u == 1:
            continue
        ok = (isinstance(i, int) and 0 <= i < n and v is not None and w is not None and v != 0 and
              w > 0 and abs(v) in S and w in S)
        require(ok, 'W3-shape', lambda: f'node {u}={(i, v, w)} n={n}')
        require(v != w, 'W3-reduced', lambda: f'node {u}={(i, v, w)}')
        require(i < S[abs(v)][0] and i < S[w][0], 'W3-ordered',
                lambda: f'node {u}={(i, v, w)} child levels {S[abs(v)][0]},{S[w][0]}')
        require((i, v, w) not in seen, 'W4-unique', lambda: f'{(i, v, w)} at {seen[(i, v, w)]} and {u}')
        seen[(i, v, w)] = u
        require(b._pred.get((i, v, w)) == u, 'W4-pred', lambda: f'pred[{(i, v, w)}]={b._pred.get((i, v, w))} != {u}')
    require(len(b._pred) == len(S), 'W4-pred-size', lambda: f'{len(b._pred)} != {len(S)}')
    require(b._pred.get(S[1]) == 1, 'W4-pred', 'terminal')
    indeg = {u: 0 for u in S}
    for u, (i, v, w) in S.items():
        if u != 1:
            indeg[abs(v)] += 1
            indeg[w] += 1
    require(set(b._ref) == set(S), 'W6-ref-domain', lambda: f'{sorted(set(b._ref) ^ set(S))}')
    for u in S:
        require(b._ref[u] >= indeg[u], 'W6-count', lambda: f'node {u}: ref={b._ref[u]} < indeg={indeg[u]}')
    mf = b._min_free
    require(mf >= 2 and mf not in S and all(k in S for k in range(1, mf)), 'W5-minfree',
            lambda: f'min_free={mf} nodes={sorted(S)}')
    if cache and b._ite_table:
        nm = names if names is not None else sorted(b.vars, key=b.vars.get)
        nn = len(nm)
        for (g, x, y), r in b._ite_table.items():
            require(all(abs(z) in S for z in (g, x, y, r)), 'W7-cache-live',
                    lambda: f'entry {(g, x, y)}->{r}')
            want = tt_ite(den(b, g, nm), den(b, x, nm), den(b, y, nm), nn)
            require(den(b, r, nm) == want, 'W7-cache-correct', lambda: f'entry {(g, x, y)}->{r}')
    return {u: b._ref[u] - indeg[u] for u in S}


def reachable(b, roots):
    out = {1}
    st = [abs(r) for r in roots]
    while st:
        u = st.pop()
        if u in out:
            continue
        out.add(u)
        _, v, w = b._succ[u]
        st.append(abs(v))
        st.append(abs(w))
    return out


def check_ledger(b, held, site='ledger'):
    """`held`: dict node -> number of references the harness holds (terminal's own +1 is added here)."""
    ext = wf(b)
    for u, e in ext.items():
        exp = held.get(u, 0) + (1 if u == 1 else 0)
        require(e == exp, site, lambda: f'node {u}: ref-indeg={e}, references held={exp}')
    return ext


def all_orders(names):
    return [dict(zip(p, range(len(names)))) for p in itertools.permutations(names)]


def fresh(names, order=None):
    import dd.bdd as B
    b = B.BDD()
    if order is None:
        b.declare(*names)
    else:
        for nm in sorted(names, key=lambda x: order[x]):
            b.add_var(nm, order[nm])
    return b


def release_all(b, refs):
    for u in refs:
        b.decref(u)


class Den:
    """Truth-table oracle with a memo that persists until `reset()`; callers reset after any operation that
    may delete or rewrite nodes (collection, swap, reordering, undeclare)."""

    def __init__(self, b, names):
        self.b = b
        self.names = list(names)
        self.n = len(self.names)
        self.idx = {nm: j for j, nm in enumerate(self.names)}
        self.memo = {}

    def reset(self):
        self.memo = {}

    def of(self, u):
        n = self.n
        F = full(n)
        memo = self.memo
        succ = self.b._succ
        l2v = self.b._level_to_var
        idx = self.idx

        def rec(x):
            if x == 1:
                return F
            r = memo.get(x)
            if r is not None:
                return r
            i, v, w = succ[x]
            m = vmask(idx[l2v[i]], n)
            tv = rec(abs(v))
            if v < 0:
                tv = ~tv & F
            tw = rec(abs(w))
            if w < 0:
                tw = ~tw & F
            r = (m & tw) | (~m & tv & F)
            memo[x] = r
            return r
        t = rec(abs(u))
        return t if u > 0 else ~t & F


def tt_of_var(j, n):
    return vmask(j, n)


def warm_up(b, names, rnd, steps=30, swaps=True):
    """Put a manager through a random history (operations, collections, swaps, re-used node numbers)
    without leaving references behind. Returns nothing; the manager stays WF (checked by callers)."""
    n = len(names)
    held = []
    for _ in range(steps):
        op = rnd.choice(['build', 'build', 'ite', 'drop', 'gc', 'swap', 'quant'])
        if op == 'build':
            u = build(b, rnd.getrandbits(1 << n), names)
            b.incref(u)
            held.append(u)
        elif op == 'ite' and len(held) >= 2:
            u = b.ite(rnd.choice(held), rnd.choice(held), rnd.choice(held))
            b.incref(u)
            held.append(u)
        elif op == 'quant' and held:
            u = b.quantify(rnd.choice(held), set(rnd.sample(names, rnd.randint(0, n))), rnd.random() < .5)
            b.incref(u)
            held.append(u)
        elif op == 'drop' and held:
            b.decref(held.pop(rnd.randrange(len(held))))
        elif op == 'gc':
            b.collect_garbage()
        elif op == 'swap' and swaps and n >= 2:
            i = rnd.randrange(n - 1)
            b.swap(i, i + 1)
    if rnd.random() < .5:
        fork_and_discard(b, names, rnd)
    for u in held:
        b.decref(u)


def fork_and_discard(b, names, rnd):
    """copy.copy(manager) is one of the operations a manager may have gone through: work in the copy
    (new nodes, computed-table entries, a collection) must not be visible in the original."""
    import copy
    n = len(names)
    c = copy.copy(b)
    tmp = []
    for _ in range(4):
        u = build(c, rnd.getrandbits(1 << n), names)
        c.incref(u)
        tmp.append(u)
    for _ in range(4):
        c.ite(rnd.choice(tmp), rnd.choice(tmp), rnd.choice(tmp))
    for u in tmp[:2]:
        c.decref(u)
    c.collect_garbage()
    # discard the copy without tripping its shutdown assertion
    c._ref = {k: 0 for k in c._ref}
    c._ref[1] = 1


def shift_history(c, res, query, names=('a', 'b', 'c', 'd'), spares=('s1', 's2', 's3'), blocks=None, swaps=True):
    """A few held functions over `names` in a manager that also declares unused spare variables; `query(m, b, names, held, rnd)` (which
    checks one operation against its oracle and raises Viol) alternates with changes that keep every held function but shift what a level
    or a node number means: a spare variable is undeclared (the levels below move up, node numbers stay) or declared again, two levels are
    swapped, a held function is released, collected and replaced by a new one (its node numbers are re-used). No collection happens
    between a query and an undeclaration. Whatever an operation remembered under a level or node number that meanwhile means something
    else is exposed by the next queries."""
    import dd.autoref as A
    rnd = random.Random(c['seed'])
    names, spares = list(names), list(spares)
    if blocks is None:
        order = names + spares
        rnd.shuffle(order)
    else:
        # `blocks`: groups of names that stay next to each other (in either direction); the spare variables go between the groups
        bl = [list(x) if rnd.random() < .5 else list(x)[::-1] for x in blocks] + [[v] for v in spares]
        rnd.shuffle(bl)
        order = [v for x in bl for v in x]
    m = A.BDD({nm: k for k, nm in enumerate(order)})
    b = m._bdd
    held = []

    def new_function():
        sub = rnd.sample(names, rnd.randint(2, len(names)))
        u = build(b, rnd.getrandbits(1 << len(sub)), sub)
        b.incref(u)
        held.append((u, den(b, u, names)))
    for _ in range(rnd.randint(1, 3)):
        new_function()
    for _ in range(c['steps']):
        x = rnd.random()
        if x < .6:
            query(m, b, names, held, rnd)
        elif x < .76:
            dec = [v for v in spares if v in b.vars]
            if dec:
                b.undeclare_vars(rnd.choice(dec))
        elif x < .86:
            free = [v for v in spares if v not in b.vars]
            if free:
                b.add_var(rnd.choice(free))
        elif x < .93:
            u, _ = held.pop(rnd.randrange(len(held)))
            b.decref(u)
            b.collect_garbage()
            new_function()
        elif swaps:
            i = rnd.randrange(len(b.vars) - 1)
            b.swap(i, i + 1)
        for u, t in held:
            got = den(b, u, names)
            require(got == t, 'held-denotation', lambda: f'held {u} denotes {got}, expected {t} (order {dict(b.vars)})')
    for u, _ in held:
        b.decref(u)
    wf(b)
    return m


def shuffled_dict(d, rnd):
    """the same mapping with its items inserted in a random order: an order / level dict handed to the package must not be read as if its
    iteration order were the level order"""
    items = list(d.items())
    rnd.shuffle(items)
    return dict(items)
