"""bin/check <Cxx> [--tier quick|thorough]  — decide one property (proof layer + bounded stand-in)."""
import argparse
import importlib
import json
import os
import sys
import time

ROOT = os.path.dirname(os.path.dirname(os.path.abspath(__file__)))
sys.path.insert(0, ROOT)
REPO = os.environ.setdefault('VERIF_REPO', '/repo')
if REPO not in sys.path[:2]:
    sys.path.insert(0, REPO)

from vlib import harness  # noqa: E402
from vlib import props  # noqa: E402


def lean_status():
    p = os.path.join(ROOT, 'lean', 'status.json')
    try:
        st = json.load(open(p))
        import hashlib
        h = hashlib.sha256(b''.join(open(os.path.join(ROOT, 'lean', f), 'rb').read() for f in ('BddTheory.lean', 'BddImage.lean'))).hexdigest()[:16]
        if st.get('compiled') and st.get('source_hash') == h:
            return (f"Lean lemmas: lean/BddTheory.lean + lean/BddImage.lean compiled without sorry by {st.get('lean', 'lean')[:40]} "
                    f"(leanchecker: {st.get('leanchecker')}; axioms: propext, Classical.choice, Quot.sound)")
        return 'Lean lemmas: NOT compiled on this machine for the current lean/*.lean -> ASSUMED'
    except Exception:  # noqa
        return 'Lean lemmas: lean/status.json missing (bin/setup not run?) -> ASSUMED'


def main(argv=None):
    ap = argparse.ArgumentParser()
    ap.add_argument('pid')
    ap.add_argument('--tier', default=os.environ.get('VERIF_TIER', 'quick'), choices=['quick', 'thorough'])
    ap.add_argument('--seed', type=int, default=int(os.environ.get('VERIF_SEED', '0')))
    ap.add_argument('--only', default='', help='proof|bounded (debugging aid; evidence says which ran)')
    a = ap.parse_args(argv)
    pid, tier, seed = a.pid, a.tier, a.seed
    t0 = time.time()
    import shutil
    shutil.rmtree(os.path.join(harness.replay_root(), pid), ignore_errors=True)
    cfg = props.PROPS[pid]
    fails, crashes = [], []
    coverage = {}
    assumptions = list(cfg.get('assumptions', []))
    # ---- proof layer -------------------------------------------------------------------------------
    proof = None
    if cfg.get('proof') and a.only != 'bounded':
        try:
            pl = importlib.import_module('vlib.vc.run')
            from vlib.vc import contracts_all
            if pid == 'C19':
                from vlib.cy import check as cycheck
                proof = cycheck.run(tier, seed)
            else:
                proof = pl.run_property(pid, cfg['proof'], tier, seed) if contracts_all.TARGETS.get(pid) else None
        except Exception:  # noqa
            import traceback
            crashes.append(dict(fn='proof-layer', tb=traceback.format_exc()[-3000:]))
    if proof is not None:
        coverage.update(proof['coverage'])
        fails.extend(proof['fails'])
        crashes.extend(proof['crashes'])
        assumptions.extend(proof.get('assumptions', []))
    # ---- bounded stand-in --------------------------------------------------------------------------
    bounded = None
    if cfg.get('bounded') and a.only != 'proof':
        merged = None
        mods = list(cfg['bounded'])
        if cfg.get('proof') and pid != 'C19':
            # cross-check of the sidecar contracts on real executions, for the proof targets that have an input generator
            os.environ['VERIF_XCHECK_PID'] = pid
            try:
                from vlib.rtc import xcheck
                if xcheck._selected():
                    mods.append('vlib.rtc.xcheck')
            except Exception:  # noqa
                import traceback
                crashes.append(dict(fn='xcheck', tb=traceback.format_exc()[-2000:]))
        for modname in mods:
            r = harness.run_bounded(modname, tier, seed)
            if merged is None:
                merged = r
            else:
                for k in ('evals', 'nfails', 'wall_s'):
                    merged[k] += r[k]
                merged['keys'] |= r['keys']
                merged['fails'] += r['fails']
                merged['crashes'] += r['crashes']
                merged['samples'] += r['samples']
                merged['rule'] += ' || ' + r['rule']
                merged['bounds'] = dict(merged['bounds'], **{modname.split('.')[-1]: r['bounds']})
                merged['counters'].update(r['counters'])
        bounded = merged
        fails.extend(bounded['fails'])
        crashes.extend(bounded['crashes'])
        coverage['evaluations'] = bounded['evals']
        coverage['distinct_nontrivial'] = len(bounded['keys'])
        coverage['rule'] = bounded['rule']
        coverage['exhaustive'] = bounded['exhaustive']
        coverage['bounded'] = dict(label='bounded (run-time contracts on the real code; never counted as proved)',
                                   bounds=bounded['bounds'], counters=bounded['counters'],
                                   failures=bounded['nfails'], wall_s=round(bounded['wall_s'], 2))
        coverage.setdefault('samples', [])
        coverage['samples'] = coverage['samples'] + bounded['samples'][:4]
    # ---- a failed obligation of a function whose contract is violated by a real execution in this run gets that input --------
    real = {}
    for f in fails:
        if f.get('site', '').startswith('contract:') and f.get('case') is not None:
            real.setdefault(f['site'][len('contract:'):].split('#')[0], f)
    for f in fails:
        if f.get('no_input') and f.get('function'):
            tgt = (f.get('target') or '').split('[')[0].split('!')[0]
            hit = real.get(tgt) or real.get(f['function'])
            if hit is not None:
                f['no_input'] = False
                f['detail'] += (' || real failing input from the cross-check of the same contract on the real code: '
                                + hit['detail'][:600])
                f['real_input_replay'] = dict(mod=hit['mod'], fn=hit['fn'], case=hit['case'])
    # ---- level actually achieved -------------------------------------------------------------------
    level = cfg['level']
    expl = cfg['explanation']
    if proof is not None:
        ob, di = coverage.get('obligations', 0), coverage.get('discharged', 0)
        if level == 'proof' and (ob == 0 or di != ob):
            level = 'other'
            expl = ('DOWNGRADED on this run: not every obligation was discharged '
                    f'({di}/{ob}); the bounded stand-in decided. ' + expl)
    coverage['explanation'] = expl
    coverage.setdefault('checker_cmd', f'bin/check {pid} --tier {tier}')
    coverage.setdefault('trusted_base', [])
    coverage['trusted_base'] = list(coverage['trusted_base']) + list(cfg.get('trusted_base', [])) + [lean_status()]
    coverage.setdefault('obligations', 0)
    coverage.setdefault('discharged', 0)
    if 'evaluations' not in coverage:
        coverage['evaluations'] = coverage['obligations']
        coverage['distinct_nontrivial'] = coverage['discharged']
        coverage['rule'] = 'one evaluation per generated proof obligation'
    code = harness.finish(pid, tier, seed, level, coverage, assumptions, fails, crashes, t0)
    sys.stdout.flush()
    return code


if __name__ == '__main__':
    sys.exit(main())
