import sys, os, json; sys.path.insert(0,'/verif'); sys.path.insert(0, os.environ.get('VERIF_REPO','/repo'))
os.environ['VERIF_XCHECK_PID']='ALL'
from vlib import harness
r=harness.run_bounded('vlib.rtc.xcheck', sys.argv[1], int(sys.argv[2]))
print('evals', r['evals'], 'nfails', r['nfails'], 'wall', round(r['wall_s']), r['counters'])
for f in r['fails'][:10]: print('FAIL', f['site'], f['detail'][:300], f['case'])
for c in r['crashes'][:5]: print('CRASH', str(c)[:600])
