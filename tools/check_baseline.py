#!/venv/bin/python
"""Usage: check_baseline.py <worktree>  -- runs the pinned test suite in <worktree> and reports whether
all 105 baseline tests still pass (exit 0) or which ones do not (exit 1)."""
import json, subprocess, sys, tempfile, os, xml.etree.ElementTree as ET
wt = os.path.abspath(sys.argv[1])
base = json.load(open('/root/.vp/BASELINE.json'))
want = set(base['stable_pass'])
with tempfile.TemporaryDirectory() as td:
    xml = os.path.join(td, 'j.xml')
    p = subprocess.run(['/venv/bin/python', '-m', 'pytest', '-ra', '-q', '-p', 'no:cacheprovider',
                        '--timeout=900', '--continue-on-collection-errors', '--junitxml=' + xml],
                       cwd=wt, capture_output=True, text=True)
    passed = set()
    for tc in ET.parse(xml).getroot().iter('testcase'):
        if not any(c.tag in ('failure', 'error', 'skipped') for c in tc):
            cn = tc.get('classname', ''); n = tc.get('name')
            passed.add(f'{cn}::{n}')
missing = sorted(want - passed)
print(f'baseline: {len(want & passed)}/{len(want)} stable tests pass')
if missing:
    print('NOT PASSING:', *missing, sep='\n  ')
    sys.exit(1)
