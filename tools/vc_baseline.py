#!/usr/bin/env python3
"""Record which obligations are discharged on the *unchanged* tree (vlib/vc/baseline.json). Run by hand after
contracts change; never at check time. The file lets a check tell "obligation newly failing after a source change"
(a violation candidate) from "solver instability on unchanged source" (undecided)."""
import json
import os
import sys

ROOT = os.path.dirname(os.path.dirname(os.path.abspath(__file__)))
sys.path.insert(0, ROOT)
os.environ.setdefault('VERIF_REPO', '/repo')
sys.path.insert(0, os.environ['VERIF_REPO'])
from vlib.vc import run, contracts_all as CA  # noqa

CA.install()
seen = {}
targets = []
for pid, ts in CA.TARGETS.items():
    for t in ts:
        tid = run.target_id(t)
        if tid not in seen:
            seen[tid] = t
            targets.append(t)
res = run.verify_targets(targets)
summ = run.summarise(res)
bad = 0
for tid, s in summ.items():
    tot = sum(a[0] for a in s['obligations'].values())
    dis = sum(a[1] for a in s['obligations'].values())
    flag = '' if s['status'] == 'ok' and tot == dis else '   <-----'
    bad += bool(flag)
    print(f'{tid:60s} {s["status"]:12s} {dis}/{tot}{flag} {s["reason"][:100]}')
    for k, a in s['obligations'].items():
        if a[0] != a[1]:
            print('      undischarged:', k, a)
json.dump(summ, open(os.path.join(ROOT, 'vlib', 'vc', 'baseline.json'), 'w'), indent=1, sort_keys=True)
print('targets', len(summ), 'not fully discharged', bad)
