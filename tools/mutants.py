#!/usr/bin/env python3
"""Deliberate property-breaking edits (DESIGN.md Appendix B) applied to a scratch copy of /repo/dd, each checked with
`bin/check <Cxx> --only proof` (and optionally the full check). Usage: tools/mutants.py [--full] [name ...]
Prints which named obligations fail. Scratch copies live under $TMPDIR and are removed."""
import json
import os
import shutil
import subprocess
import sys
import tempfile
from concurrent.futures import ThreadPoolExecutor

ROOT = os.path.dirname(os.path.dirname(os.path.abspath(__file__)))
M = [  # (name, file, old, new, property)
    ('apply-and-swapped', 'bdd.py', "return self.ite(u, v, -1)", "return self.ite(u, -1, v)", 'C01'),
    ('apply-xor-no-neg', 'bdd.py', "return self.ite(u, -v, v)", "return self.ite(u, v, v)", 'C01'),
    ('topcof-negate-one', 'bdd.py', "        if u < 0:\n            v, w = -v, -w\n        return (v, w)", "        if u < 0:\n            v, w = -v, w\n        return (v, w)", 'C01'),
    ('foa-no-normalise', 'bdd.py', "        if w < 0:\n            v, w = -v, -w\n            r = -1", "        if w < 0:\n            v, w = v, -w\n            r = -1", 'C02'),
    ('foa-drop-incref', 'bdd.py', "        self.incref(v)\n        self.incref(w)\n        return r * u", "        self.incref(v)\n        return r * u", 'C06'),
    ('foa-no-elimination', 'bdd.py', "        if v == w:\n            return r * v\n        # already exists ?", "        # already exists ?", 'C02'),
    ('ite-cache-key-swapped', 'bdd.py', "        self._ite_table[r] = w\n        return w", "        self._ite_table[(g, v, u)] = w\n        return w", 'C01'),
    ('ite-min-two-levels', 'bdd.py', "        z = min(self._succ[abs(g)][0],\n                self._succ[abs(u)][0],\n                self._succ[abs(v)][0])", "        z = min(self._succ[abs(g)][0],\n                self._succ[abs(u)][0])", 'C01'),
    ('gc-keep-cache', 'bdd.py', "                unused.add(w)\n        self._ite_table = dict()", "                unused.add(w)", 'C06'),
    ('gc-wrong-child', 'bdd.py', "            if not self._ref[w] and w != 1:\n                unused.add(w)", "            if not self._ref[abs(v)] and w != 1:\n                unused.add(w)", 'C06'),
    ('quantify-memo-abs', 'bdd.py', "        cache[u] = r\n        return r\n\n    def forall(", "        cache[abs(u)] = r\n        return r\n\n    def forall(", 'C03'),
    ('quantify-skip-le', 'bdd.py', "        # complement ?\n        if u < 0:\n            v, w = -v, -w\n        n = len(ordvar)\n        # skip nonessential variables\n        while j < n:\n            if ordvar[j] < i:", "        # complement ?\n        if u < 0:\n            v, w = -v, -w\n        n = len(ordvar)\n        # skip nonessential variables\n        while j < n:\n            if ordvar[j] <= i:", 'C03'),
    ('quantify-swap-and-or', 'bdd.py', "            if forall:\n                r = self.ite(p, q, -1)\n                    # conjoin\n            else:\n                r = self.ite(p, 1, q)\n                    # disjoin\n        else:\n            r = self.find_or_add(i, p, q)\n        cache[u] = r", "            if forall:\n                r = self.ite(p, 1, q)\n            else:\n                r = self.ite(p, q, -1)\n        else:\n            r = self.find_or_add(i, p, q)\n        cache[u] = r", 'C03'),
    ('cofactor-inverted', 'bdd.py', "            if bool(val):\n                v = w", "            if not bool(val):\n                v = w", 'C04'),
    ('compose-ite-swapped', 'bdd.py', "            r = self.ite(g, w, v)\n            # complemented edge ?", "            r = self.ite(g, v, w)\n            # complemented edge ?", 'C04'),
    ('vector-compose-no-sign-on-hit', 'bdd.py', "            if r == 0:\n                raise AssertionError(r)\n            # complement ?\n            if f < 0:\n                r = -r\n            return r", "            if r == 0:\n                raise AssertionError(r)\n            return r", 'C04'),
    ('copy-ite-swapped', 'bdd.py', "    g = bdd.find_or_add(jnew, -1, 1)\n    r = bdd.ite(g, q, p)", "    g = bdd.find_or_add(jnew, -1, 1)\n    r = bdd.ite(g, p, q)", 'C11'),
    ('rename-through-keys', 'bdd.py', "        levels[var]: levels[dvars.get(var, var)]\n        for var in bdd.vars}", "        levels[dvars.get(var, var)]: levels[var]\n        for var in bdd.vars}", 'C04'),
    ('add_var-terminal-level', 'bdd.py', "        self._level_to_var[level] = var\n        # move the leaf node to\n        # the new bottom level\n        self._init_terminal(len(self.vars))", "        self._level_to_var[level] = var\n        # move the leaf node to\n        # the new bottom level\n        self._init_terminal(len(self.vars) - 1)", 'C14'),
    ('next-free-level-plus-one', 'bdd.py', "        if level is None:\n            level = len(self.vars)\n        if level < 0:", "        if level is None:\n            level = len(self.vars) + 1\n        if level < 0:", 'C14'),
    ('decref-no-floor', 'bdd.py', "        if self._ref[abs(u)] <= 0:\n            n = self._ref[abs(u)]", "        if self._ref[abs(u)] < 0:\n            n = self._ref[abs(u)]", 'C06'),
    ('function-del-no-reset', 'autoref.py', "        node = self.node\n        self.node = None\n        self.manager.decref(node)", "        node = self.node\n        self.manager.decref(node)", 'C08'),
    ('autoref-ite-double-wrap', 'autoref.py', "        r = self._bdd.ite(g.node, u.node, v.node)\n        return self._wrap(r)", "        r = self._bdd.ite(g.node, u.node, v.node)\n        self._wrap(r)\n        return self._wrap(r)", 'C08'),
    ('wrapper-no-rearm', 'bdd.py', "        finally:\n            # enable reordering requests\n            bdd._last_len = GROWTH_FACTOR * len_after\n        return r", "        finally:\n            pass\n        return r", 'C09'),
    ('exit-no-restore', 'bdd.py', "        self.bdd._reordering_context = self.nested\n        not_nested = (", "        if ex_type is None:\n            self.bdd._reordering_context = self.nested\n        not_nested = (", 'C17'),
    ('var-validate-late', 'bdd.py', "        if var not in self.vars:\n            raise ValueError(\n                f'undeclared variable \"{var}\", '\n                'the declared variables are:\\n'\n                f' {self.vars}')\n        j = self.vars[var]\n        u = self.find_or_add(j, -1, 1)\n        return u", "        j = self.vars.get(var, 0)\n        u = self.find_or_add(j, -1, 1)\n        if var not in self.vars:\n            raise ValueError(var)\n        return u", 'C17'),
    ('is-essential-lt', 'bdd.py', "        if i < iu:\n            return False\n        if i == iu:\n            return True\n        # u depends", "        if i <= iu:\n            return False\n        if i == iu:\n            return True\n        # u depends", 'C10'),
    ('succ-low-high-swapped', 'autoref.py', "        return i, wrap(v), wrap(w)", "        return i, wrap(w), wrap(v)", 'C18'),
    ('descendants-skip-high', 'bdd.py', "        self._descendants(v, visited)\n        self._descendants(w, visited)\n        visited.add(r)", "        self._descendants(v, visited)\n        visited.add(r)", 'C18'),
    ('descendants-no-terminal', 'bdd.py', "        for u in abs_roots:\n            visited.add(1)\n            self._descendants(u, visited)", "        for u in abs_roots:\n            self._descendants(u, visited)", 'C18'),
    ('sift-back-off-by-one', 'bdd.py', "    k = min(sizes, key=sizes.get)\n    _shift(bdd, end, k, levels)", "    k = min(sizes, key=sizes.get)\n    _shift(bdd, end, k + 1, levels)", 'C07'),
    ('sift-start-from-wrong-level', 'bdd.py', "    _shift(bdd, level, start, levels)\n    sizes = _shift(bdd, start, end, levels)", "    _shift(bdd, level + 1, start, levels)\n    sizes = _shift(bdd, start, end, levels)", 'C07'),
    ('harmless-sift-no-collect-first', 'bdd.py', "    bdd.collect_garbage()\n    n = len(bdd)\n    m = n", "    n = len(bdd)\n    m = n", 'C07'),
    ('harmless-sift-other-direction', 'bdd.py', "    if (2 * level) >= n:\n        start, end = end, start", "    if (2 * level) > n:\n        start, end = end, start", 'C07'),
    ('harmless-sift-max-key', 'bdd.py', "    m_ = len(bdd)\n    if sizes[k] != m_:", "    m_ = len(bdd._succ)\n    if sizes[k] != m_:", 'C07'),
    ('harmless-descendants-preorder', 'bdd.py', "        self._descendants(v, visited)\n        self._descendants(w, visited)\n        visited.add(r)", "        visited.add(r)\n        self._descendants(v, visited)\n        self._descendants(w, visited)", 'C18'),
    ('support-prune-seen-level', 'bdd.py', "        levels.add(i)\n        # recurse", "        if i in levels:\n            return\n        levels.add(i)\n        # recurse", 'C10'),
    ('load-memo-after-sign', 'bdd.py', "        umap[abs(u)] = r\n        if u < 0:\n            r = -r\n        return r", "        if u < 0:\n            r = -r\n        umap[abs(u)] = r\n        return r", 'C12'),
    ('arity-binary-allows-w', '_utils.py', "        if v is None:\n            raise ValueError(\n                '`v is None`')\n        if w is not None:\n            raise ValueError(\n                f'`w is not None`, but: {w}')\n    elif op in operators['ternary']:", "        if v is None:\n            raise ValueError(\n                '`v is None`')\n    elif op in operators['ternary']:", 'C17'),
    ('init-terminal-resets-count', 'bdd.py', "        self._ref.setdefault(u, 1)", "        self._ref[u] = 1", 'C08'),
    ('init-minfree-3', 'bdd.py', "        self._min_free: _Nat = 2\n", "        self._min_free: _Nat = 3\n", 'C02'),
    ('init-terminal-level-1', 'bdd.py', "        # handle no vars\n        self._init_terminal(len(self.vars))", "        # handle no vars\n        self._init_terminal(1)", 'C02'),
    ('sort-compare-flipped', 'bdd.py', "            if p > q:\n                bdd.swap(i, i + 1, levels)", "            if p < q:\n                bdd.swap(i, i + 1, levels)", 'C07'),
    ('sort-inner-range-short', 'bdd.py', "        for i in range(n - 1):\n            for root in bdd.roots:", "        for i in range(n - 2):\n            for root in bdd.roots:", 'C07'),
    ('shift-wrong-neighbour', 'bdd.py', "        j = i + d\n        oldn, n = bdd.swap(i, j, levels)", "        j = i - d\n        oldn, n = bdd.swap(i, j, levels)", 'C07'),
    ('shift-one-too-far', 'bdd.py', "    for i in range(start, end, d):\n        j = i + d", "    for i in range(start, end + d, d):\n        j = i + d", 'C07'),
    ('undeclare-skip-in-use-check', 'bdd.py', "            if level in full_levels:\n                raise ValueError(", "            if level in full_levels and level < 0:\n                raise ValueError(", 'C14'),
    ('harmless-exception-class', 'bdd.py', "        if var not in self.vars:\n            raise ValueError(\n                f'undeclared variable \"{var}\", '", "        if var not in self.vars:\n            raise KeyError(\n                f'undeclared variable \"{var}\", '", 'C17'),
    ('harmless-ite-high-first', 'bdd.py', "        p = self._ite(g0, u0, v0)\n        q = self._ite(g1, u1, v1)\n", "        q = self._ite(g1, u1, v1)\n        p = self._ite(g0, u0, v0)\n", 'C01'),
    ('harmless-add_var-inverse-first', 'bdd.py', "        self.vars[var] = level\n        self._level_to_var[level] = var\n", "        self._level_to_var[level] = var\n        self.vars[var] = level\n", 'C14'),
    ('harmless-foa-incref-order', 'bdd.py', "        self.incref(v)\n        self.incref(w)\n        return r * u", "        self.incref(w)\n        self.incref(v)\n        return r * u", 'C06'),
    ('harmless-satlen-high-first', 'bdd.py', "        nv = self._sat_len(v, map_level, d)\n        nw = self._sat_len(w, map_level, d)\n", "        nw = self._sat_len(w, map_level, d)\n        nv = self._sat_len(v, map_level, d)\n", 'C10'),
    ('harmless-rename-local', 'bdd.py', "        g0, g1 = self._top_cofactor(g, z)\n        u0, u1 = self._top_cofactor(u, z)\n        v0, v1 = self._top_cofactor(v, z)\n        p = self._ite(g0, u0, v0)\n        q = self._ite(g1, u1, v1)\n        w = self.find_or_add(z, p, q)", "        vlo, vhi = self._top_cofactor(v, z)\n        glo, ghi = self._top_cofactor(g, z)\n        ulo, uhi = self._top_cofactor(u, z)\n        lo_branch = self._ite(glo, ulo, vlo)\n        q = self._ite(ghi, uhi, vhi)\n        w = self.find_or_add(z, lo_branch, q)", 'C01'),
    ('harmless-inline-temp', 'bdd.py', "        t = (i, v, w)\n        u = self._pred.get(t)\n        if u is not None:\n            return r * u", "        t = (i, v, w)\n        u = self._pred.get((i, v, w))\n        if u is not None:\n            return r * u", 'C02'),
]


def run(m, full):
    name, fname, old, new, pid = m
    td = tempfile.mkdtemp(prefix='mut_')
    try:
        shutil.copytree('/repo/dd', os.path.join(td, 'dd'))
        p = os.path.join(td, 'dd', fname)
        s = open(p).read()
        if s.count(old) != 1:
            return name, pid, 'PATTERN-NOT-FOUND', []
        open(p, 'w').write(s.replace(old, new))
        ev = tempfile.mkdtemp(prefix='mutev_')
        env = dict(os.environ, VERIF_REPO=td, VERIF_EVIDENCE_DIR=ev, VERIF_NPROC='4')
        cmd = [os.path.join(ROOT, 'bin', 'check'), pid] + ([] if full else ['--only', 'proof'])
        pr = subprocess.run(cmd, cwd=ROOT, env=env, capture_output=True, text=True, timeout=3600)
        viol = [l.split('replay=')[1].split('/')[-1][:90] for l in pr.stdout.splitlines() if l.startswith('VIOLATION')]
        shutil.rmtree(ev, ignore_errors=True)
        return name, pid, pr.returncode, viol
    finally:
        shutil.rmtree(td, ignore_errors=True)


def main():
    full = '--full' in sys.argv
    want = [a for a in sys.argv[1:] if not a.startswith('--')]
    ms = [m for m in M if not want or m[0] in want]
    out = {}
    with ThreadPoolExecutor(4) as ex:
        for name, pid, rc, viol in ex.map(lambda m: run(m, full), ms):
            harmless = name.startswith('harmless')
            verdict = ('OK(no alarm)' if rc == 0 else 'FALSE ALARM') if harmless else ('caught' if rc == 1 else f'MISSED rc={rc}')
            print(f'{name:32s} {pid} {verdict:14s} {viol[:4]}')
            out[name] = dict(property=pid, exit=rc, violations=viol)
    json.dump(out, open('/tmp/mutants_result.json', 'w'), indent=1)


if __name__ == '__main__':
    main()
