#!/usr/bin/env python3
"""markdown summary of evidence/*.json (one row per property) for DESIGN.md"""
import glob, json, os
ROOT = os.path.dirname(os.path.dirname(os.path.abspath(__file__)))
print('| property | level | functions under contract | obligations (discharged) | real executions cross-checked | bounded evaluations | known findings |')
print('|---|---|---|---|---|---|---|')
for p in sorted(glob.glob(os.path.join(ROOT, 'evidence', 'C*.json'))):
    e = json.load(open(p))
    c = e['coverage']
    fns = sorted({f['function'].split('.')[-1] if f.get('function') else '?' for f in c.get('functions_under_contract', [])})
    cnt = c.get('bounded', {}).get('counters', {})
    print(f"| {e['property_id']} | {e['level']} | {len(fns)} | {c.get('obligations', 0)} ({c.get('discharged', 0)}) | {cnt.get('checked', 0)} | "
          f"{c.get('evaluations', 0)} | {', '.join(c.get('known_findings_reproduced', [])) or '-'} |")
