#!/bin/bash
# tools/run_all.sh <tier> : run every check of the given tier one after the other; print exit codes
tier=${1:-quick}
cd "$(dirname "$0")/.."
rc=0
for i in $(seq -w 1 19); do
  s=$(date +%s)
  bin/check C$i --tier $tier > /tmp/run_all_C$i.$tier.log 2>&1; e=$?
  echo "C$i tier=$tier exit=$e secs=$(( $(date +%s) - s )) $(grep -c '^VIOLATION' /tmp/run_all_C$i.$tier.log) violations $(grep -c '^KNOWN-FINDING' /tmp/run_all_C$i.$tier.log) known"
  [ $e -ne 0 ] && rc=1
done
exit $rc
