#!/usr/bin/env python3
"""print the markdown table of seeded changes (seeded/<id>/meta.json) for DESIGN.md"""
import glob, json, os
ROOT = os.path.dirname(os.path.dirname(os.path.abspath(__file__)))
print('| seed | change |\n|---|---|')
for d in sorted(glob.glob(os.path.join(ROOT, 'seeded', '*'))):
    m = json.load(open(os.path.join(d, 'meta.json')))
    s = (m.get('summary') or m.get('change') or '').replace('\n', ' ').replace('|', '\\|')
    print(f'| {os.path.basename(d)} | {s[:150]} |')
