#!/usr/bin/env python3
"""Evaluate seeded changes: tools/seed_eval.py <dir-with-patch.diff/demo.py/meta.json> [--checks C01,C02] [--tier quick]

For the seed: create a scratch worktree of /repo HEAD, confirm (a) the patch applies, (b) the 105 baseline tests pass
with it, (c) the demo passes without and fails with the patch, then run the named checks with VERIF_REPO pointing at
the patched scratch tree and report which ones raise a VIOLATION. Scratch trees are removed afterwards."""
import argparse
import json
import os
import shutil
import subprocess
import sys
import tempfile

ROOT = os.path.dirname(os.path.dirname(os.path.abspath(__file__)))


def sh(cmd, cwd=None, env=None, timeout=3600):
    p = subprocess.run(cmd, shell=True, cwd=cwd, env=env, capture_output=True, text=True, timeout=timeout)
    return p.returncode, (p.stdout + p.stderr)


def main():
    ap = argparse.ArgumentParser()
    ap.add_argument('seed_dir')
    ap.add_argument('--checks', default='')
    ap.add_argument('--tier', default='quick')
    ap.add_argument('--skip-confirm', action='store_true')
    ap.add_argument('--only', default='')
    a = ap.parse_args()
    sd = os.path.abspath(a.seed_dir)
    meta = json.load(open(os.path.join(sd, 'meta.json')))
    pid = meta.get('property') or meta.get('breaks')
    checks = [c for c in a.checks.split(',') if c] or [pid]
    wt = tempfile.mkdtemp(prefix='seedwt_', dir='/tmp')
    os.rmdir(wt)
    out = dict(seed=sd, property=pid)
    try:
        rc, o = sh(f'git -C /repo worktree add -q --detach {wt} HEAD')
        assert rc == 0, o
        patch = os.path.join(sd, 'patch.diff')
        demo = os.path.join(sd, 'demo.py')
        env = dict(os.environ, PYTHONDONTWRITEBYTECODE='1')
        if not a.skip_confirm:
            rc, o = sh(f'/venv/bin/python {demo}', cwd=wt, env=env)
            out['demo_clean_passes'] = (rc == 0)
            if rc != 0:
                out['demo_clean_output'] = o[-600:]
        rc, o = sh(f'git apply {patch}', cwd=wt)
        out['applies'] = (rc == 0)
        if rc != 0:
            out['apply_error'] = o[-400:]
            print(json.dumps(out, indent=1))
            return 2
        if not a.skip_confirm:
            rc, o = sh(f'/venv/bin/python {demo}', cwd=wt, env=env)
            out['demo_patched_fails'] = (rc != 0)
            out['demo_patched_tail'] = o.strip().splitlines()[-1][:300] if o.strip() else ''
            rc, o = sh(f'{ROOT}/tools/check_baseline.py {wt}')
            out['baseline_105'] = (rc == 0)
            if rc != 0:
                out['baseline_output'] = o[-600:]
        env2 = dict(os.environ, VERIF_REPO=wt, VERIF_EVIDENCE_DIR=tempfile.mkdtemp(prefix='seedev_', dir='/tmp'))
        det = {}
        for c in checks:
            extra = f' --only {a.only}' if a.only else ''
            rc, o = sh(f'{ROOT}/bin/check {c} --tier {a.tier}{extra}', cwd=ROOT, env=env2)
            viol = [l for l in o.splitlines() if l.startswith('VIOLATION')]
            det[c] = dict(exit=rc, violations=[v.split('replay=')[1] for v in viol][:6])
            if rc == 3:
                det[c]['fault'] = o[-800:]
        shutil.rmtree(env2['VERIF_EVIDENCE_DIR'], ignore_errors=True)
        out['checks'] = det
        out['detected'] = any(d['exit'] == 1 for d in det.values())
    finally:
        sh(f'git -C /repo worktree remove --force {wt}')
        shutil.rmtree(wt, ignore_errors=True)
    print(json.dumps(out, indent=1))
    return 0


if __name__ == '__main__':
    sys.exit(main())
