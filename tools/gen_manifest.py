#!/usr/bin/env python3
"""Regenerate MANIFEST.json from vlib/props.py (single source of truth) and validate it."""
import json
import os
import sys

ROOT = os.path.dirname(os.path.dirname(os.path.abspath(__file__)))
sys.path.insert(0, ROOT)
from vlib import props  # noqa

ids = [json.loads(l)['id'] for l in open(os.path.join(ROOT, 'properties.jsonl'))]
checks = []
na = []
for pid in ids:
    cfg = props.PROPS.get(pid)
    if cfg is None or cfg.get('not_applicable'):
        na.append(dict(property_id=pid, reason=(cfg or {}).get('not_applicable', 'check not built yet (work in progress)')))
        continue
    checks.append(dict(
        property_id=pid,
        quick_cmd=f'bin/check {pid} --tier quick',
        thorough_cmd=f'bin/check {pid} --tier thorough',
        evidence_file=f'evidence/{pid}.json',
        replay_cmd_template='bin/replay {path}',
        engine='vlib',
        level_claimed=dict(category=cfg['level'], text=cfg['explanation'], design_ref=cfg.get('design_ref', 'DESIGN.md section 7')),
        level_note='; '.join(cfg.get('trusted_base', []) + cfg.get('assumptions', [])) or 'see evidence trusted_base',
        technique=cfg.get('technique', ''),
    ))
man = dict(
    version=1,
    setup_cmd='bin/setup',
    hooks=dict(guard='TULIP_CONTROL_DD_VERIF',
               enable='no source hooks: contracts are sidecars in /verif; reordering requests are injected through the module global dd.bdd._request_reordering',
               baseline_off_cmd='cd /repo && /venv/bin/python -m pytest -ra -q -p no:cacheprovider --timeout=900 --continue-on-collection-errors',
               source_commits=[], add_only=True),
    engines=[dict(name='vlib', path='vlib/', serves_properties=[c['property_id'] for c in checks],
                  kind_free_text='VC generator (ast -> z3/cvc5) over the real source with sidecar contracts; the same contracts (and observed contracts) evaluated by z3 on real executions (cross-check); run-time-contract bounded stand-in; Lean lemmas; Cython-parser front end')],
    checks=checks,
    notes=props.NOTES,
    not_applicable=na,
)
json.dump(man, open(os.path.join(ROOT, 'MANIFEST.json'), 'w'), indent=1)
try:
    import jsonschema
    jsonschema.validate(man, json.load(open('/root/.vp/MANIFEST.schema.json')))
    print('MANIFEST.json valid;', len(checks), 'checks,', len(na), 'not applicable')
except ImportError:
    print('jsonschema not importable; not validated')
